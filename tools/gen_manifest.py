#!/usr/bin/env python3
"""Regenerates /verif/MANIFEST.json from the table below and validates it against the schema."""
import json, subprocess, sys

BASELINE = json.load(open('/root/.vp/BASELINE.json'))

# property id -> (technique, level text, level note, design ref)  -- only properties with a working check
CHECKS = {
    "C05": (
        "differential monitor: host operations called through the public machine step vs an i128/IEEE reference model; exhaustive for 8-bit operands",
        "Every numeric role is executed on the real interpreter code path and compared with an independent arithmetic model: "
        "all 65 536 operand pairs of both 8-bit types for the 8 binary roles are enumerated completely, wider types and floats get boundary-set "
        "squares plus seeded random operands, literal programs cover every value within 3 of every range boundary at every type. "
        "Exploration, exhaustive only inside the stated 8-bit sub-space.",
        "Trusted: rustc's i128 and IEEE float arithmetic as reference, the harness's decoding of the returned computation, the minimal hand-written Builtin signature.",
        "DESIGN.md section 5, C05",
    ),
}

NOT_YET = "check not built yet in this revision of /verif (work in progress; see DESIGN.md section 5 for the planned monitor)"

def main():
    props = [json.loads(l) for l in open('/verif/properties.jsonl')]
    checks = []
    not_applicable = []
    for p in props:
        pid = p['id']
        if pid in CHECKS:
            technique, text, note, ref = CHECKS[pid]
            checks.append({
                "property_id": pid,
                "quick_cmd": f"bin/check {pid} quick",
                "thorough_cmd": f"bin/check {pid} thorough",
                "evidence_file": f"evidence/{pid}.json",
                "replay_cmd_template": f"bin/check {pid} --replay {{path}}",
                "engine": "zv",
                "level_claimed": {"category": "exploration", "text": text, "design_ref": ref},
                "level_note": note,
                "technique": technique,
            })
        else:
            not_applicable.append({"property_id": pid, "reason": NOT_YET})
    hooks_commits = [l.strip() for l in open('/verif/tools/hook_commits.txt')] if __import__('os').path.exists('/verif/tools/hook_commits.txt') else []
    manifest = {
        "version": 1,
        "setup_cmd": "bin/check --setup",
        "hooks": {
            "guard": "cargo feature `verif-hooks` of crate zydeco-session (off by default)",
            "enable": "the harness crate /verif/harness enables the feature on its path dependency when built with `--features hooks`; every other observation uses public API only",
            "baseline_off_cmd": BASELINE["cmd"],
            "source_commits": hooks_commits,
            "add_only": True,
        },
        "engines": [
            {"name": "zv", "path": "harness", "serves_properties": sorted(CHECKS.keys()),
             "kind_free_text": "Rust harness linking the repository crates as path dependencies; drives the real code in process (and the real CLI out of process), "
                               "records observations and decides them with reference models / metamorphic oracles; sharded over child processes"},
        ],
        "checks": checks,
        "not_applicable": not_applicable,
        "notes": "Technique family: runtime monitoring and sanitizers. All checks are one entry point, bin/check <id> <tier>; exit 0 held, 1 VIOLATION, 2 no verdict (build/harness error).",
    }
    json.dump(manifest, open('/verif/MANIFEST.json', 'w'), indent=1)
    schema = json.load(open('/root/.vp/MANIFEST.schema.json'))
    try:
        import jsonschema
        jsonschema.validate(manifest, schema)
        print("MANIFEST.json valid;", len(checks), "checks,", len(not_applicable), "not yet claimed")
    except ImportError:
        print("jsonschema not importable; run with python3-vt", file=sys.stderr)

if __name__ == '__main__':
    main()
