#!/usr/bin/env python3
"""Regenerates /verif/MANIFEST.json from the table below and validates it against the schema."""
import json, subprocess, sys

BASELINE = json.load(open('/root/.vp/BASELINE.json'))

# property id -> (technique, level text, level note, design ref)  -- only properties with a working check
CHECKS = {
    "C01": (
        "step monitor over the real interpreter: every accepted program (generated, error-injected, confusion catalogue) is driven one public step at a time under catch_unwind with a panic-site classifier",
        "Accepted programs are produced three ways (type-directed generator, typed error injection that the checker fails to reject, a producer x consumer x context grid "
        "of similar-but-different types) and each is executed by the repository's own CK machine under a fuel bound; any unwinding from a stuck-state site, "
        "any panic that is not the defined arithmetic trap / legacy host I/O failure, or a bad final state is a violation. Exploration: soundness holes outside "
        "the generator's formers and the catalogue grid are not reached.",
        "Trusted: the panic classifier's reading of which sites are stuck states; fuel exhaustion is counted inconclusive.",
        "DESIGN.md section 5, C01",
    ),
    "C02": (
        "differential monitor: interpreter stdout + exit code vs an independent CBPV reference evaluator on generated programs, in several erasure-equivalent styles",
        "Each generated program has unique literals and order-sensitive observations, is printed in 4-5 styles that differ only in erased structure "
        "(annotations, let/def, field names, parentheses, tuple grouping, declaration order, telescopes, minimal vs standard Builtin signature), run through "
        "check + link + the real interpreter, and compared byte for byte with the harness's reference evaluator. Exploration over the generated core language.",
        "Trusted: the harness reference evaluator as a reading of call-by-push-value; the generator's construction invariant (terminating, closed, well-typed).",
        "DESIGN.md section 5, C02",
    ),
    "C03": (
        "two-class oracle over the real checker: generated well-typed programs must be Checked in every style; programs with one definite injected type error must be rejected via the normal error path; plus a hand-written sealing/existential/polymorphism catalogue",
        "must-accept and must-reject classes only (nothing whose typability depends on inference strength): 18 kinds of injected errors at checked positions, "
        "a grid of 28 similar-but-different types x 6 use contexts with nominal/structural expectations, sealing, existential opening/escape and kind errors. Exploration.",
        "Trusted: E1's construction invariant for must-accept; definiteness of an injected error (closed expected type with a different head former at a checked position).",
        "DESIGN.md section 5, C03",
    ),
    "C09": (
        "reference-model monitor over the public session API: declared file graphs vs CompilerSession::graph (acyclicity, dedup, closed-walk cycle reports, provider order); textual inlining as the splice oracle",
        "Graph families enumerate every import edge set on 3 implementation files with every companion combination (373 248 graphs) and on 4 files (65 536) in the thorough tier "
        "(seeded samples in quick) plus random graphs with repeated imports, sub-directories, directly imported signatures and numbered inputs; a scratch-directory family covers relative, "
        "dotted, absolute and symlinked spellings. Splice = inlining is decided by an independent textual inliner on the harness scanner: every import-bearing root under lib/ and docs/ "
        "(258 roots, full and one-level inlining), generated programs split into files by five strategies (three-way with the reference evaluator), and generativity probes with fixed "
        "expectations. Exploration; exhaustive only inside the stated graph sub-spaces.",
        "Trusted: the harness scanner's recognition of import sites, the Floyd-Warshall reachability oracle, the filesystem's canonicalisation for the spelling family.",
        "DESIGN.md section 5, C09",
    ),
    "C10": (
        "crash/hang/location monitor: catch_unwind around CompilerSession::analyze and the CLI's diagnostic renderer in process, the real `zydeco check` out of process (exit status, signal, CPU budget), span-in-file check of every report",
        "Six input families (random bytes, token soups with extreme literals, token/byte mutations of every repository source, grammar-directed parse-valid terms with "
        "every metadata form, generated programs with injected errors, mutated providers/companions) are pushed through the whole front end; any panic, abort, "
        "exit status outside {0,1}, CPU time over budget, or report location outside its file is a violation. Exploration; 'never loops' is a CPU-budget claim.",
        "Trusted: nesting depth of inputs bounded (<= 64) as the property allows; the shard watchdog's CPU accounting.",
        "DESIGN.md section 5, C10",
    ),
    "C11": (
        "extent monitor: the parser's root span vs the first/last non-comment token found by an independent scanner; junk-suffix and irregularity-insertion metamorphism",
        "Every seed (repository sources, grammar-generated terms, generated programs), every seed + junk suffix and every seed with a lexical irregularity inserted at token "
        "boundaries is parsed by the real parser; an accepted parse whose root span differs from the scanner's code extent, or that contains an irregular token outside comments, is a violation. Exploration.",
        "Trusted: the harness scanner's reading of the lexical grammar.",
        "DESIGN.md section 5, C11",
    ),
    "C12": (
        "totality + meaning monitor over the real formatter: catch_unwind, CPU/memory budget per case, re-parse of the output, equality of the desugared term, check/run equivalence on runnable programs, `zydeco fmt` out of process on parseable and unparseable files",
        "Every (source, option tuple) of the workload (repository sources, trivia-mutated sources, grammar-generated terms with nested format directives, generated programs; widths from 1 up, "
        "4 indents, 3 layout policies, 2 parenthesis policies, as API options or as a wrapping directive) is formatted in process; a panic, a death of the formatting shard, output that "
        "does not parse, a different desugared term or a different check/run behaviour is a violation. Exploration. Sources at delimiter nesting >= 11 are only sampled out of process (known finding).",
        "Trusted: the repository's one-line rendering of desugared terms as a faithful structure fingerprint; the CPU budget (10 s per case).",
        "DESIGN.md section 5, C12",
    ),
    "C13": (
        "token-stream monitor: an independent scanner on formatter input and output; comment list equality, removal-only alignment of code tokens, side preservation against entity-anchoring atoms; comment-placement sweep over every token gap",
        "Comments must be identical in kind, text and order; every output token must align with an input token and input tokens may vanish only in the removal-only classes; literals compare by value; "
        "each comment stays between the same two surviving anchoring atoms. Workload = C12's plus every token gap x 4 comment kinds on small seeds. Exploration.",
        "Trusted: the harness scanner; anchoring is judged on atoms that are entities (names that are only part of an entity are not anchors, following the formatter's documented entity-anchor model).",
        "DESIGN.md section 5, C13",
    ),
    "C14": (
        "byte-equality monitor: fmt(fmt(x)) vs fmt(x) (and a third round), trailing newline, fmt of horizontally re-spaced variants, `zydeco fmt --check` vs `zydeco fmt` out of process",
        "Each formatted output of the C12 workload is formatted again twice and compared byte for byte, sources re-spaced within lines must format identically, and the CLI's --check verdict must agree with whether fmt changes the file. Exploration.",
        "Trusted: the re-spacing mutator only changes runs of blanks between tokens on one line; sources with verbatim regions are excluded from the canonical-form comparison.",
        "DESIGN.md section 5, C14",
    ),
    "C15": (
        "differential history monitor: a long-lived CompilerSession driven through seeded edit/query histories, every answer compared with a fresh session on the same directory and overlays",
        "Seeded histories (6-16 operations) over five interdependent files with valid, syntax-error, type-error, import-added/dropped/doubled, cyclic, non-exhaustive and absent "
        "variants; operations set_overlay, clear_overlay, write/delete + refresh_disk, overlay equal to disk; queries graph, analyze, reports, coverage, run, evict-then-run, "
        "analyze on a snapshot, normalized_type. After every query the same query is put to a fresh session and the normalised answers (paths kept, arena identities masked) "
        "must be equal. Ten scripted histories force the orders the property names. Exploration.",
        "Trusted: the fresh session as the oracle (its own correctness is the subject of C01-C12), the masking of identifier numbers, refresh_disk after every disk change.",
        "DESIGN.md section 5, C15",
    ),
    "C16": (
        "repetition monitor: every (program, command) executed in N independent processes of the real CLI (fresh hash seeds, ASLR) and compared byte for byte",
        "Fixtures, generated accepted programs, rejected programs with one or many reports / unresolved holes and blocks with many independent bindings are run through check, run, "
        "fmt --check and build -t zir|zasm|asm|llvm six (quick) or 24 (thorough) times each; any difference in stdout, stderr or exit status is a violation. Exploration.",
        "Trusted: constant absolute paths across repetitions; OS thread ids in panic banners are masked (crashes are C10/C18's subject).",
        "DESIGN.md section 5, C16",
    ),
    "C17": (
        "concurrency stress monitor with sequential oracles over a logical-clock event log; delay injection through the guarded verif-hooks pause points; ThreadSanitizer (-Zbuild-std) and Miri (many seeds) in the thorough tier",
        "Each storm runs one editing owner, 8 analysing threads on tagged snapshots inside salsa::Cancelled::catch, and 2 identifier-allocating threads for 150 rounds, with a seeded "
        "yield/sleep policy inside source_input, set_overlay and load_optional. A completed analysis must equal the fresh-session answer of the revision its snapshot was tagged with; "
        "the owner's answers at quiescent points and after the storm must equal fresh-session answers; all issued identifiers and key spaces must be distinct; 60 s without "
        "logical-clock progress is a violation. Evidence records completed / cancelled / edit-overlapping analyses and distinct per-round event orders. The thorough tier repeats "
        "the storm in a ThreadSanitizer build with std, salsa and dashmap instrumented and runs the allocator part under Miri with 16 seeds. Exploration: schedules are sampled.",
        "Trusted: the fresh sequential session as oracle, salsa's cancellation contract (a cancelled analysis has no answer), the OS scheduler plus injected pauses as the source of interleavings.",
        "DESIGN.md section 5, C17",
    ),
    "C18": (
        "crash + invariant monitor over the real back end: BackendProgram::lower and every renderer/emitter under catch_unwind; independent re-validation of the SPS-low and assembly arenas and of the AMD64 / LLVM text (llvm-as-14)",
        "Every accepted generated program and every executable fixture is lowered through stack IR, closure conversion and assembly to AMD64 (2 formats) and LLVM (4 triples); a panic is a violation, "
        "an Err value a defined outcome; the produced arenas are traversed by the harness's own validators (closed root, first-order blocks, unique labels, no sharing, guarded coproduct matches, "
        "product layouts, existing jump targets/symbols) and emitted text is checked for label/extern consistency. Exploration.",
        "Trusted: the harness validators' reading of the stated IR invariants. Two back-end limitations are recorded as open known findings (mixed constructor/catch-all arms, nested constructor patterns).",
        "DESIGN.md section 5, C18",
    ),
    "C19": (
        "three-way differential monitor: harness CBPV reference evaluator vs repository interpreter vs the harness's first-order SPS machine executing BackendProgram.sps_low with a host model (dispatch by numeric tag)",
        "Each accepted, lowerable generated program and each hand-written tag-order case is run three ways and stdout + exit code are compared; the SPS machine implements jump, let-arg, co-case, "
        "open-closure/continuation and the Returning/Control extern conventions of the native emitter. Exploration; stages below SPS-low are covered structurally by C18 only (no nasm / runtime offline).",
        "Trusted: the harness SPS machine and host model as a reading of sps_low; the generator's termination by construction.",
        "DESIGN.md section 5, C19",
    ),
    "C06": (
        "contract monitor: every host role called through the public machine step against a Unicode-scalar / scripted-I/O reference model; table agreement over all 126 roles; signature-mutation rejection",
        "All 126 roles are enumerated for table agreement (arity, ABI classifier, stack-IR entry, names, harness copy of the standard signature) and for "
        "signature mutations (each declared type with one structural mutation must be rejected by the real checker, the unmutated one accepted). Text, char and "
        "bytes roles run on seeded random Unicode strings with boundary indices against an independent model; I/O roles run scripted multi-call sessions on one "
        "machine over a scratch directory; one caller program reaches every non-numeric slot of lib/std/builtin.zy end to end. Exploration; exhaustive only over the role table.",
        "Trusted: Rust's char/str as the Unicode reference, the local filesystem semantics (root user: unwritable paths are ENOTDIR/EISDIR paths), the harness's decoding of the returned computation.",
        "DESIGN.md section 5, C06",
    ),
    "C07": (
        "renaming metamorphism + enumerated hygiene probes over the real resolver/checker/interpreter: one resolved program printed under 8 naming/blocks strategies must keep acceptance and behaviour (= reference); capture probes must yield a resolve error at the provider's occurrence",
        "Binder identity lives in the harness AST; names are chosen per strategy under a legality rule computed on that AST (no captured free variable; block contributions pairwise distinct), so any accept/behaviour "
        "difference between strategies, or from the reference evaluator, is a scoping defect. The hygiene grid enumerates 20 importer binder forms x 3 depths x provider shapes. Exploration, grid exhaustive.",
        "Trusted: the harness legality rule for replacement names; the reference evaluator.",
        "DESIGN.md section 5, C07",
    ),
    "C08": (
        "invariant monitor over zydeco_utils::graph on every digraph with <=4 nodes (exhaustive) against transitive-closure SCCs, three drain protocols; language-level permutation metamorphism",
        "Every adjacency matrix on 1..4 nodes incl. self-loops and target-only nodes is run through Kosaraju + top()/release() three ways and through obliviate/keep_only; "
        "each frontier observation is checked against mutual-reachability components and the dependencies-first order. Language level: every digraph on <=3 (quick) / <=4 (thorough) nodes as a block of "
        "sealed types (must be accepted, recorded topological order = SCCs with dependencies first, usable) and as a block of values (cycle => diagnostic), cycles through parameters, and generated programs "
        "whose let-chains are printed as blocks under several permutations (same acceptance and behaviour = reference). Exhaustive inside the stated node bounds, random beyond.",
        "Trusted: Floyd-Warshall closure as reference; only nodes returned by top() are released.",
        "DESIGN.md section 5, C08",
    ),
    "C04": (
        "brute-force oracle over the real checker and interpreter: for each (type, arm list) all values are enumerated and the first matching arm computed; acceptance, every reported missing pattern, and the arm taken at run time are compared",
        "Exhaustive enumeration (thorough) of all arm lists up to length 3 over 13 types at pattern depth 2-3, a seeded slice in quick, plus random deeper matrices and all comatch destructor multisets up to size 4. "
        "accepted <=> exhaustive; each reported CoveragePattern must have an unmatched instance; accepted matches must select the reference arm for every enumerated value.",
        "Trusted: first-match semantics; recursive types enumerated to pattern depth + 1.",
        "DESIGN.md section 5, C04",
    ),
    "C05": (
        "differential monitor: host operations called through the public machine step vs an i128/IEEE reference model; exhaustive for 8-bit operands",
        "Every numeric role is executed on the real interpreter code path and compared with an independent arithmetic model: "
        "all 65 536 operand pairs of both 8-bit types for the 8 binary roles are enumerated completely, wider types and floats get boundary-set "
        "squares plus seeded random operands, literal programs cover every value within 3 of every range boundary at every type. "
        "Exploration, exhaustive only inside the stated 8-bit sub-space.",
        "Trusted: rustc's i128 and IEEE float arithmetic as reference, the harness's decoding of the returned computation, the minimal hand-written Builtin signature.",
        "DESIGN.md section 5, C05",
    ),
    "C20": (
        "differential monitor: generated programs whose closed functions run as @[monadic] blocks at the identity monad vs the annotation-erased twin vs an independent CBPV reference evaluator, under the C01 step monitor",
        "Every generated program runs one to three closed functions of the translation's supported subset (ret, do, let, functions, thunks, transparent data and matches, products, "
        "host operations as block parameters, own parameters of value, data and thunk types) as `@[monadic] begin .. end` blocks instantiated with `Ret { ! ret_monad }` and shows "
        "each result; unique literals and non-commutative sub / append make bind order observable. Accepted programs must print and exit exactly as the erased twin and as the "
        "reference evaluator, and the interpreter run must never reach a stuck or undefined state. Rejections by the translation are recorded, not judged. Exploration.",
        "Trusted: the harness reference evaluator and type-directed generator, lib/std/control/monad.zy as the Monad/Algebra basis, the hand-written identity-monad instance.",
        "DESIGN.md section 5, C20",
    ),
}

# additions of the third session, appended to the level text (and technique where it changed)
ADD_TEXT = {
    "C01": " The generator also builds existential packages (abstract data types built, opened, used), comatch redexes, destructuring binds and tuple literals regrouped by patterns; the catalogue has cases for every soundness defect reported so far (duplicate constructors, value-level binders, synthesizing fix, shared forall witnesses). A dropped-arms generator drops one arm at every position of 2-20 alternatives (data, nested data, codata), eliminates exactly the dropped alternative, and keeps an accepted control per case.",
    "C02": " Styles also print abstractions as copattern clauses; programs contain existential packages, comatch redexes and regrouped tuple bindings.",
    "C03": " Error injection includes three definite existential-package errors (wrong witness, escaping witness, abstract type used at its representation). An escapes generator opens a package at a random position of a random tuple pattern (value-level let, abstraction binder): the escaping variant must be rejected, the well-scoped let variant accepted and run.",
    "C04": " A small family of matches over types with an uninhabited component documents the open finding that the checker treats every type as inhabited.",
    "C05": " Float32 literals are judged against the decimal rounded once to Float32 (not through Float64): literals beyond Float64 and literals a hair off a Float32 midpoint are fixed cases.",
    "C06": " Random handle histories (open / read / write / flush / close over several files, every capability ever obtained reused at random) are checked against a model: closed capabilities stay closed whatever is opened later, open ones never share state, files hold the modelled bytes at the quiescent point.",
    "C07": " A further strategy names annotated binders like a type alias used only in their own annotation, and 21 scope-extent probes require an Unbound error for occurrences outside the scope the rules give their would-be binder. A generator writes one name several times in ONE pattern (six binding forms, random pattern shapes): the rightmost component wins, or a block reports the duplicate; never another occurrence.",
    "C08": " Blocks with 2-4 parameters annotated through alias chains defined in the same block are printed under many placements of the definitions; acceptance and the printed argument-to-parameter mapping must not depend on the placement.",
    "C09": " Companions may be symbolic links to a signature in another directory (with its own relative import and a decoy next to the link), also shared by two implementations.",
    "C10": " A trivia family decorates readable programs with hostile lexical trivia (multi-line comments whose continuation lines start with Unicode white space, tabs, form feeds, CR, BOM, missing final newline); a witness family re-runs every input that ever crashed the front end. A defgraphs generator writes random graphs of sealed and transparent type definitions (chains, chains into cycles, diamonds, applications of a type function) with judgments that look through them.",
    "C11": " A block comment still open at the end of the input counts as an irregular token, not as a comment.",
    "C12": " Workload families added: verbatim regions in context, text blocks attached to literal / doc annotations, strings with raw control and format characters and raw line breaks, nested directives, vertical re-breaking, redundant parentheses with a break inside; the CLI leg also feeds token-mutated unparseable files. The text of `--|` lines is compared character for character (a literal splice is invisible in the desugared term); multi-line block comments opening after wide characters are part of the workload.",
    "C13": " Verbatim regions (extent from the parser's spans) must occur byte for byte in the output; comment payloads include multi-line, non-ASCII and delimiter look-alike content. Format directives that do not validate (misspelt, repeated, wrong argument shapes) surround payloads with comments: an inert directive must lose nothing.",
    "C14": " Further canonical legs compare a source with the same source plus one redundant single-line parenthesis pair (where the policy drops them and the pair is not printed as a multi-line group) and with one pun spelling toggled, each variant confirmed to desugar identically. A CLI leg names several files in one `fmt --check` invocation and compares the listing and the exit status with the single-file verdicts. Violations are tagged by experiments on the input (the same source without groups around single atoms formats to a fixed point; the added pair of the parenthesis leg sits around an atom) and by the input's hash, which is how the open findings of the thorough tier are keyed. The thorough tier takes every third case of the shared formatter workload (offset by the seed): with all of them it ran for more than two hours.",
    "C16": " Programs with several duplicate definitions, unbound names or missing arms at once, and random ill-formed grammar terms, target the order in which ambiguous diagnostics are chosen. Blocks with several recursive components through parameters are included. Accepted programs with several tuple variables that are only taken apart put several candidates of one back-end optimisation into one build.",
    "C17": " The quick tier also runs the allocator-identity race under Miri at four scheduler seeds. A language-server leg drives the repository's cajun binary over stdio with seeded open / change / close / reopen histories on several documents (every text identifies itself by a unique symbol and a warning on a unique line; all messages stamped from one logical clock; pauses aimed at fractions of a measured analysis): answers never come from contents replaced before the request was sent, diagnostics never describe a text older than their version label, at quiescence answers and the last publication are those of the current contents (also for a root importing another open document), and the server neither dies nor stops answering. A pending-slot leg calls check_resolved with ten distinguishable programs on one long-lived session and on concurrent snapshots against fresh sessions.",
    "C18": " Generated programs include comatch redexes inside thunks / continuations / fix bodies and existential packages. A shapes generator runs 24 binder / scrutinee / arm shapes over the repository's standard library (each accepted and run by the interpreter first) through the same monitors; matches with overlapping arms are generated. A fixture-mutants generator applies token-level changes to the repository's compile and exec fixtures (arms swapped, duplicated, turned into catch-alls, literals and identifiers replaced, uses wrapped into value-level lets), installs each as an overlay at the fixture's own path, and lowers every mutant that check still accepts as an executable.",
    "C19": " Generated programs include destructuring binds that return one component, comatch redexes and existential packages. The lowering is run up to the first-order program only, so that matches the assembly stage refuses (nested patterns, catch-all arms, overlapping arms) are compared too; a layouts generator builds a product on one side of a type abstraction and takes it apart on the other (open finding: static product layout under polymorphism).",
    "C20": " Inside blocks, tuple literals taken apart by patterns with another grouping are generated on purpose.",
    "C15": " A fifth of the histories contain unreadable files and symbolic links appearing (two open findings live there).",
}
TECHNIQUE = {
    "C17": "concurrency stress monitor with sequential oracles over a logical-clock event log; delay injection through the guarded verif-hooks pause points; black-box history monitor of the language server over stdio (unique value per write, logical clock, quiescence oracles); Miri (many seeds) on the allocator race in both tiers, ThreadSanitizer (-Zbuild-std) on the storm in the thorough tier",
    "C06": "contract monitor: every host role called through the public machine step against a reference model (text in Unicode scalars, I/O error continuations), random handle histories against a capability model, signature mutations through the real checker",
}

NOT_YET = "check not built yet in this revision of /verif (work in progress; see DESIGN.md section 5 for the planned monitor)"

def main():
    props = [json.loads(l) for l in open('/verif/properties.jsonl')]
    checks = []
    not_applicable = []
    for p in props:
        pid = p['id']
        if pid in CHECKS:
            technique, text, note, ref = CHECKS[pid]
            text = text + ADD_TEXT.get(pid, "")
            technique = TECHNIQUE.get(pid, technique)
            checks.append({
                "property_id": pid,
                "quick_cmd": f"bin/check {pid} quick",
                "thorough_cmd": f"bin/check {pid} thorough",
                "evidence_file": f"evidence/{pid}.json",
                "replay_cmd_template": f"bin/check {pid} --replay {{path}}",
                "engine": "zv",
                "level_claimed": {"category": "exploration", "text": text, "design_ref": ref},
                "level_note": note,
                "technique": technique,
            })
        else:
            not_applicable.append({"property_id": pid, "reason": NOT_YET})
    hooks_commits = [l.strip() for l in open('/verif/tools/hook_commits.txt')] if __import__('os').path.exists('/verif/tools/hook_commits.txt') else []
    manifest = {
        "version": 1,
        "setup_cmd": "bin/check --setup",
        "hooks": {
            "guard": "cargo feature `verif-hooks` of crate zydeco-session (off by default)",
            "enable": "the harness crate /verif/harness enables the feature on its zydeco-session path dependency (harness/Cargo.toml); the pause points are inert unless a check installs a policy, which only C17 does; every other observation uses public API only",
            "baseline_off_cmd": BASELINE["cmd"],
            "source_commits": hooks_commits,
            "add_only": True,
        },
        "engines": [
            {"name": "zv", "path": "harness", "serves_properties": sorted(CHECKS.keys()),
             "kind_free_text": "Rust harness linking the repository crates as path dependencies; drives the real code in process (and the real CLI out of process), "
                               "records observations and decides them with reference models / metamorphic oracles; sharded over child processes"},
        ],
        "checks": checks,
        "not_applicable": not_applicable,
        "notes": "Technique family: runtime monitoring and sanitizers. All checks are one entry point, bin/check <id> <tier>; exit 0 held, 1 VIOLATION, 2 no verdict (build/harness error).",
    }
    json.dump(manifest, open('/verif/MANIFEST.json', 'w'), indent=1)
    schema = json.load(open('/root/.vp/MANIFEST.schema.json'))
    try:
        import jsonschema
        jsonschema.validate(manifest, schema)
        print("MANIFEST.json valid;", len(checks), "checks,", len(not_applicable), "not yet claimed")
    except ImportError:
        print("jsonschema not importable; run with python3-vt", file=sys.stderr)

if __name__ == '__main__':
    main()
