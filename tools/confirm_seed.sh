#!/bin/bash
# tools/confirm_seed.sh <dir-with-patch.diff> [demo-command...]
# Confirms a seeded change independently of the sub-agent that proposed it, in the scratch worktree /tmp/seed-confirm
# (created with `git -C /repo worktree add --detach /tmp/seed-confirm HEAD`; its target directory is kept between
# seeds so that builds are incremental; remove the worktree when all seeds are confirmed):
#   1. the patch applies to a clean checkout of /repo's HEAD and the workspace builds,
#   2. the repository's test suite gives the same failing set as on the unmodified tree
#      (/tmp/seed-confirm-baseline-failed.txt, produced by the same command without any patch; the failures are the
#      amd64 tests that need nasm, which is not installed),
#   3. builds the patched CLI to <dir>/zydeco-mutant-confirm for running the demonstration by hand.
# Prints CONFIRM lines; always restores the worktree.
set -u
dir="$(readlink -f "$1")"; shift
wt=/tmp/seed-confirm
cd "$wt" || { echo "no worktree $wt"; exit 2; }
git checkout -q -- . ; git clean -fdq -- lang cli editor lib docs 2>/dev/null
git checkout -q --detach "$(git -C /repo rev-parse HEAD)"
if ! git apply --check "$dir/patch.diff" 2>/dev/null; then echo "CONFIRM $(basename "$dir") patch-does-not-apply"; exit 1; fi
git apply "$dir/patch.diff"
trap 'cd $wt && git checkout -q -- . && git clean -fdq -- lang cli editor lib docs 2>/dev/null' EXIT
export CARGO_NET_OFFLINE=true CARGO_PROFILE_DEV_DEBUG=0 CARGO_PROFILE_TEST_DEBUG=0
log="$dir/confirm-nextest.log"
nice cargo nextest run --workspace --no-fail-fast --offline --test-threads 8 > "$log" 2>&1
grep -a -E "^\s+(FAIL|SIGABRT|SIGSEGV|TIMEOUT)" "$log" | awk '{print $NF}' | sort -u > "$dir/confirm-failed.txt"
summary=$(grep -a -E "^\s*Summary" "$log" | tail -1)
if diff -q "$dir/confirm-failed.txt" /tmp/seed-confirm-baseline-failed.txt >/dev/null; then
  echo "CONFIRM $(basename "$dir") tests-same-as-baseline :: $summary"
else
  echo "CONFIRM $(basename "$dir") TESTS-DIFFER :: $summary"
  diff "$dir/confirm-failed.txt" /tmp/seed-confirm-baseline-failed.txt | head -20
fi
if nice cargo build --offline --bin zydeco >> "$log" 2>&1; then
  cp target/debug/zydeco "$dir/zydeco-mutant-confirm"
  echo "CONFIRM $(basename "$dir") cli-built $dir/zydeco-mutant-confirm"
else
  echo "CONFIRM $(basename "$dir") CLI-BUILD-FAILED"
fi
