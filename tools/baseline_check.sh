#!/bin/bash
# Runs the repository's own test suite (guard off) and compares with the 754 stable-pass tests of BASELINE.json.
cd /repo || exit 2
out=$(mktemp)
CARGO_NET_OFFLINE=true cargo nextest run --workspace --no-fail-fast --offline --test-threads 8 >"$out" 2>&1
python3 - "$out" <<'PY'
import json,re,sys
base=json.load(open('/root/.vp/BASELINE.json'))
want=set(base['stable_pass'])
passed=set()
for line in open(sys.argv[1], errors='replace'):
    m=re.match(r'\s+PASS \[[^\]]*\] \(\s*\d+/\d+\) (\S+) (\S+)', line)
    if m:
        passed.add(m.group(1)+'::'+m.group(2))
missing=sorted(want-passed)
print(f"baseline stable_pass={len(want)} passed_now={len(passed)} missing={len(missing)}")
for m in missing[:40]: print("  MISSING", m)
sys.exit(1 if missing else 0)
PY
rc=$?
rm -f "$out"
exit $rc
