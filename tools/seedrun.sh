#!/bin/bash
# tools/seedrun.sh <patch.diff> <check-id> [<check-id> ...]      (env TIER=quick|thorough, default quick; VERIF_SEED passes through)
#
# Runs the *committed* checks against a seeded change without touching /repo or /verif, so that development can go on
# in both while seeds are being tried:
#   /tmp/repo-snap   scratch git worktree of /repo's HEAD (or of the commit named in <dir>/base_commit); the patch is
#                    applied there and reverted afterwards
#   /tmp/verif-snap  scratch git worktree of /verif's HEAD with its own target directory (kept between runs)
# Inside a private mount namespace (unshare -m) the two are bind-mounted over /repo and /verif, so every check runs
# exactly as registered in MANIFEST.json (same paths, same commands); nothing outside the namespace sees the patch.
# Prints one summary line per check. Runs are serialised by a lock.
set -u
patch="$(readlink -f "$1")"; shift
tier="${TIER:-quick}"
exec 8>/tmp/seedrun.lock; flock 8
[ -d /tmp/repo-snap ] || git -C /repo worktree add --detach /tmp/repo-snap HEAD >/dev/null 2>&1
[ -d /tmp/verif-snap ] || git -C /verif worktree add --detach /tmp/verif-snap HEAD >/dev/null 2>&1
git -C /tmp/repo-snap checkout -q -- . && git -C /tmp/repo-snap clean -fdq -- lang cli editor lib docs 2>/dev/null
# a seed made for an older commit whose lines a later repair rewrote names that commit in <dir>/base_commit
base="$(cat "$(dirname "$patch")/base_commit" 2>/dev/null || git -C /repo rev-parse HEAD)"
git -C /tmp/repo-snap checkout -q --detach "$base" || { echo "cannot update /tmp/repo-snap"; exit 2; }
git -C /tmp/verif-snap checkout -q -- . 2>/dev/null
git -C /tmp/verif-snap checkout -q --detach "$(git -C /verif rev-parse HEAD)" || { echo "cannot update /tmp/verif-snap"; exit 2; }
name="$(basename "$(dirname "$patch")")"
if [ "$(basename "$patch")" != "none" ]; then
  if ! git -C /tmp/repo-snap apply --check "$patch" 2>/dev/null; then echo "SEED $name patch does not apply"; exit 2; fi
  git -C /tmp/repo-snap apply "$patch"
fi
trap 'git -C /tmp/repo-snap checkout -q -- . ; git -C /tmp/repo-snap clean -fdq -- lang cli editor lib docs 2>/dev/null' EXIT
for id in "$@"; do
  out=$(unshare -m bash -c "mount --bind /tmp/repo-snap /repo && mount --bind /tmp/verif-snap /verif && cd /verif && VERIF_SEED=${VERIF_SEED:-0} bin/check $id $tier" 2>&1 8>&-); code=$?
  nviol=$(printf '%s\n' "$out" | grep -a -c '^VIOLATION')
  sigs=$(printf '%s\n' "$out" | grep -a 'signature:' | sed 's/  tags:.*//; s/^ *signature: //' | sort | uniq -c | sort -rn | head -4 | tr '\n' ';')
  res=$(printf '%s\n' "$out" | grep -a '^RESULT\|^BUILD-ERROR' | head -1)
  echo "SEED $name check=$id tier=$tier seed=${VERIF_SEED:-0} exit=$code violations=$nviol :: $sigs $res"
  mkdir -p /tmp/seedrun-logs; printf '%s\n' "$out" > "/tmp/seedrun-logs/$name-$id-$tier.log"
done
