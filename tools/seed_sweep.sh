#!/bin/bash
# Runs every registered quick check at several seeds and prints every result that is not "held".
cd /verif
for seed in "$@"; do
  for p in $(python3 -c "import json; print(' '.join(c['property_id'] for c in json.load(open('MANIFEST.json'))['checks']))"); do
    out=$(VERIF_SEED=$seed target/bg/zv-sweep check $p quick 2>&1)
    res=$(echo "$out" | grep -a -E "^RESULT" | head -1)
    nviol=$(echo "$out" | grep -a -c "^VIOLATION")
    echo "seed=$seed $p violations=$nviol $res"
  done
done
