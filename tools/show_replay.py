#!/usr/bin/env python3
import json,sys
d=json.load(open(sys.argv[1]))
v=d['violation']
print('property',d['property'],'sig',v['signature'],'case',v['generator'],v['index'])
det=v['detail']
for k,val in det.items():
    if k=='sources':
        for f,t in val.items():
            print('-----',f); print(t)
    else:
        print('==',k,':',val if not isinstance(val,str) else '\n'+val)
