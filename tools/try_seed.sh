#!/bin/bash
# tools/try_seed.sh <patch.diff> <check-id> [<check-id> ...]   (env TIER=quick|thorough, default quick)
# Applies a seeded change to /repo, runs the named checks (bin/check rebuilds from the working tree), prints one
# summary line per check, and always restores /repo's working tree. With VERIF_HOME=<snapshot of /verif> (a git worktree
# of the committed tree with its own target directory) the checks run from that snapshot, so /verif can be edited meanwhile;
# evidence and replays then go to $VERIF_HOME, never to /verif.
set -u
patch="$(readlink -f "$1")"; shift
tier="${TIER:-quick}"
if ! git -C /repo diff --quiet; then echo "refusing: /repo has uncommitted changes"; exit 2; fi
if ! git -C /repo apply --check "$patch" 2>/dev/null; then echo "patch does not apply: $patch"; exit 2; fi
git -C /repo apply "$patch"
trap 'git -C /repo checkout -- . ; git -C /repo clean -fdq -- lang cli editor 2>/dev/null' EXIT
for id in "$@"; do
  out=$(VERIF_SCRATCH="${VERIF_SCRATCH:-}" "${VERIF_HOME:-/verif}/bin/check" "$id" "$tier" 2>&1); code=$?
  nviol=$(printf '%s\n' "$out" | grep -c '^VIOLATION')
  sigs=$(printf '%s\n' "$out" | grep 'signature:' | sed 's/  tags:.*//; s/^ *signature: //' | sort | uniq -c | sort -rn | head -4 | tr '\n' ';')
  echo "SEED $(basename $(dirname "$patch")) check=$id tier=$tier exit=$code violations=$nviol :: $sigs"
done
