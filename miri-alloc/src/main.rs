//! C17, allocator identity under Miri: racing threads create allocators and allocate identifiers; every
//! (key space, raw slot) pair must be unique and every allocator must own a distinct key space.
use std::collections::HashSet;
use zydeco_utils::arena::{Allocates, ArenaId, IdAllocator};

zydeco_utils::new_key_type! {
    struct NodeId;
}
enum Nodes {}
impl Allocates<NodeId> for Nodes {}

fn main() {
    let barrier = std::sync::Arc::new(std::sync::Barrier::new(4));
    let handles: Vec<_> = (0..4)
        .map(|_| {
            let b = barrier.clone();
            std::thread::spawn(move || {
                b.wait();
                let mut out = Vec::new();
                for n in 0..12u32 {
                    let mut a = IdAllocator::<Nodes>::new();
                    for _ in 0..(1 + n % 3) {
                        let id: NodeId = a.alloc();
                        out.push((id.key_space().as_u64(), id.raw().into_u32()));
                    }
                }
                out
            })
        })
        .collect();
    let mut all = HashSet::new();
    let mut spaces = HashSet::new();
    for h in handles {
        for (space, raw) in h.join().unwrap() {
            if !all.insert((space, raw)) || (raw == 0 && !spaces.insert(space)) {
                println!("COLLISION ({space}, {raw})");
                std::process::exit(1);
            }
        }
    }
    println!("allocators ok: {} ids, {} key spaces", all.len(), spaces.len());
}
