//! Shared framework: configuration, statistics, verdicts, sharding over child processes,
//! evidence and replay files, known-findings matching.

use crate::util::rng::hash64;
use serde_json::{Value, json};
use std::collections::{BTreeMap, BTreeSet, HashSet};
use std::io::Write;
use std::path::{Path, PathBuf};
use std::time::Instant;

/// Root of the verification tree.
pub fn verif_root() -> PathBuf {
    PathBuf::from("/verif")
}

#[derive(Clone, Copy, Debug, PartialEq, Eq)]
pub enum Tier {
    Quick,
    Thorough,
}

impl Tier {
    pub fn name(self) -> &'static str {
        match self {
            | Tier::Quick => "quick",
            | Tier::Thorough => "thorough",
        }
    }
    pub fn parse(s: &str) -> Option<Self> {
        match s {
            | "quick" => Some(Tier::Quick),
            | "thorough" => Some(Tier::Thorough),
            | _ => None,
        }
    }
    /// quick value or thorough value
    pub fn pick<T>(self, quick: T, thorough: T) -> T {
        match self {
            | Tier::Quick => quick,
            | Tier::Thorough => thorough,
        }
    }
}

#[derive(Clone, Debug)]
pub struct Cfg {
    pub prop: String,
    pub tier: Tier,
    pub seed: u64,
    pub jobs: usize,
}

impl Cfg {
    pub fn from_env(prop: &str, tier: Tier) -> Self {
        let seed = std::env::var("VERIF_SEED").ok().and_then(|s| s.trim().parse::<u64>().ok()).unwrap_or(0);
        let jobs = std::env::var("VERIF_JOBS")
            .ok()
            .and_then(|s| s.parse::<usize>().ok())
            .unwrap_or_else(|| std::thread::available_parallelism().map(|n| n.get()).unwrap_or(4))
            .max(1);
        let _ = CURRENT_PROPERTY.set(prop.to_string());
        Cfg { prop: prop.to_string(), tier, seed, jobs }
    }
}

/// One refutation of a property, with everything needed to reproduce and to match known findings.
#[derive(Clone, Debug)]
pub struct Violation {
    /// failure shape: e.g. "panic lang/assembly/src/lower.rs:537" or "accepted-with-unconsumed-suffix"
    pub signature: String,
    /// input-side predicates that held for this case (known-finding triggers are looked up here)
    pub tags: Vec<String>,
    /// sub-generator name and case index: `(gen, index)` regenerates the case under the same seed/tier
    pub generator: String,
    pub index: u64,
    /// human-readable description and the materialised inputs / expected / observed
    pub detail: Value,
}

impl Violation {
    pub fn to_json(&self) -> Value {
        json!({
            "signature": self.signature,
            "tags": self.tags,
            "generator": self.generator,
            "index": self.index,
            "detail": self.detail,
        })
    }
    pub fn from_json(v: &Value) -> Self {
        Violation {
            signature: v["signature"].as_str().unwrap_or("").to_string(),
            tags: v["tags"].as_array().map(|a| a.iter().filter_map(|t| t.as_str().map(String::from)).collect()).unwrap_or_default(),
            generator: v["generator"].as_str().unwrap_or("").to_string(),
            index: v["index"].as_u64().unwrap_or(0),
            detail: v["detail"].clone(),
        }
    }
}

/// Everything a run measures. Merged across shards.
#[derive(Clone, Debug, Default)]
pub struct Stats {
    pub evaluations: u64,
    pub counters: BTreeMap<String, u64>,
    /// hashes of distinct non-trivial cases (by the property's stated rule)
    pub distinct: HashSet<u64>,
    /// named coverage sets (formers exercised, roles called, transition kinds, panic classes…)
    pub sets: BTreeMap<String, BTreeSet<String>>,
    pub samples: Vec<Value>,
    pub violations: Vec<Violation>,
    pub inconclusive: BTreeMap<String, u64>,
    pub harness_errors: Vec<String>,
    pub exhaustive: Vec<String>,
    pub notes: Vec<String>,
    /// occurrences of open known findings: "signature [trigger]" -> (count, what)
    pub known_hits: BTreeMap<String, (u64, String)>,
}

pub const MAX_SAMPLES: usize = 6;
pub const MAX_VIOLATIONS_KEPT: usize = 40;

/// The property this process decides (set when its `Cfg` is built) and the committed known findings, so that a
/// violation can be classified when it is recorded: occurrences of *open known findings* are only counted and never
/// take one of the `MAX_VIOLATIONS_KEPT` places, which would otherwise let a frequent known finding crowd out a new
/// violation of the same property.
static CURRENT_PROPERTY: std::sync::OnceLock<String> = std::sync::OnceLock::new();
static KNOWN: std::sync::OnceLock<Vec<KnownFinding>> = std::sync::OnceLock::new();

fn known_for_current(v: &Violation) -> Option<&'static KnownFinding> {
    let prop = CURRENT_PROPERTY.get()?;
    match_known(KNOWN.get_or_init(load_known_findings), prop, v)
}

impl Stats {
    pub fn count(&mut self, key: &str) {
        *self.counters.entry(key.to_string()).or_insert(0) += 1;
    }
    pub fn add(&mut self, key: &str, n: u64) {
        *self.counters.entry(key.to_string()).or_insert(0) += n;
    }
    pub fn get(&self, key: &str) -> u64 {
        self.counters.get(key).copied().unwrap_or(0)
    }
    pub fn cover(&mut self, set: &str, item: &str) {
        self.sets.entry(set.to_string()).or_default().insert(item.to_string());
    }
    pub fn nontrivial(&mut self, key: &[u8]) {
        self.distinct.insert(hash64(key));
    }
    pub fn nontrivial_hash(&mut self, h: u64) {
        self.distinct.insert(h);
    }
    pub fn sample(&mut self, v: Value) {
        if self.samples.len() < MAX_SAMPLES {
            self.samples.push(v);
        }
    }
    pub fn inconclusive(&mut self, reason: &str) {
        *self.inconclusive.entry(reason.to_string()).or_insert(0) += 1;
    }
    pub fn violation(&mut self, v: Violation) {
        self.count("violations_raw");
        if let Some(k) = known_for_current(&v) {
            let e = self.known_hits.entry(format!("{} [{}]", k.signature, k.trigger)).or_insert((0, k.what.clone()));
            e.0 += 1;
            return;
        }
        // keep at most a few per signature so that one defect does not mask the others
        let same = self.violations.iter().filter(|o| o.signature == v.signature && o.tags == v.tags).count();
        if same < 3 && self.violations.len() < MAX_VIOLATIONS_KEPT {
            self.violations.push(v);
        }
    }
    pub fn harness_error(&mut self, msg: String) {
        if self.harness_errors.len() < 20 {
            self.harness_errors.push(msg);
        }
        self.count("harness_errors");
    }
    pub fn merge(&mut self, other: Stats) {
        self.evaluations += other.evaluations;
        for (k, v) in other.counters {
            *self.counters.entry(k).or_insert(0) += v;
        }
        self.distinct.extend(other.distinct);
        for (k, v) in other.sets {
            self.sets.entry(k).or_default().extend(v);
        }
        for s in other.samples {
            self.sample(s);
        }
        for v in other.violations {
            let same = self.violations.iter().filter(|o| o.signature == v.signature && o.tags == v.tags).count();
            if same < 3 && self.violations.len() < MAX_VIOLATIONS_KEPT {
                self.violations.push(v);
            }
        }
        for (k, v) in other.inconclusive {
            *self.inconclusive.entry(k).or_insert(0) += v;
        }
        for (k, (n, what)) in other.known_hits {
            self.known_hits.entry(k).or_insert((0, what)).0 += n;
        }
        for e in other.harness_errors {
            if self.harness_errors.len() < 20 {
                self.harness_errors.push(e);
            }
        }
        for e in other.exhaustive {
            if !self.exhaustive.contains(&e) {
                self.exhaustive.push(e);
            }
        }
        for n in other.notes {
            if !self.notes.contains(&n) {
                self.notes.push(n);
            }
        }
    }
    pub fn to_json(&self) -> Value {
        json!({
            "evaluations": self.evaluations,
            "counters": self.counters,
            "distinct": self.distinct.iter().collect::<Vec<_>>(),
            "sets": self.sets,
            "samples": self.samples,
            "violations": self.violations.iter().map(|v| v.to_json()).collect::<Vec<_>>(),
            "inconclusive": self.inconclusive,
            "harness_errors": self.harness_errors,
            "exhaustive": self.exhaustive,
            "notes": self.notes,
            "known_hits": self.known_hits.iter().map(|(k, (n, what))| (k.clone(), json!([n, what]))).collect::<BTreeMap<_, _>>(),
        })
    }
    pub fn from_json(v: &Value) -> Self {
        let mut s = Stats::default();
        s.evaluations = v["evaluations"].as_u64().unwrap_or(0);
        if let Some(m) = v["counters"].as_object() {
            for (k, x) in m {
                s.counters.insert(k.clone(), x.as_u64().unwrap_or(0));
            }
        }
        if let Some(a) = v["distinct"].as_array() {
            s.distinct = a.iter().filter_map(|x| x.as_u64()).collect();
        }
        if let Some(m) = v["sets"].as_object() {
            for (k, x) in m {
                let set = x.as_array().map(|a| a.iter().filter_map(|t| t.as_str().map(String::from)).collect()).unwrap_or_default();
                s.sets.insert(k.clone(), set);
            }
        }
        if let Some(a) = v["samples"].as_array() {
            s.samples = a.clone();
        }
        if let Some(a) = v["violations"].as_array() {
            s.violations = a.iter().map(Violation::from_json).collect();
        }
        if let Some(m) = v["inconclusive"].as_object() {
            for (k, x) in m {
                s.inconclusive.insert(k.clone(), x.as_u64().unwrap_or(0));
            }
        }
        if let Some(a) = v["harness_errors"].as_array() {
            s.harness_errors = a.iter().filter_map(|t| t.as_str().map(String::from)).collect();
        }
        if let Some(a) = v["exhaustive"].as_array() {
            s.exhaustive = a.iter().filter_map(|t| t.as_str().map(String::from)).collect();
        }
        if let Some(a) = v["notes"].as_array() {
            s.notes = a.iter().filter_map(|t| t.as_str().map(String::from)).collect();
        }
        if let Some(m) = v["known_hits"].as_object() {
            for (k, x) in m {
                s.known_hits.insert(k.clone(), (x[0].as_u64().unwrap_or(0), x[1].as_str().unwrap_or("").to_string()));
            }
        }
        s
    }
}

/* ------------------------------------------------------------------------------------------ */
/* Case generators and sharding                                                                */
/* ------------------------------------------------------------------------------------------ */

/// A named family of indexable cases. `run` must be a deterministic function of (cfg.seed, cfg.tier, index).
pub struct Generator {
    pub name: &'static str,
    pub total: u64,
    pub run: fn(&Cfg, u64, &mut Stats),
    /// CPU-seconds allowed for one case before the shard gives up on it (hang suspicion).
    pub case_cpu_limit_s: u64,
}

/// What a property module exposes.
pub struct PropertyDef {
    pub id: &'static str,
    pub title: &'static str,
    /// generators for the given configuration
    pub generators: fn(&Cfg) -> Vec<Generator>,
    /// extra, non-sharded work executed in the parent after the shards (may be a no-op)
    pub extra: fn(&Cfg, &mut Stats),
    /// evidence description
    pub rule: &'static str,
    pub assumptions: &'static [&'static str],
    /// minimal number of distinct non-trivial cases for a run to count (quick, thorough)
    pub floor: (u64, u64),
    /// How a suspect case (shard died / hung on it) is judged: returns Some(violation) if the death is itself
    /// a refutation for this property (crash-monitoring properties), None if it is only a harness problem.
    pub on_case_death: fn(&Cfg, &str, u64, &str) -> Death,
}

/// How the death of a shard on a case is judged by a property.
pub enum Death {
    /// the death itself refutes the property (crash/hang-monitoring properties)
    Violation(Violation),
    /// the property says nothing about this death; the case is not decided
    Inconclusive(String),
    /// a problem of the harness: the run has no verdict
    HarnessError,
}

pub fn no_extra(_: &Cfg, _: &mut Stats) {}
pub fn death_is_harness_error(_: &Cfg, _: &str, _: u64, _: &str) -> Death {
    Death::HarnessError
}

fn scratch_base() -> PathBuf {
    let base = std::env::var_os("VERIF_SCRATCH").map(PathBuf::from).unwrap_or_else(std::env::temp_dir);
    base
}

/// Run one shard in this process (child side). Writes stats JSON to `out` (atomically, also periodically).
pub fn shard_main(def: &PropertyDef, cfg: &Cfg, gen_name: &str, k: u64, n: u64, start: u64, out: &Path, progress: &Path) -> i32 {
    // bound the address space of a shard: a memory blow-up in the code under test then aborts this shard (and is
    // attributed to its case) instead of driving the whole machine out of memory
    unsafe {
        let limit: libc::rlim_t = 5 << 30;
        let lim = libc::rlimit { rlim_cur: limit, rlim_max: limit };
        libc::setrlimit(libc::RLIMIT_AS, &lim);
        let zero = libc::rlimit { rlim_cur: 0, rlim_max: 0 };
        libc::setrlimit(libc::RLIMIT_CORE, &zero);
    }
    let gens = (def.generators)(cfg);
    let Some(generator) = gens.into_iter().find(|g| g.name == gen_name) else {
        eprintln!("unknown generator {gen_name}");
        return 2;
    };
    let cfg = cfg.clone();
    let out = out.to_path_buf();
    let progress = progress.to_path_buf();
    let limit = generator.case_cpu_limit_s;
    // shared progress marker for the watchdog: (current index, cpu seconds at case start)
    let current = std::sync::Arc::new(std::sync::Mutex::new((u64::MAX, 0.0f64, Instant::now())));
    let current_w = current.clone();
    let progress_w = progress.clone();
    // watchdog thread: CPU-time budget per case; wall clock only as a generous backstop
    std::thread::spawn(move || {
        loop {
            std::thread::sleep(std::time::Duration::from_millis(500));
            let (idx, cpu0, t0) = *current_w.lock().unwrap();
            if idx == u64::MAX {
                continue;
            }
            let cpu = process_cpu_seconds() - cpu0;
            let wall = t0.elapsed().as_secs_f64();
            if cpu > limit as f64 {
                let _ = std::fs::write(&progress_w, format!("{} CPU_TIMEOUT\n", idx));
                std::process::exit(3);
            }
            if wall > (limit as f64) * 20.0 + 600.0 {
                let _ = std::fs::write(&progress_w, format!("{} WALL_TIMEOUT\n", idx));
                std::process::exit(4);
            }
        }
    });
    let handle = std::thread::Builder::new()
        .stack_size(1 << 30)
        .spawn(move || {
            let mut stats = Stats::default();
            let mut last_flush = Instant::now();
            let mut i = k;
            while i < generator.total {
                if i >= start {
                    let _ = std::fs::write(&progress, format!("{} RUNNING\n", i));
                    *current.lock().unwrap() = (i, process_cpu_seconds(), Instant::now());
                    let before = stats.evaluations;
                    let result = crate::util::panic::catch(|| (generator.run)(&cfg, i, &mut stats));
                    *current.lock().unwrap() = (u64::MAX, 0.0, Instant::now());
                    if let Err(info) = result {
                        stats.harness_error(format!("harness panic in {}#{}: {}", generator.name, i, info.short()));
                    }
                    if stats.evaluations == before {
                        stats.evaluations += 1;
                    }
                    if last_flush.elapsed().as_secs() >= 5 {
                        write_atomic(&out, &stats.to_json().to_string());
                        last_flush = Instant::now();
                    }
                }
                i += n;
            }
            let _ = std::fs::write(&progress, "DONE\n");
            write_atomic(&out, &stats.to_json().to_string());
        })
        .expect("spawn shard worker");
    match handle.join() {
        | Ok(()) => 0,
        | Err(_) => 2,
    }
}

pub fn process_cpu_seconds() -> f64 {
    let mut usage: libc::rusage = unsafe { std::mem::zeroed() };
    unsafe { libc::getrusage(libc::RUSAGE_SELF, &mut usage) };
    let tv = |t: libc::timeval| t.tv_sec as f64 + t.tv_usec as f64 / 1e6;
    tv(usage.ru_utime) + tv(usage.ru_stime)
}

pub fn write_atomic(path: &Path, content: &str) {
    let tmp = path.with_extension("tmp");
    if let Ok(mut f) = std::fs::File::create(&tmp) {
        let _ = f.write_all(content.as_bytes());
        let _ = f.sync_data();
        let _ = std::fs::rename(&tmp, path);
    }
}

/// Parent side: run all generators of a property over `cfg.jobs` child processes and merge.
pub fn run_sharded(def: &PropertyDef, cfg: &Cfg) -> Stats {
    let mut merged = Stats::default();
    let exe = std::env::current_exe().expect("current exe");
    let dir = scratch_base().join(format!("zv-shards-{}-{}", cfg.prop, std::process::id()));
    let _ = std::fs::remove_dir_all(&dir);
    std::fs::create_dir_all(&dir).expect("create shard dir");
    // development aid: run one generator only; the run is then marked and can never count as the property's check
    let only = std::env::var("ZV_ONLY_GEN").ok();
    if let Some(only) = &only {
        merged.harness_error(format!("ZV_ONLY_GEN={only}: partial run, not a verdict on the property"));
    }
    for generator in (def.generators)(cfg) {
        if generator.total == 0 || only.as_deref().is_some_and(|o| o != generator.name) {
            continue;
        }
        let n = (cfg.jobs as u64).min(generator.total).max(1);
        // (shard k, start index, attempt)
        let mut pending: Vec<(u64, u64, u32)> = (0..n).map(|k| (k, 0, 0)).collect();
        let mut running: Vec<(std::process::Child, u64, u64, u32, PathBuf, PathBuf)> = Vec::new();
        let mut deaths = 0u32;
        loop {
            while let Some((k, start, attempt)) = pending.pop() {
                let out = dir.join(format!("{}-{}-{}.json", generator.name, k, attempt));
                let progress = dir.join(format!("{}-{}-{}.progress", generator.name, k, attempt));
                let child = std::process::Command::new(&exe)
                    .arg("shard")
                    .arg(&cfg.prop)
                    .arg(cfg.tier.name())
                    .arg(cfg.seed.to_string())
                    .arg(generator.name)
                    .arg(k.to_string())
                    .arg(n.to_string())
                    .arg(start.to_string())
                    .arg(&out)
                    .arg(&progress)
                    .stdin(std::process::Stdio::null())
                    .stdout(if std::env::var_os("ZV_SHARD_OUTPUT").is_some() { std::process::Stdio::inherit() } else { std::process::Stdio::null() })
                    .stderr(if std::env::var_os("ZV_SHARD_OUTPUT").is_some() { std::process::Stdio::inherit() } else { std::process::Stdio::null() })
                    .spawn()
                    .expect("spawn shard");
                running.push((child, k, start, attempt, out, progress));
            }
            if running.is_empty() {
                break;
            }
            std::thread::sleep(std::time::Duration::from_millis(50));
            let mut still = Vec::new();
            for (mut child, k, start, attempt, out, progress) in running.drain(..) {
                match child.try_wait() {
                    | Ok(None) => still.push((child, k, start, attempt, out, progress)),
                    | Ok(Some(status)) => {
                        // merge whatever the shard flushed
                        if let Ok(text) = std::fs::read_to_string(&out) {
                            if let Ok(v) = serde_json::from_str::<Value>(&text) {
                                merged.merge(Stats::from_json(&v));
                            }
                        }
                        let marker = std::fs::read_to_string(&progress).unwrap_or_default();
                        let done = marker.trim() == "DONE";
                        if status.success() && done {
                            continue;
                        }
                        // abnormal end: attribute to the case in the progress marker
                        deaths += 1;
                        let mut parts = marker.split_whitespace();
                        let idx = parts.next().and_then(|s| s.parse::<u64>().ok());
                        let how = parts.next().unwrap_or("?").to_string();
                        use std::os::unix::process::ExitStatusExt;
                        let death = match (status.code(), status.signal()) {
                            | (_, Some(sig)) => format!("signal {}", sig),
                            | (Some(3), _) => "cpu-timeout".to_string(),
                            | (Some(4), _) => "wall-timeout".to_string(),
                            | (Some(c), _) => format!("exit {}", c),
                            | _ => "unknown".to_string(),
                        };
                        match idx {
                            | Some(idx) => {
                                merged.count("shard_deaths");
                                if death == "wall-timeout" {
                                    merged.inconclusive("wall-clock watchdog fired");
                                } else {
                                    match (def.on_case_death)(cfg, generator.name, idx, &death) {
                                        | Death::Violation(v) => merged.violation(v),
                                        | Death::Inconclusive(why) => merged.inconclusive(&why),
                                        | Death::HarnessError => merged.harness_error(format!(
                                            "shard {}#{} died ({}, marker {}) on case {}",
                                            generator.name, k, death, how, idx
                                        )),
                                    }
                                }
                                // a death is attributed to its case and the shard goes on behind it; the cap only stops a
                                // generator whose every case dies (1 % of the cases, at least 200)
                                if (deaths as u64) < (generator.total / 100).max(200) {
                                    pending.push((k, idx + 1, attempt + 1));
                                } else {
                                    merged.harness_error("too many shard deaths; giving up on this shard".into());
                                }
                            }
                            | None => merged.harness_error(format!(
                                "shard {}#{} ended abnormally ({}) without a progress marker",
                                generator.name, k, death
                            )),
                        }
                    }
                    | Err(e) => merged.harness_error(format!("wait failed: {e}")),
                }
            }
            running = still;
        }
    }
    let _ = std::fs::remove_dir_all(&dir);
    merged
}

/* ------------------------------------------------------------------------------------------ */
/* Known findings                                                                              */
/* ------------------------------------------------------------------------------------------ */

#[derive(Clone, Debug)]
pub struct KnownFinding {
    pub property: String,
    pub status: String,
    pub signature: String,
    pub trigger: String,
    pub what: String,
}

pub fn load_known_findings() -> Vec<KnownFinding> {
    let path = verif_root().join("known_findings.json");
    let Ok(text) = std::fs::read_to_string(&path) else {
        return Vec::new();
    };
    let Ok(v) = serde_json::from_str::<Value>(&text) else {
        eprintln!("known_findings.json does not parse; ignoring it (every violation will be reported)");
        return Vec::new();
    };
    v["findings"]
        .as_array()
        .map(|a| {
            a.iter()
                .map(|e| KnownFinding {
                    property: e["property"].as_str().unwrap_or("").to_string(),
                    status: e["status"].as_str().unwrap_or("").to_string(),
                    signature: e["signature"].as_str().unwrap_or("").to_string(),
                    trigger: e["trigger"].as_str().unwrap_or("").to_string(),
                    what: e["what"].as_str().unwrap_or("").to_string(),
                })
                .collect()
        })
        .unwrap_or_default()
}

/// A violation is known only if an *open* entry for the same property matches both its failure
/// signature and an input-side trigger tag. Fixed entries suppress nothing.
pub fn match_known<'a>(known: &'a [KnownFinding], prop: &str, v: &Violation) -> Option<&'a KnownFinding> {
    known.iter().find(|k| {
        k.property == prop && k.status == "open" && k.signature == v.signature && v.tags.iter().any(|t| *t == k.trigger)
    })
}

/* ------------------------------------------------------------------------------------------ */
/* Finishing a run: evidence, replay files, exit code                                          */
/* ------------------------------------------------------------------------------------------ */

pub fn finish(def: &PropertyDef, cfg: &Cfg, stats: &Stats, started: Instant) -> i32 {
    let known = load_known_findings();
    let mut new_violations: Vec<(&Violation, PathBuf)> = Vec::new();
    let mut known_hits: BTreeMap<String, (u64, String)> = stats.known_hits.clone();
    // development sweeps (tools/) redirect their output so that they never touch the committed evidence
    let out_root = std::env::var_os("VERIF_OUT_ROOT").map(PathBuf::from).unwrap_or_else(verif_root);
    let replay_dir = out_root.join("replays").join(def.id);
    for v in &stats.violations {
        if let Some(k) = match_known(&known, def.id, v) {
            let e = known_hits.entry(format!("{} [{}]", k.signature, k.trigger)).or_insert((0, k.what.clone()));
            e.0 += 1;
        } else {
            let _ = std::fs::create_dir_all(&replay_dir);
            let name = format!("{}-{}-{}-{:x}.json", cfg.tier.name(), v.generator, v.index, hash64(v.signature.as_bytes()) & 0xffff);
            let path = replay_dir.join(name);
            let body = json!({
                "property": def.id,
                "tier": cfg.tier.name(),
                "seed": cfg.seed,
                "violation": v.to_json(),
            });
            let _ = std::fs::write(&path, serde_json::to_string_pretty(&body).unwrap_or_default());
            new_violations.push((v, path));
        }
    }
    let floor = cfg.tier.pick(def.floor.0, def.floor.1);
    let distinct = stats.distinct.len() as u64;
    let observed_nothing = distinct < floor;

    // evidence
    let mut coverage = serde_json::Map::new();
    coverage.insert("evaluations".into(), json!(stats.evaluations));
    coverage.insert("distinct_nontrivial".into(), json!(distinct));
    coverage.insert("rule".into(), json!(def.rule));
    let samples = if stats.samples.is_empty() {
        // no case reached a sampling site (e.g. every shard died early): say so instead of leaving the list empty
        vec![json!({"note": "no per-case sample was recorded in this run", "evaluations": stats.evaluations, "counters": stats.counters})]
    } else {
        stats.samples.clone()
    };
    coverage.insert("samples".into(), json!(samples));
    coverage.insert("counters".into(), json!(stats.counters));
    coverage.insert("coverage_sets".into(), json!(stats.sets));
    coverage.insert(
        "coverage_set_sizes".into(),
        json!(stats.sets.iter().map(|(k, v)| (k.clone(), v.len())).collect::<BTreeMap<_, _>>()),
    );
    coverage.insert("inconclusive".into(), json!(stats.inconclusive));
    coverage.insert("exhaustive_subspaces".into(), json!(stats.exhaustive));
    if !stats.exhaustive.is_empty() && stats.get("exhaustive_only") > 0 {
        coverage.insert("exhaustive".into(), json!(true));
    }
    coverage.insert(
        "known_findings_hit".into(),
        json!(known_hits.iter().map(|(k, (n, _))| (k.clone(), *n)).collect::<BTreeMap<_, _>>()),
    );
    coverage.insert("floor_distinct_nontrivial".into(), json!(floor));
    coverage.insert("harness_errors".into(), json!(stats.harness_errors));
    coverage.insert("notes".into(), json!(stats.notes));
    coverage.insert("jobs".into(), json!(cfg.jobs));
    let evidence = json!({
        "property_id": def.id,
        "tier": cfg.tier.name(),
        "seed": cfg.seed,
        "level": "exploration",
        "coverage": Value::Object(coverage),
        "assumptions": def.assumptions,
        "wall_s": started.elapsed().as_secs_f64(),
        "violations": new_violations.len(),
    });
    let evidence_dir = out_root.join("evidence");
    let _ = std::fs::create_dir_all(&evidence_dir);
    let evidence_path = evidence_dir.join(format!("{}.json", def.id));
    if let Err(e) = std::fs::write(&evidence_path, serde_json::to_string_pretty(&evidence).unwrap_or_default()) {
        eprintln!("cannot write evidence file {}: {e}", evidence_path.display());
    }

    // report
    println!(
        "{} {} seed={} evaluations={} distinct_nontrivial={} (floor {}) wall={:.1}s",
        def.id,
        cfg.tier.name(),
        cfg.seed,
        stats.evaluations,
        distinct,
        floor,
        started.elapsed().as_secs_f64()
    );
    for (k, v) in &stats.counters {
        println!("  counter {k} = {v}");
    }
    for (k, v) in &stats.sets {
        let items: Vec<&str> = v.iter().map(|s| s.as_str()).take(40).collect();
        println!("  covered {k} ({}) : {}", v.len(), items.join(" "));
    }
    for (k, v) in &stats.inconclusive {
        println!("  inconclusive {k} = {v}");
    }
    for e in &stats.harness_errors {
        println!("  harness-error: {e}");
    }
    for (k, (n, what)) in &known_hits {
        println!("KNOWN-FINDING: property={} {} ({} cases this run; {})", def.id, what, n, k);
    }
    // every listed open finding of this property gets its line, also when this run's sample did not meet it
    for k in known.iter().filter(|k| k.property == def.id && k.status == "open") {
        let key = format!("{} [{}]", k.signature, k.trigger);
        if !known_hits.contains_key(&key) {
            println!("KNOWN-FINDING: property={} {} (0 cases this run; {})", def.id, k.what, key);
        }
    }
    for (v, path) in &new_violations {
        println!("VIOLATION property={} replay={}", def.id, path.display());
        println!("  signature: {}  tags: {:?}  case: {}#{}", v.signature, v.tags, v.generator, v.index);
    }
    if !new_violations.is_empty() {
        return 1;
    }
    if !stats.harness_errors.is_empty() {
        println!("RESULT {}: harness errors (no verdict)", def.id);
        return 2;
    }
    if observed_nothing {
        println!("RESULT {}: inconclusive, observed too little ({} distinct non-trivial cases < floor {})", def.id, distinct, floor);
        return 2;
    }
    println!("RESULT {}: held on everything explored", def.id);
    0
}
