//! C02 — interpreter behaviour equals call-by-push-value reference semantics.

use crate::core::*;
use crate::e1::{self, eval::RefEnd, print::{Naming, Style}};
use crate::pipeline::{self, End, Sources};
use serde_json::json;

pub fn def() -> PropertyDef {
    PropertyDef {
        id: "C02",
        title: "Interpreter behaviour equals call-by-push-value reference semantics",
        generators,
        extra: no_extra,
        rule: "E1 type-directed generator: closed terminating programs of type OS over integers, strings, unit, products, named fields, \
               (recursive, parametric) data, codata, higher-order functions, forall over VType and CType, fix; every literal unique; each \
               program printed in several styles that differ only in erased structure; the interpreter's stdout bytes and exit code are \
               compared with an independent CBPV reference evaluator. Distinct = distinct program text hash; non-trivial = accepted, \
               non-empty output, and at least 5 distinct term formers used.",
        assumptions: &[
            "the harness reference evaluator is a faithful reading of call-by-push-value for the generated core",
            "the minimal hand-written Builtin signature stands for the standard one (a fixed share of cases uses lib/std/builtin.zy)",
        ],
        floor: (500, 10_000),
        on_case_death: death_is_harness_error,
    }
}

fn generators(cfg: &Cfg) -> Vec<Generator> {
    vec![Generator { name: "programs", total: cfg.tier.pick(3_000, 80_000), run: run_program, case_cpu_limit_s: 120 }]
}

pub fn styles_for(index: u64) -> Vec<Style> {
    let mut plain = Style::plain();
    let mut v = vec![plain.clone()];
    let mut annotated = Style::plain();
    annotated.annotate_all = true;
    annotated.extra_parens = true;
    v.push(annotated);
    let mut s3 = Style::plain();
    s3.transparent_types = true;
    s3.decl_shuffle = index + 1;
    s3.telescopes = true;
    s3.field_suffix = "_r";
    v.push(s3);
    let mut s4 = Style::plain();
    s4.nest_tuples = true;
    s4.naming = Naming::Shadow;
    v.push(s4);
    let mut s5 = Style::plain();
    s5.copattern_clauses = true;
    s5.naming = Naming::Pool;
    v.push(s5);
    if index % 16 == 0 {
        plain.standard_builtin = true;
        v.push(plain);
    }
    v
}

fn run_program(cfg: &Cfg, index: u64, stats: &mut Stats) {
    let program = e1::generate::generate(cfg.seed, "C02", index);
    let reference = e1::eval::run(&program, 400_000);
    match &reference.end {
        | RefEnd::Stuck(why) => {
            stats.harness_error(format!("reference evaluator stuck on generated program #{index}: {why}"));
            return;
        }
        | RefEnd::FuelOut => {
            stats.inconclusive("reference fuel exhausted");
            return;
        }
        | _ => {}
    }
    for f in &program.features {
        stats.cover("formers", f);
    }
    for style in styles_for(index) {
        let text = e1::print::program_text(&program, &style, cfg.seed ^ index);
        let sources = Sources::single(text);
        let result = pipeline::check_and_run(&sources, b"", &[], 2_000_000);
        stats.evaluations += 1;
        stats.count(&format!("verdict_{}", result.verdict.class()));
        if !result.verdict.is_accept() {
            // acceptance of generated programs is C03's subject; here a rejection only means "not observed"
            stats.inconclusive("generated program not accepted");
            let first = result.verdict.brief().lines().next().unwrap_or("").chars().take(50).collect::<String>();
            stats.cover("rejections", &format!("{} @{}/{}", first, index, style.describe()));
            if stats.get("reject_samples") < 3 {
                stats.count("reject_samples");
                stats.sample(json!({"rejected_program": sources.root_text(), "style": style.describe(), "verdict": result.verdict.brief()}));
            }
            continue;
        }
        let Some(run) = &result.run else {
            stats.inconclusive("accepted but not executable");
            continue;
        };
        for t in &run.transitions {
            stats.cover("transitions", t);
        }
        let expected_end = match &reference.end {
            | RefEnd::Exit(c) => End::Exit(*c),
            | RefEnd::Ret(s) => End::Ret(s.clone()),
            | _ => unreachable!(),
        };
        let same = run.stdout == reference.stdout && run.end == expected_end;
        if program.features.len() >= 5 && !reference.stdout.is_empty() {
            stats.nontrivial(sources.root_text().as_bytes());
        }
        if index < 2 && style.describe() == "Distinct" {
            stats.sample(json!({"program": sources.root_text(), "expected_stdout": String::from_utf8_lossy(&reference.stdout), "expected_end": format!("{:?}", reference.end)}));
        }
        if !same {
            let signature = match &run.end {
                | End::Panic(_, p) => format!("interpreter-panic {}", p.site()),
                | End::FuelOut => "interpreter-fuel-out".to_string(),
                | _ => "behaviour-differs-from-reference".to_string(),
            };
            stats.violation(Violation {
                signature,
                tags: program.features.iter().map(|f| f.to_string()).collect(),
                generator: "programs".into(),
                index,
                detail: json!({
                    "style": style.describe(),
                    "sources": sources.to_json(),
                    "expected_stdout": String::from_utf8_lossy(&reference.stdout),
                    "observed_stdout": String::from_utf8_lossy(&run.stdout),
                    "expected_end": format!("{:?}", reference.end),
                    "observed_end": format!("{:?}", run.end),
                }),
            });
        }
    }
}
