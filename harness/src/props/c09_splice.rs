//! C09 (c) — an import means what writing the provider's closed term at that place would mean.
//!
//! `inline_all` is a purely textual inliner built on the harness's own scanner: every `@(import("p"))` site is replaced
//! by `(\n<provider text>\n)`, and by `((\n<impl>\n) : (\n<sig>\n))` when the provider has an adjacent `.zyi`.
//! The multi-file program and the inlined single file must get the same verdict and behave the same.

use crate::core::*;
use crate::e1;
use crate::e2::scan::{Kind, scan};
use crate::pipeline::{self, End, Sources, Verdict};
use crate::prelude::MiniPrelude;
use crate::util::rng::Rng;
use serde_json::json;
use std::collections::BTreeMap;
use std::path::{Component, Path, PathBuf};

pub fn generators(cfg: &Cfg) -> Vec<Generator> {
    vec![
        Generator { name: "splice-lib", total: lib_roots().len() as u64, run: run_lib, case_cpu_limit_s: 600 },
        Generator { name: "splice-e1", total: cfg.tier.pick(500, 12_000), run: run_e1, case_cpu_limit_s: 120 },
        Generator { name: "splice-generative", total: cfg.tier.pick(60, 1_000), run: run_generative, case_cpu_limit_s: 120 },
    ]
}

/* ----------------------------------------- inliner ----------------------------------------- */

pub fn normalize(path: &Path) -> PathBuf {
    let mut out = PathBuf::new();
    for c in path.components() {
        match c {
            | Component::CurDir => {}
            | Component::ParentDir => {
                out.pop();
            }
            | other => out.push(other.as_os_str()),
        }
    }
    out
}

#[derive(Clone, Debug)]
pub struct ImportSiteText {
    pub start: usize,
    pub end: usize,
    pub path: String,
}

/// `@(import("…"))` sites of a text, found on the harness scanner's code tokens.
pub fn import_sites(text: &str) -> Vec<ImportSiteText> {
    let tokens: Vec<_> = scan(text).into_iter().filter(|t| t.is_code()).collect();
    let mut out = Vec::new();
    let mut i = 0;
    while i < tokens.len() {
        // accept both `@` `(` and a fused `@(` token
        let (open_len, ok) = if tokens[i].text(text) == "@(" {
            (1, true)
        } else if tokens[i].text(text) == "@" && i + 1 < tokens.len() && tokens[i + 1].text(text) == "(" {
            (2, true)
        } else {
            (0, false)
        };
        if ok && i + open_len + 4 < tokens.len() + 0 {
            let j = i + open_len;
            if tokens[j].text(text) == "import"
                && tokens[j + 1].text(text) == "("
                && tokens[j + 2].kind == Kind::Str
                && tokens.get(j + 3).map(|t| t.text(text)) == Some(")")
                && tokens.get(j + 4).map(|t| t.text(text)) == Some(")")
            {
                let lit = tokens[j + 2].text(text);
                let path = lit[1..lit.len() - 1].to_string();
                out.push(ImportSiteText { start: tokens[i].start, end: tokens[j + 4].end, path });
                i = j + 5;
                continue;
            }
        }
        i += 1;
    }
    out
}

pub struct Inliner<'a> {
    /// file contents by normalised absolute path
    pub read: &'a dyn Fn(&Path) -> Option<String>,
    pub budget: usize,
    pub produced: usize,
    pub sites: usize,
    pub companions: usize,
}

impl<'a> Inliner<'a> {
    /// the provider text of `file` with all its imports inlined, wrapped with its companion if one exists;
    /// `levels` bounds the depth (deeper imports are kept, rewritten to absolute paths)
    pub fn provider(&mut self, file: &Path, levels: usize, stack: &mut Vec<PathBuf>) -> Result<String, String> {
        let body = self.body(file, levels, stack)?;
        let companion = (file.extension().and_then(|e| e.to_str()) == Some("zy")).then(|| file.with_extension("zyi")).filter(|c| (self.read)(c).is_some());
        match companion {
            | Some(sig) => {
                self.companions += 1;
                let sig_text = self.body(&sig, levels, stack)?;
                Ok(format!("((\n{}\n) : (\n{}\n))", body, sig_text))
            }
            | None => Ok(format!("(\n{}\n)", body)),
        }
    }

    pub fn body(&mut self, file: &Path, levels: usize, stack: &mut Vec<PathBuf>) -> Result<String, String> {
        if stack.iter().any(|p| p == file) {
            return Err(format!("import cycle through {}", file.display()));
        }
        let mut text = (self.read)(file).ok_or_else(|| format!("missing file {}", file.display()))?;
        let parent = file.parent().unwrap_or(Path::new("/")).to_path_buf();
        stack.push(file.to_path_buf());
        let sites = import_sites(&text);
        for site in sites.iter().rev() {
            let written = Path::new(&site.path);
            let target = normalize(&if written.is_absolute() { written.to_path_buf() } else { parent.join(written) });
            let replacement = if levels == 0 {
                format!("@(import(\"{}\"))", target.display())
            } else {
                self.sites += 1;
                self.provider(&target, levels - 1, stack)?
            };
            self.produced += replacement.len();
            if self.produced > self.budget {
                stack.pop();
                return Err("inlined text exceeds the size budget".into());
            }
            text.replace_range(site.start..site.end, &replacement);
        }
        stack.pop();
        Ok(text)
    }
}

/// Inline a root file (the root's own companion is applied as well).
pub fn inline_root(read: &dyn Fn(&Path) -> Option<String>, root: &Path, levels: usize, budget: usize) -> Result<(String, usize, usize), String> {
    let mut inliner = Inliner { read, budget, produced: 0, sites: 0, companions: 0 };
    let text = inliner.provider(root, levels, &mut Vec::new())?;
    Ok((text, inliner.sites, inliner.companions))
}

/* ----------------------------------------- comparing ----------------------------------------- */

#[derive(Debug, PartialEq)]
struct Behaviour {
    verdict: &'static str,
    run: Option<(String, String)>,
}

fn behaviour_of(analyzed: &pipeline::Analyzed, stdin: &[u8], fuel: u64) -> Behaviour {
    let verdict = match &analyzed.verdict {
        | Verdict::Checked => "accepted",
        | Verdict::Rejected { .. } | Verdict::Error { .. } => "rejected",
        | Verdict::Panic(_) => "panic",
    };
    let run = if analyzed.verdict.is_accept() {
        match analyzed.executable() {
            | Ok(exe) => {
                let r = pipeline::run_executable(exe, stdin, &[], fuel);
                let end = match &r.end {
                    | End::Panic(class, _) => format!("Panic({:?})", class),
                    // the message names arena identities
                    | End::LinkError(e) => format!("LinkError({})", e.chars().filter(|c| !c.is_ascii_digit()).collect::<String>()),
                    | other => format!("{:?}", other),
                };
                Some((end, String::from_utf8_lossy(&r.stdout).to_string()))
            }
            | Err(_) => None,
        }
    } else {
        None
    };
    Behaviour { verdict, run }
}

/* ------------------------------------------- lib ------------------------------------------- */

pub fn lib_roots() -> Vec<PathBuf> {
    fn walk(dir: &Path, out: &mut Vec<PathBuf>) {
        let Ok(rd) = std::fs::read_dir(dir) else { return };
        let mut entries: Vec<_> = rd.flatten().map(|e| e.path()).collect();
        entries.sort();
        for p in entries {
            if p.is_dir() {
                walk(&p, out);
            } else if matches!(p.extension().and_then(|e| e.to_str()), Some("zy") | Some("zyi") | Some("zydeco")) {
                if std::fs::read_to_string(&p).map(|t| !import_sites(&t).is_empty()).unwrap_or(false) {
                    out.push(p);
                }
            }
        }
    }
    let mut out = Vec::new();
    walk(Path::new("/repo/lib"), &mut out);
    walk(Path::new("/repo/docs"), &mut out);
    out
}

fn run_lib(_cfg: &Cfg, index: u64, stats: &mut Stats) {
    let roots = lib_roots();
    let root = &roots[index as usize];
    let read = |p: &Path| std::fs::read_to_string(p).ok();
    let stdin = b"3\n4\nhello\n";
    let multi = pipeline::analyze_disk(root);
    let mut expected = behaviour_of(&multi, stdin, 200_000);
    // programs drawing random numbers are compared by verdict only
    let nondeterministic = std::fs::read_to_string(root).map(|t| t.contains("random")).unwrap_or(false);
    if nondeterministic {
        stats.count("lib_roots_nondeterministic");
        expected.run = None;
    }
    stats.evaluations += 1;
    stats.count(match expected.verdict {
        | "accepted" => "lib_roots_accepted",
        | _ => "lib_roots_rejected",
    });
    if expected.run.is_some() {
        stats.count("lib_roots_run");
    }
    for (label, levels) in [("full", usize::MAX), ("one-level", 1)] {
        let inlined = match inline_root(&read, root, levels, 600_000) {
            | Ok((text, sites, companions)) => {
                stats.add("import_sites_inlined", sites as u64);
                stats.add("companions_applied", companions as u64);
                text
            }
            | Err(why) => {
                stats.count(if why.contains("budget") { "lib_inline_skipped_size" } else { "lib_inline_skipped_other" });
                continue;
            }
        };
        // the inlined text lives next to the root so that the one-level variant's absolute paths and the root's kind are kept
        let name = format!("inlined.{}", root.extension().and_then(|e| e.to_str()).unwrap_or("zy"));
        let sources = Sources { files: vec![(name, inlined.clone())] };
        let single = pipeline::analyze_overlay(&sources);
        let mut got = behaviour_of(&single, stdin, 200_000);
        if nondeterministic {
            got.run = None;
        }
        stats.evaluations += 1;
        stats.nontrivial(format!("lib/{}/{}", root.display(), label).as_bytes());
        if got != expected {
            stats.violation(Violation {
                signature: format!("splice-differs-from-inlining {}", if got.verdict != expected.verdict { "verdict" } else { "behaviour" }),
                tags: vec![format!("root:{}", root.display())],
                generator: "splice-lib".into(),
                index,
                detail: json!({
                    "root": root.display().to_string(), "variant": label,
                    "multi_file": format!("{:?}", expected), "inlined": format!("{:?}", got),
                    "multi_verdict": multi.verdict.brief().chars().take(1500).collect::<String>(),
                    "inlined_verdict": single.verdict.brief().chars().take(1500).collect::<String>(),
                    "inlined_text_bytes": inlined.len(),
                }),
            });
        }
    }
    if index == 0 {
        stats.sample(json!({"lib_root": root.display().to_string(), "multi_file": format!("{:?}", expected)}));
    }
}

/* ------------------------------------------- E1 ------------------------------------------- */

const CLOSED_TYPE_NAMES: &[&str] =
    &["VType", "CType", "Thk", "Ret", "Unit", "Int8", "Int16", "Int32", "Int64", "UInt8", "UInt16", "UInt32", "UInt64", "Float32", "Float64", "Char", "String", "Bytes"];

/// The intrinsic let-chain of the minimal prelude (everything before `param (`): a closed header any provider can repeat.
fn intrinsic_header(prelude: &str) -> &str {
    &prelude[..prelude.find("param (").expect("prelude has a param")]
}

/// Split a printed E1 program (minimal prelude) into several files. Returns the file set (root first) and the strategies used.
fn split_program(text: &str, rng: &mut Rng) -> (Sources, Vec<&'static str>) {
    let prelude_len = MiniPrelude::core().text().len();
    let header = intrinsic_header(text).to_string();
    let mut files: Vec<(String, String)> = Vec::new();
    let mut used: Vec<&'static str> = Vec::new();
    // replacements on the original text: (start, end, new text); non-overlapping
    let mut edits: Vec<(usize, usize, String)> = Vec::new();
    let mask = 1 + rng.below(31);

    // S1: literals of the body become providers
    if mask & 1 != 0 {
        let mut n = 0;
        for t in scan(text) {
            if t.start < prelude_len || !matches!(t.kind, Kind::Int | Kind::Str) || !rng.chance(1, 3) {
                continue;
            }
            let lit = t.text(text).to_string();
            let name = format!("lit/l{}.zy", n);
            n += 1;
            let provider = match rng.below(3) {
                | 0 => lit.clone(),
                | 1 => format!("-- a literal provider\n{} -- trailing comment", lit),
                | _ => format!("/- block -/ {}\n", lit),
            };
            files.push((name.clone(), provider));
            edits.push((t.start, t.end, format!("(@(import(\"{}\")))", name)));
        }
        if n > 0 {
            used.push("literal-providers");
        }
    }
    // S2: intrinsic lets of the header import one file each (bound once, shared by every use)
    if mask & 2 != 0 {
        let mut pos = 0;
        let mut any = false;
        while let Some(off) = text[pos..prelude_len].find("@(intrinsic(") {
            let start = pos + off;
            let close = start + text[start..].find("))").unwrap() + 2;
            let which = &text[start + "@(intrinsic(".len()..close - 2];
            if text[..start].rfind("param (").is_none() && rng.chance(2, 3) {
                let name = format!("intrinsic/{}.zy", which);
                if !files.iter().any(|(f, _)| *f == name) {
                    files.push((name.clone(), format!("@(intrinsic({}))", which)));
                }
                edits.push((start, close, format!("@(import(\"{}\"))", name)));
                any = true;
            }
            pos = close;
        }
        if any {
            used.push("intrinsic-files");
        }
    }
    // S3: the Builtin signature type of the param becomes a provider that repeats the closed header
    if mask & 4 != 0 {
        if let (Some(colon), Some(close)) = (text.find(") :\n"), text.find("\n) in\n")) {
            let (start, end) = (colon + 4, close);
            if start < end && end <= prelude_len {
                files.push(("sig/builtin.zy".into(), format!("{}{}", header, &text[start..end])));
                edits.push((start, end, "  @(import(\"sig/builtin.zy\"))".into()));
                used.push("signature-type-provider");
            }
        }
    }
    // S5: closed right-hand sides of type declarations become providers
    if mask & 8 != 0 {
        let mut pos = prelude_len;
        let mut n = 0;
        while let Some(off) = text[pos..].find(" = data ").or_else(|| text[pos..].find(" = codata ")) {
            let eq = pos + off;
            let rhs_start = eq + 3;
            let Some(rel_end) = text[rhs_start..].find(" end that\n") else { break };
            let rhs_end = rhs_start + rel_end + 4;
            let rhs = &text[rhs_start..rhs_end];
            let closed = scan(rhs).iter().all(|t| match t.kind {
                | Kind::Upper => CLOSED_TYPE_NAMES.contains(&t.text(rhs)),
                | Kind::Lower => false,
                | _ => true,
            });
            // the line must not bind type parameters (then the body mentions them) — covered by the Upper test
            if closed && rng.chance(2, 3) {
                let name = format!("ty/t{}.zy", n);
                n += 1;
                files.push((name.clone(), format!("{}{}", header, rhs)));
                edits.push((rhs_start, rhs_end, format!("@(import(\"{}\"))", name)));
            }
            pos = rhs_end;
        }
        if n > 0 {
            used.push("type-definition-providers");
        }
    }
    edits.sort_by_key(|e| e.0);
    let mut main = String::new();
    let mut at = 0;
    for (s, e, new) in &edits {
        if *s < at {
            continue; // overlapping edit (S3 region contains no other edits by construction; be safe)
        }
        main.push_str(&text[at..*s]);
        main.push_str(new);
        at = *e;
    }
    main.push_str(&text[at..]);
    // S4: the program itself is reached through a chain of importing files in other directories
    if mask & 16 != 0 || files.is_empty() {
        used.push("import-chain");
        let depth = 1 + rng.below(3);
        let mut all: Vec<(String, String)> = Vec::new();
        // providers live next to main under m/
        let mut chain: Vec<String> = (0..depth).map(|k| if k == 0 { "root.zy".to_string() } else { format!("c{}/hop{}.zy", k, k) }).collect();
        chain.push("m/main.zy".into());
        for k in 0..depth {
            let from_dir = Path::new(&chain[k]).parent().map(|p| p.to_path_buf()).unwrap_or_default();
            let ups: String = from_dir.components().map(|_| "../").collect();
            let spelled = if rng.chance(1, 4) { format!("./{}{}", ups, chain[k + 1]) } else { format!("{}{}", ups, chain[k + 1]) };
            let text = match rng.below(3) {
                | 0 => format!("@(import(\"{}\"))", spelled),
                | 1 => format!("-- hop {k}\n(@(import(\"{}\")))\n", spelled),
                | _ => format!("begin\n  @(import(\"{}\"))\nend\n", spelled),
            };
            all.push((chain[k].clone(), text));
        }
        all.push(("m/main.zy".into(), main));
        for (name, text) in files {
            all.push((format!("m/{}", name), text));
        }
        (Sources { files: all }, used)
    } else {
        let mut all = vec![("root.zy".to_string(), main)];
        all.extend(files);
        (Sources { files: all }, used)
    }
}

fn run_e1(cfg: &Cfg, index: u64, stats: &mut Stats) {
    let mut rng = Rng::for_case(cfg.seed, "C09/e1", index);
    let program = e1::generate::generate(cfg.seed, "C09", index);
    let mut style = e1::print::Style::plain();
    style.transparent_types = rng.chance(1, 2);
    style.annotate_all = rng.chance(1, 3);
    // one case in four carries an injected type error: both forms must reject it
    let mutation = if rng.chance(1, 4) { Some(rng.below(40)) } else { None };
    let (text, _sites, applied) = e1::print::program_text_mut(&program, &style, cfg.seed ^ index, mutation);
    let reference = e1::eval::run(&program, 200_000);
    let (multi, used) = split_program(&text, &mut rng);
    for u in &used {
        stats.cover("split_strategies", u);
    }
    let dir = PathBuf::from("/zv-inline");
    let map: BTreeMap<PathBuf, String> = multi.files.iter().map(|(n, t)| (normalize(&dir.join(n)), t.clone())).collect();
    let read = |p: &Path| map.get(p).cloned();
    let inlined = match inline_root(&read, &dir.join(multi.root_name()), usize::MAX, 4_000_000) {
        | Ok((t, sites, _)) => {
            stats.add("import_sites_inlined", sites as u64);
            t
        }
        | Err(why) => {
            stats.harness_error(format!("inliner failed on generated files: {why}"));
            return;
        }
    };
    let a_orig = pipeline::analyze_overlay(&Sources::single(text.clone()));
    let a_multi = pipeline::analyze_overlay(&multi);
    let a_inl = pipeline::analyze_overlay(&Sources::single(inlined.clone()));
    let (b_orig, b_multi, b_inl) = (behaviour_of(&a_orig, b"", 400_000), behaviour_of(&a_multi, b"", 400_000), behaviour_of(&a_inl, b"", 400_000));
    stats.evaluations += 3;
    stats.nontrivial(&multi.hash().to_le_bytes());
    stats.add("files_per_program", multi.files.len() as u64);
    stats.count(if applied.is_some() { "programs_with_injected_error" } else { "programs_well_typed" });
    let mut problems: Vec<(&str, String)> = Vec::new();
    if b_multi != b_inl {
        problems.push(("splice-differs-from-inlining", format!("multi-file {:?} vs inlined {:?}", b_multi, b_inl)));
    }
    if b_multi != b_orig {
        problems.push(("split-program-differs-from-original", format!("multi-file {:?} vs original {:?}", b_multi, b_orig)));
    }
    if applied.is_none() {
        // reference evaluator: expected behaviour of the well-typed original
        if let Some((end, out)) = &b_multi.run {
            let want = match &reference.end {
                | e1::eval::RefEnd::Exit(c) => Some((format!("{:?}", End::Exit(*c)), String::from_utf8_lossy(&reference.stdout).to_string())),
                | e1::eval::RefEnd::Ret(s) => Some((format!("{:?}", End::Ret(s.clone())), String::from_utf8_lossy(&reference.stdout).to_string())),
                | _ => None,
            };
            if let Some((want_end, want_out)) = want {
                if *end != want_end || *out != want_out {
                    problems.push(("split-program-differs-from-reference", format!("multi-file ({end}, {out:?}) vs reference ({want_end}, {want_out:?})")));
                }
            }
        } else if b_multi.verdict != "accepted" {
            problems.push(("well-typed-split-program-rejected", a_multi.verdict.brief().chars().take(600).collect()));
        }
    } else if b_orig.verdict == "rejected" {
        stats.count("ill_typed_rejected_in_all_three_forms");
    }
    if index == 0 {
        stats.sample(json!({"strategies": used, "files": multi.files.iter().map(|(n, t)| format!("{n} ({} bytes)", t.len())).collect::<Vec<_>>(), "behaviour": format!("{:?}", b_multi)}));
    }
    for (sig, what) in problems {
        stats.violation(Violation {
            signature: sig.to_string(),
            tags: used.iter().map(|u| format!("split:{u}")).collect(),
            generator: "splice-e1".into(),
            index,
            detail: json!({
                "problem": what, "strategies": used, "injected_error": applied, "sources": multi.to_json(), "original": text, "inlined": inlined,
                "multi_verdict": a_multi.verdict.brief().chars().take(800).collect::<String>(),
                "inlined_verdict": a_inl.verdict.brief().chars().take(800).collect::<String>(),
                "original_verdict": a_orig.verdict.brief().chars().take(800).collect::<String>(),
            }),
        });
    }
}

/* ---------------------------------------- generativity ---------------------------------------- */

const HEADER: &str = "let VType = @(intrinsic(vtype)) in\n  let Thk = @(intrinsic(thk)) in\n  let Ret = @(intrinsic(ret)) in\n  let Int64 = @(intrinsic(i64)) in\n";

/// Providers: a sealed (generative) type, a transparent data type, an abstract package behind a companion signature.
fn run_generative(cfg: &Cfg, index: u64, stats: &mut Stats) {
    let mut rng = Rng::for_case(cfg.seed, "C09/generative", index);
    let flavour = index % 3;
    let ctor = *rng.pick(&["+Mk", "+Box", "+C"]);
    let payload = rng.range(-50, 50);
    let copies = 2 + rng.below(2); // names A0..A{copies-1}
    let dir = if rng.chance(1, 2) { "" } else { "lib/" };
    let mut files: Vec<(String, String)> = Vec::new();
    let sealed_type = format!("begin\n  {HEADER}  begin\n    def T : VType = data | {ctor} : Int64 end that\n    T\n  end\nend\n");
    let transparent_type = format!("begin\n  {HEADER}  data | {ctor} : Int64 end\nend\n");
    let package = format!(
        "begin\n  {HEADER}  begin\n    def T : VType = data | {ctor} : Int64 end that\n    def mk : Thk (Int64 -> Ret T) = {{ fn (n : Int64) => ret {ctor}(n) }} that\n    \
         def get : Thk (T -> Ret Int64) = {{ fn (t : T) => match t | {ctor}(n) => ret n end }} that\n    (= T, = mk, = get)\n  end\nend\n"
    );
    let package_sig = format!("begin\n  {HEADER}  exists (T = AbstractT : VType) . (mk :: Thk (Int64 -> Ret AbstractT)) * (get :: Thk (AbstractT -> Ret Int64))\nend\n");
    let provider = format!("{dir}p.zy");
    // import(k): either each name its own import, or names share one import bound once
    let shared = rng.chance(1, 2);
    let (i, j) = (rng.below(copies), rng.below(copies));
    let import = format!("@(import(\"{provider}\"))");
    let mut root = String::from("let Int64 = @(intrinsic(i64)) in\nlet Ret = @(intrinsic(ret)) in\n");
    // expectation: accepted iff the two names denote the same copy
    let expect_accept;
    match flavour {
        | 0 | 1 => {
            files.push((provider.clone(), if flavour == 0 { sealed_type } else { transparent_type }));
            if shared {
                root.push_str(&format!("let P = {import} in\n"));
            }
            for k in 0..copies {
                root.push_str(&format!("let A{k} = {} in\n", if shared { "P".to_string() } else { import.clone() }));
            }
            root.push_str(&format!("let x : A{i} = {ctor}({payload}) in\n(match (x : A{j}) | {ctor}(n) => ret n end : Ret Int64)\n"));
            expect_accept = flavour == 1 || shared || i == j;
        }
        | _ => {
            files.push((provider.clone(), package));
            files.push((format!("{dir}p.zyi"), package_sig));
            if shared {
                // one import bound to a name, opened once: every alias shares the abstract type
                root.push_str(&format!("let (T = P, mk = mkp, get = getp) = {import} in\n"));
                for k in 0..copies {
                    root.push_str(&format!("let A{k} = P in let mk{k} = mkp in let get{k} = getp in\n"));
                }
            } else {
                for k in 0..copies {
                    root.push_str(&format!("let (T = A{k}, mk = mk{k}, get = get{k}) = {import} in\n"));
                }
            }
            root.push_str(&format!("(do a <- ! mk{i} {payload}; ! get{j} a : Ret Int64)\n"));
            expect_accept = shared || i == j;
        }
    }
    let mut all = vec![("root.zy".to_string(), root.clone())];
    all.extend(files);
    let multi = Sources { files: all };
    let dirp = PathBuf::from("/zv-inline");
    let map: BTreeMap<PathBuf, String> = multi.files.iter().map(|(n, t)| (normalize(&dirp.join(n)), t.clone())).collect();
    let read = |p: &Path| map.get(p).cloned();
    let Ok((inlined, _, companions)) = inline_root(&read, &dirp.join("root.zy"), usize::MAX, 1_000_000) else {
        stats.harness_error("inliner failed on generativity probe".into());
        return;
    };
    stats.add("companions_applied", companions as u64);
    let a_multi = pipeline::analyze_overlay(&multi);
    let a_inl = pipeline::analyze_overlay(&Sources::single(inlined.clone()));
    stats.evaluations += 2;
    stats.nontrivial(&multi.hash().to_le_bytes());
    let flavour_name = ["sealed-type", "transparent-type", "abstract-package"][flavour as usize];
    stats.cover("generativity_probes", &format!("{}/{}/{}", flavour_name, if shared { "shared" } else { "per-occurrence" }, if i == j { "same" } else { "mixed" }));
    let run_value = |a: &pipeline::Analyzed| -> Option<String> {
        let r = a.run_plain(100_000)?;
        Some(format!("{:?}", r.end))
    };
    let mut problems: Vec<(&str, String)> = Vec::new();
    let (m_ok, i_ok) = (a_multi.verdict.is_accept(), a_inl.verdict.is_accept());
    if matches!(a_multi.verdict, Verdict::Panic(_)) || matches!(a_inl.verdict, Verdict::Panic(_)) {
        problems.push(("front-end-panic", format!("{} / {}", a_multi.verdict.brief(), a_inl.verdict.brief())));
    }
    if m_ok != i_ok {
        problems.push(("splice-differs-from-inlining verdict", format!("multi-file accepted={m_ok}, inlined accepted={i_ok}")));
    }
    if m_ok != expect_accept {
        problems.push((
            if expect_accept { "shared-import-copies-distinct" } else { "independent-import-copies-identified" },
            format!("multi-file accepted={m_ok}, expected accepted={expect_accept}"),
        ));
    }
    if m_ok && i_ok {
        let (rm, ri) = (run_value(&a_multi), run_value(&a_inl));
        if rm != ri || rm.as_deref().map(|s| s.contains(&format!("{}", payload))) == Some(false) {
            problems.push(("splice-differs-from-inlining behaviour", format!("multi-file {:?}, inlined {:?}, expected the payload {}", rm, ri, payload)));
        }
    }
    if index == 0 {
        stats.sample(json!({"probe": flavour_name, "root": root, "expected_accept": expect_accept}));
    }
    for (sig, what) in problems {
        stats.violation(Violation {
            signature: sig.to_string(),
            tags: vec![format!("flavour:{flavour_name}")],
            generator: "splice-generative".into(),
            index,
            detail: json!({"problem": what, "sources": multi.to_json(), "inlined": inlined, "multi_verdict": a_multi.verdict.brief().chars().take(800).collect::<String>(), "inlined_verdict": a_inl.verdict.brief().chars().take(800).collect::<String>()}),
        });
    }
}
