//! C07 — lexical scoping and import hygiene: bound names can be renamed freely.

use crate::core::*;
use crate::e1::{self, eval::RefEnd, print::{Naming, Style}};
use crate::pipeline::{self, End, Sources, Verdict};
use crate::prelude::MiniPrelude;
use crate::util::rng::Rng;
use serde_json::json;

pub fn def() -> PropertyDef {
    PropertyDef {
        id: "C07",
        title: "Lexical scoping and import hygiene: bound names can be renamed freely",
        generators,
        extra: no_extra,
        rule: "rename: each E1 program (resolved binders) printed under naming strategies S0 all-distinct, S1 maximal legal shadowing, S2 \
               rotating six-letter pool, S3 identifier-alphabet stress, S5 binders named like a type alias used only in their own annotation, each (S0-S3) with and without `let` chains printed as begin/that blocks \
               (S4: block-contributed names chosen to shadow outer names when legal); legality is computed on the resolved AST. Oracle: \
               identical acceptance and behaviour across strategies and equal to the reference evaluator. hygiene: enumerated grid of \
               importer binder forms (let in/that, def, param, do, fn, fix, match arm, copattern argument, tuple/named/alias pattern, type \
               binders forall/exists/type-fn) x nesting depth 1..3 x {value name, type name} around an import whose provider has that name \
               free => a resolve error naming the provider's occurrence; top-level `that` in a provider => error, never adoption. distinct = \
               program text hash / probe name; non-trivial = the shadowing strategy actually reused a name, or a probe.",
        assumptions: &["legality of a replacement name: no variable occurring free in the renamed scope denotes a different binder with that name; names contributed to one block are pairwise distinct"],
        floor: (300, 8_000),
        on_case_death: death_is_harness_error,
    }
}

fn generators(cfg: &Cfg) -> Vec<Generator> {
    vec![
        Generator { name: "rename", total: cfg.tier.pick(700, 30_000), run: run_rename, case_cpu_limit_s: 120 },
        Generator { name: "hygiene", total: probes().len() as u64, run: run_probe, case_cpu_limit_s: 60 },
        Generator { name: "placement", total: placement_probes().len() as u64, run: run_placement, case_cpu_limit_s: 60 },
        Generator { name: "repeated", total: cfg.tier.pick(120, 4000), run: run_repeated, case_cpu_limit_s: 60 },
    ]
}

pub fn strategies() -> Vec<Style> {
    let mut v = Vec::new();
    for naming in [Naming::Distinct, Naming::Shadow, Naming::Pool, Naming::Weird] {
        for blocks in [false, true] {
            let mut s = Style::plain();
            s.naming = naming;
            s.block_lets = blocks;
            v.push(s);
        }
    }
    // S5: annotated variable binders named like a type alias used only in their own annotation
    for naming in [Naming::Distinct, Naming::Pool] {
        let mut s = Style::plain();
        s.naming = naming;
        s.pun_binders = true;
        v.push(s);
    }
    v
}

fn run_rename(cfg: &Cfg, index: u64, stats: &mut Stats) {
    let program = e1::generate::generate(cfg.seed, "C07", index);
    let reference = e1::eval::run(&program, 400_000);
    let expected_end = match &reference.end {
        | RefEnd::Exit(c) => End::Exit(*c),
        | RefEnd::Stuck(why) => {
            stats.harness_error(format!("reference stuck on #{index}: {why}"));
            return;
        }
        | _ => {
            stats.inconclusive("reference did not reach an exit");
            return;
        }
    };
    let mut texts: Vec<(String, String)> = Vec::new();
    for style in strategies() {
        let text = e1::print::program_text(&program, &style, cfg.seed ^ index.wrapping_mul(31));
        texts.push((style.describe(), text));
    }
    // did shadowing actually reuse a name? (distinct names in S0 vs fewer in S1)
    let count_names = |t: &str| crate::e2::scan::scan(t).iter().filter(|k| k.kind == crate::e2::scan::Kind::Lower).map(|k| k.text(t).to_string()).collect::<std::collections::BTreeSet<_>>().len();
    let reused = count_names(&texts[2].1) < count_names(&texts[0].1);
    for (describe, text) in &texts {
        let sources = Sources::single(text.clone());
        let result = pipeline::check_and_run(&sources, b"", &[], 2_000_000);
        stats.evaluations += 1;
        stats.cover("strategies", describe);
        let ok = match (&result.verdict, &result.run) {
            | (Verdict::Checked, Some(run)) => run.stdout == reference.stdout && run.end == expected_end,
            | _ => false,
        };
        if ok && reused {
            stats.nontrivial(text.as_bytes());
        }
        if !ok {
            let signature = match &result.verdict {
                | Verdict::Checked => "behaviour-changed-by-renaming".to_string(),
                | Verdict::Panic(p) => format!("front-end-panic {}", p.site()),
                | v => format!("renaming-changed-acceptance {}", v.brief().lines().next().unwrap_or("").chars().take(50).collect::<String>()),
            };
            stats.violation(Violation {
                signature,
                tags: vec![describe.clone()],
                generator: "rename".into(),
                index,
                detail: json!({
                    "strategy": describe, "verdict": result.verdict.brief(), "sources": sources.to_json(),
                    "expected_stdout": String::from_utf8_lossy(&reference.stdout), "expected_end": format!("{:?}", reference.end),
                    "observed_stdout": result.run.as_ref().map(|r| String::from_utf8_lossy(&r.stdout).to_string()),
                    "observed_end": result.run.as_ref().map(|r| format!("{:?}", r.end)),
                    "baseline_text_s0": texts[0].1,
                }),
            });
        }
    }
    if index == 0 {
        stats.sample(json!({"same_program_under_shadowing": texts[2].1.chars().rev().take(500).collect::<String>().chars().rev().collect::<String>()}));
    }
}

/* ------------------------------------ hygiene probes ------------------------------------ */

struct Probe {
    name: String,
    files: Vec<(String, String)>,
    /// the message of the expected resolve error must contain these
    expect_all: Vec<&'static str>,
}

fn probes() -> Vec<Probe> {
    let mut v = Vec::new();
    // the import expression as a value `q`, used so that the program would be fine if capture happened
    let import = "@(import(\"p.zy\"))";
    // importer binder forms binding the name `n` (value) with HOLE where the import sits
    let value_forms: Vec<(&str, &str)> = vec![
        ("let-in", "let n = 1 in HOLE"),
        ("let-that", "begin let n = 1 that HOLE end"),
        ("def-in", "def n : Int64 = 1 in HOLE"),
        ("def-that", "begin def n : Int64 = 1 that HOLE end"),
        ("param-in", "param (n : Int64) in HOLE"),
        ("param-that", "{ begin param (n : Int64) that HOLE end }"),
        ("do", "do n <- ret 1; HOLE"),
        ("fn", "(fn (n : Int64) => HOLE) 1"),
        ("fix", "(fix (n : Thk (Ret Int64)) => HOLE)"),
        ("match-arm", "match (1, 2) | (n, m) => HOLE end"),
        ("copattern-argument", "(comatch | .call n => HOLE end)"),
        ("tuple-pattern", "let (n, m) = (1, 2) in HOLE"),
        ("named-pattern", "let (fx = n) = (fx = 1) in HOLE"),
        ("alias-pattern", "let (n; m) = 1 in HOLE"),
        ("projection-pattern", "let (/n) = (n = 1, k = 2) in HOLE"),
    ];
    let type_forms: Vec<(&str, &str)> = vec![
        ("type-let", "let N = Int64 in HOLE"),
        ("type-def-that", "begin def N : VType = Int64 that HOLE end"),
        ("forall", "{ fn (N : VType) => HOLE }"),
        ("exists-opening", "let (N, x) = ((Int64, 5) : exists (T : VType) . T) in HOLE"),
        ("type-fn", "let F = fn (N : VType) => HOLE in ret 0"),
    ];
    let wrappers: Vec<&str> = vec!["HOLE", "let z1 = 0 in HOLE", "do z2 <- ret 0; begin let z3 = { HOLE } that ! z3 end"];
    let mk = |form: &str, depth: usize, use_site: &str| -> String {
        let mut inner = use_site.to_string();
        for w in wrappers[..depth].iter().rev() {
            inner = w.replace("HOLE", &inner);
        }
        form.replace("HOLE", &inner)
    };
    for (fname, form) in &value_forms {
        for depth in 1..=3 {
            for (pname, provider) in [("bare", "n"), ("in-thunk", "{ ret n }"), ("in-block", "begin let k = n that k end")] {
                let use_site = format!("do q <- (let p = {import} in ret 0); ret q");
                let root = format!("{}{}", MiniPrelude::core().text(), mk(form, depth, &use_site));
                v.push(Probe {
                    name: format!("capture/value/{fname}/depth{depth}/{pname}"),
                    files: vec![("root.zy".into(), root), ("p.zy".into(), provider.to_string())],
                    expect_all: vec!["Unbound", "p.zy"],
                });
            }
        }
    }
    for (fname, form) in &type_forms {
        for depth in 1..=3 {
            let use_site = format!("do q <- (let p = {import} in ret 0); ret q");
            let root = format!("{}{}", MiniPrelude::core().text(), mk(form, depth, &use_site));
            v.push(Probe {
                name: format!("capture/type/{fname}/depth{depth}"),
                files: vec![("root.zy".into(), root), ("p.zy".into(), "N".to_string())],
                expect_all: vec!["Unbound", "p.zy"],
            });
        }
    }
    // scope extent: an occurrence outside the scope the rules give its would-be binder is unbound, never captured
    let decls = "def AB : VType = data | +A : Int64 | +B : Int64 end that\n";
    for (name, body) in [
        ("fn-own-annotation", "do f <- ret { fn (zq : zq) => ret 0 }; ! exit 0".to_string()),
        ("fix-own-annotation", "do f <- ret { fix (zq : Thk zq) => ret 0 }; ! exit 0".to_string()),
        ("let-own-annotation", "let zq : zq = 1 in ! exit 0".to_string()),
        ("let-own-bindee", "let zq = zq in ! exit 0".to_string()),
        ("let-tuple-own-bindee", "let (zq, w) = (1, zq) in ! exit 0".to_string()),
        ("do-own-bindee", "do zq <- ret zq; ! exit 0".to_string()),
        ("do-pattern-own-bindee", "do (w, zq) <- ret (1, zq); ! exit 0".to_string()),
        ("forall-own-kind", "let f : Thk (forall (zq : zq) . Ret Int64) = { fn (X : VType) => ret 1 } in ! exit 0".to_string()),
        ("earlier-component-annotation", "do f <- ret { fn ((a : zq), (zq : Int64)) => ret 0 }; ! exit 0".to_string()),
        ("match-arm-own-annotation", "match (1, 2) | ((zq : zq), m) => ! exit 0 end".to_string()),
        ("other-match-arm", format!("begin {decls}match (+A(1) : AB) | +A(zq) => ! exit 0 | +B(w) => ! exit zq end end")),
        ("after-function", "do f <- ret { fn (zq : Int64) => ret zq }; ! exit zq".to_string()),
        ("after-thunk-let", "do f <- ret { let zq = 1 in ret zq }; ! exit zq".to_string()),
        ("after-do-in-bindee", "do a <- (do zq <- ret 1; ret zq); ! exit zq".to_string()),
        ("after-match", "do a <- (match (1, 2) | (zq, m) => ret zq end); ! exit zq".to_string()),
        ("that-outside-its-block", "do a <- begin let zq = 1 that ret zq end; ! exit zq".to_string()),
        ("that-of-thunked-block", "let t = { begin let zq = 1 that ret zq end } in ! exit zq".to_string()),
        ("that-of-sibling-block", "do a <- begin let zq = 1 that ret zq end; do b <- begin let w = zq that ret w end; ! exit 0".to_string()),
        ("comatch-argument-other-arm", "begin def K : CType = codata | .f : Int64 -> Ret Int64 | .g : Ret Int64 end that let o : Thk K = { comatch | .f zq => ret zq | .g => ret zq end } that ! exit 0 end".to_string()),
        ("type-binder-after-forall", "let f : Thk (forall (Zq : VType) . Zq -> Ret Zq) = { fn (X : VType) (x : X) => ret x } in let g : Thk (Zq -> Ret Int64) = { fn (y : Int64) => ret y } in ! exit 0".to_string()),
        ("exists-witness-after-opening-scope", "do a <- (let (Zq, x) = ((Int64, 5) : exists (T : VType) . T) in ret 0); let g : Thk (Zq -> Ret Int64) = { fn (y : Int64) => ret y } in ! exit 0".to_string()),
    ] {
        v.push(Probe {
            name: format!("scope-extent/{name}"),
            files: vec![("root.zy".into(), format!("{}{}\n", MiniPrelude::core().text(), body)), ("p.zy".into(), "0".into())],
            expect_all: vec!["Unbound", "root.zy"],
        });
    }
    // a builtin name of the importer's prelude is not visible in a provider either
    v.push(Probe {
        name: "capture/prelude-name".into(),
        files: vec![("root.zy".into(), format!("{}let p = {import} in ! exit 0\n", MiniPrelude::core().text())), ("p.zy".into(), "{ ! exit 3 }".into())],
        expect_all: vec!["Unbound", "p.zy"],
    });
    // a top-level `that` in a provider is never adopted by the importer's block
    for (iname, importer) in [
        ("importer-block", format!("begin let z = {import} that ret z end")),
        ("importer-nested-block", format!("begin let w = 1 that begin let z = {import} that ret z end end")),
        ("importer-plain", format!("let z = {import} in ret z")),
    ] {
        v.push(Probe {
            name: format!("unenclosed-that/{iname}"),
            files: vec![("root.zy".into(), format!("{}{}", MiniPrelude::core().text(), importer)), ("p.zy".into(), "let y = 1 that y".into())],
            expect_all: vec!["`that` requires an enclosing"],
        });
    }
    // a `that` name of the importer's block is not visible inside the provider, even though it is visible
    // everywhere in the block
    v.push(Probe {
        name: "block-name-into-provider".into(),
        files: vec![
            ("root.zy".into(), format!("{}begin let z = {import} that let n = 5 that ret z end", MiniPrelude::core().text())),
            ("p.zy".into(), "n".into()),
        ],
        expect_all: vec!["Unbound", "p.zy"],
    });
    v
}

fn run_probe(_cfg: &Cfg, index: u64, stats: &mut Stats) {
    let all = probes();
    let probe = &all[index as usize];
    let sources = Sources { files: probe.files.clone() };
    let analyzed = pipeline::analyze_overlay(&sources);
    stats.evaluations += 1;
    stats.nontrivial(probe.name.as_bytes());
    stats.cover("probe_families", probe.name.split('/').take(3).collect::<Vec<_>>().join("/").as_str());
    let ok = match &analyzed.verdict {
        | Verdict::Error { class, message } => class == "resolve" && probe.expect_all.iter().all(|e| message.contains(e)),
        | _ => false,
    };
    stats.count(&format!("probe_{}", analyzed.verdict.class()));
    if index == 0 {
        stats.sample(json!({"probe": probe.name, "root_tail": probe.files[0].1.chars().rev().take(160).collect::<String>().chars().rev().collect::<String>(), "provider": probe.files[1].1, "verdict": analyzed.verdict.brief()}));
    }
    if !ok {
        let signature = match &analyzed.verdict {
            | Verdict::Checked => "free-name-of-provider-captured-or-accepted".to_string(),
            | Verdict::Panic(p) => format!("front-end-panic {}", p.site()),
            | other => format!("unexpected-diagnostic {}", other.brief().chars().take(60).collect::<String>()),
        };
        stats.violation(Violation {
            signature,
            tags: vec![probe.name.clone()],
            generator: "hygiene".into(),
            index,
            detail: json!({"probe": probe.name, "verdict": analyzed.verdict.brief(), "sources": sources.to_json()}),
        });
    }
}

/* ------------------------------------ placement of `that` ------------------------------------ */

/// Where a `that` binding may be written and what it then means: it belongs to the nearest enclosing `begin`, is visible
/// throughout that block (also before its text and in sibling contributions), shadows outer names there, and renaming it
/// consistently changes nothing. Each probe is a pair of spellings of one program (a fresh name / a name that shadows an
/// unrelated outer binder) with the exit code both must produce.
fn placement_probes() -> Vec<(&'static str, String, String, i64)> {
    let mut v: Vec<(&'static str, String, String, i64)> = Vec::new();
    let mut pair = |name: &'static str, template: &str, code: i64| {
        v.push((name, template.replace("NAME", "w"), template.replace("NAME", "v"), code));
    };
    // a `that` written inside the bindee of another contribution, without a `begin` of its own
    pair("in-def-bindee", "let v : Int64 = 7 in\nbegin\n  def ! f (a : Int64) : Ret Int64 =\n    let NAME : Int64 = 2 that\n    ! add a NAME\n  that\n  do r <- ! f 1;\n  ! exit r\nend\n", 3);
    // … and used by a sibling contribution written before it
    pair("in-def-bindee-used-by-sibling", "let v : Int64 = 7 in\nbegin\n  def ! g : Ret Int64 = ! add NAME 10 that\n  def ! f (a : Int64) : Ret Int64 =\n    let NAME : Int64 = 2 that\n    ! add a NAME\n  that\n  do r <- ! g;\n  ! exit r\nend\n", 12);
    // inside the bindee of a `let .. that`
    pair("in-let-bindee", "let v : Int64 = 7 in\nbegin\n  let t = { let NAME : Int64 = 4 that ! add NAME 1 } that\n  do r <- ! t;\n  ! exit r\nend\n", 5);
    // under `let .. in` and `do` of the block body
    pair("under-let-in", "let v : Int64 = 7 in\nbegin\n  let k = 1 in\n  let NAME : Int64 = 6 that\n  do r <- ! add NAME k;\n  ! exit r\nend\n", 7);
    pair("under-do", "let v : Int64 = 7 in\nbegin\n  do k <- ret 1;\n  let NAME : Int64 = 8 that\n  do r <- ! add NAME k;\n  ! exit r\nend\n", 9);
    // used textually before it is written
    pair("used-before-written", "let v : Int64 = 7 in\nbegin\n  do r <- ! add NAME 1;\n  let NAME : Int64 = 10 that\n  ! exit r\nend\n", 11);
    // a nested block keeps its own `that`: the outer name is what the outer body sees
    pair("nested-block-keeps-its-own", "let NAME : Int64 = 7 in\nbegin\n  def ! f (a : Int64) : Ret Int64 = begin\n    let NAME : Int64 = 2 that\n    ! add a NAME\n  end that\n  do r <- ! f NAME;\n  ! exit r\nend\n", 9);
    // inside a thunk of the body
    pair("in-thunk-of-body", "let v : Int64 = 7 in\nbegin\n  let t = { let NAME : Int64 = 3 that ! add NAME NAME } that\n  do r <- ! t;\n  ! exit r\nend\n", 6);
    v
}

fn run_placement(_cfg: &Cfg, index: u64, stats: &mut Stats) {
    let all = placement_probes();
    let (name, fresh, shadowing, code) = &all[index as usize];
    stats.nontrivial(format!("placement/{name}").as_bytes());
    stats.cover("placement_probes", name);
    for (spelling, body) in [("fresh-name", fresh), ("shadowing-name", shadowing)] {
        let sources = Sources::single(format!("{}{}", MiniPrelude::core().text(), body));
        let result = pipeline::check_and_run(&sources, b"", &[], 200_000);
        stats.evaluations += 1;
        let ok = matches!((&result.verdict, &result.run), (Verdict::Checked, Some(run)) if run.end == End::Exit(*code as i32));
        if !ok {
            let signature = match &result.verdict {
                | Verdict::Checked => "that-placement-changes-behaviour".to_string(),
                | Verdict::Panic(p) => format!("front-end-panic {}", p.site()),
                | v => format!("that-placement-rejected {}", v.brief().lines().next().unwrap_or("").chars().take(50).collect::<String>()),
            };
            stats.violation(Violation {
                signature,
                tags: vec![format!("{name}/{spelling}")],
                generator: "placement".into(),
                index,
                detail: json!({"probe": name, "spelling": spelling, "expected_exit": code, "verdict": result.verdict.brief(), "observed_end": result.run.as_ref().map(|r| format!("{:?}", r.end)), "sources": sources.to_json()}),
            });
        }
    }
}

/* ------------------------------------------------------------------------------------------------------------
 * A name written more than once in ONE pattern. "Pattern components bind left to right": of two components with the
 * same name the later one is the innermost binder, whatever the shape of the pattern around them. In the lexical
 * forms (`let .. in`, `do`, abstraction, match arm) that is the only acceptable outcome. For a `that` contribution a
 * second admissible outcome is the block's own "Duplicate definition" report (two `that` contributions of one name
 * are rejected that way); which occurrence wins must in no case depend on the nesting of the pattern.
 * ------------------------------------------------------------------------------------------------------------ */

enum Shape {
    Leaf(usize),
    Tuple(Vec<Shape>),
}

fn gen_shape(rng: &mut Rng, depth: usize, next: &mut usize, budget: usize) -> Shape {
    if depth == 0 || *next + 1 >= budget || rng.chance(1, 3) {
        *next += 1;
        return Shape::Leaf(*next - 1);
    }
    let n = 2 + rng.below(2);
    Shape::Tuple((0..n).map(|_| gen_shape(rng, depth - 1, next, budget)).collect())
}

fn show_shape(s: &Shape, leaf: &dyn Fn(usize) -> String) -> String {
    match s {
        | Shape::Leaf(i) => leaf(*i),
        | Shape::Tuple(items) => format!("({})", items.iter().map(|i| show_shape(i, leaf)).collect::<Vec<_>>().join(", ")),
    }
}

fn run_repeated(cfg: &Cfg, index: u64, stats: &mut Stats) {
    let mut rng = Rng::for_case(cfg.seed, "C07/repeated", index);
    let mut leaves = 0usize;
    let shape = loop {
        leaves = 0;
        let s = Shape::Tuple((0..2 + rng.below(2)).map(|_| gen_shape(&mut rng, 2, &mut leaves, 7)).collect());
        if leaves >= 2 {
            break s;
        }
    };
    // names: one name is written at least twice; the others come from a small pool (further repetitions welcome)
    let pool = ["x", "y", "z", "w", "x"];
    let mut names: Vec<&str> = (0..leaves).map(|_| *rng.pick(&pool)).collect();
    let a = rng.below(leaves);
    let mut b = rng.below(leaves);
    if a == b {
        b = (a + 1) % leaves;
    }
    names[a] = "x";
    names[b] = "x";
    let last = names.iter().rposition(|n| *n == "x").unwrap();
    let occurrences = names.iter().filter(|n| **n == "x").count();
    let expected = (last + 1) as i64;
    let pattern = show_shape(&shape, &|i| names[i].to_string());
    let value = show_shape(&shape, &|i| format!("{}", i + 1));
    let typed = |s: &Shape| -> String {
        fn go(s: &Shape) -> String {
            match s {
                | Shape::Leaf(_) => "Int64".into(),
                | Shape::Tuple(items) => format!("({})", items.iter().map(go).collect::<Vec<_>>().join(" * ")),
            }
        }
        go(s)
    };
    let ty = typed(&shape);
    let forms: Vec<(&str, bool, String)> = vec![
        ("let-in", false, format!("let {pattern} = {value} in\n! exit x\n")),
        ("do-bind", false, format!("do {pattern} <- ret {value};\n! exit x\n")),
        ("abstraction", false, format!("(fn ({pattern} : {ty}) => ! exit x) {value}\n")),
        ("match-arm", false, format!("match ({value} : {ty})\n| {pattern} => ! exit x\nend\n")),
        ("let-that", true, format!("begin\n  let {pattern} = {value} that\n  ! exit x\nend\n")),
        ("let-that-used-before", true, format!("begin\n  def ! go : OS = ! exit x that\n  let {pattern} = {value} that\n  ! go\nend\n")),
    ];
    stats.nontrivial(format!("{pattern}").as_bytes());
    stats.cover("repeated_name_occurrences", &format!("{occurrences}"));
    for (form, block, body) in forms {
        let sources = Sources::single(format!("{}{}", MiniPrelude::core().text(), body));
        let result = pipeline::check_and_run(&sources, b"", &[], 200_000);
        stats.evaluations += 1;
        let brief = result.verdict.brief();
        let outcome = match (&result.verdict, &result.run) {
            | (Verdict::Checked, Some(run)) => match run.end {
                | End::Exit(c) if c as i64 == expected => "rightmost",
                | End::Exit(_) => "other-occurrence",
                | _ => "abnormal-end",
            },
            | (Verdict::Panic(_), _) => "panic",
            | _ if block && brief.contains("Duplicate definition") => "duplicate-reported",
            | _ => "rejected",
        };
        stats.cover("repeated_name_outcomes", &format!("{form}:{outcome}"));
        let fine = outcome == "rightmost" || outcome == "duplicate-reported";
        if !fine {
            stats.violation(Violation {
                signature: format!("name-repeated-in-one-pattern {outcome}"),
                tags: vec![form.to_string()],
                generator: "repeated".into(),
                index,
                detail: json!({"form": form, "pattern": pattern, "value": value, "expected_exit_if_accepted": expected, "verdict": brief, "observed_end": result.run.as_ref().map(|r| format!("{:?}", r.end)), "sources": sources.to_json()}),
            });
        }
    }
}
