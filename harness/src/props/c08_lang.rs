//! C08 (b)/(c): language-level dependency ordering of `begin ... that ... end` blocks.

use crate::core::*;

pub fn generators(_cfg: &Cfg) -> Vec<Generator> {
    Vec::new()
}
