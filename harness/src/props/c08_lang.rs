//! C08 (b)/(c): language-level dependency ordering of `begin ... that ... end` blocks.

use crate::core::*;
use crate::e1::{self, eval::RefEnd, print::Style};
use crate::pipeline::{self, End, Sources, Verdict};
use crate::prelude::MiniPrelude;
use crate::props::c08::Digraph;
use crate::util::rng::Rng;
use serde_json::json;
use std::collections::BTreeSet;
use zydeco_surface::scoped::syntax::ContextNode;

pub fn generators(cfg: &Cfg) -> Vec<Generator> {
    // digraphs on <= 3 nodes (quick: 530) / <= 4 nodes (thorough: 66 066), three flavours each
    let graphs: u64 = cfg.tier.pick(2 + 16 + 512, 2 + 16 + 512 + 65_536);
    vec![
        Generator { name: "blocks", total: graphs, run: run_block, case_cpu_limit_s: 120 },
        Generator { name: "perms", total: cfg.tier.pick(400, 12_000), run: run_perms, case_cpu_limit_s: 120 },
        Generator { name: "paramcycles", total: param_cycles().len() as u64, run: run_param_cycle, case_cpu_limit_s: 60 },
        Generator { name: "paramblocks", total: cfg.tier.pick(200, 6_000), run: run_param_block, case_cpu_limit_s: 120 },
    ]
}

fn nth_graph(mut idx: u64) -> (usize, u64) {
    for n in 1..=4usize {
        let count = 1u64 << (n * n);
        if idx < count {
            return (n, idx);
        }
        idx -= count;
    }
    (1, 0)
}

fn violation(stats: &mut Stats, generator: &str, index: u64, signature: String, tags: Vec<String>, detail: serde_json::Value) {
    stats.violation(Violation { signature, tags, generator: generator.into(), index, detail });
}

/// One block per digraph in two flavours: sealed data types (every graph legal) and value definitions (cycles illegal).
fn run_block(cfg: &Cfg, index: u64, stats: &mut Stats) {
    let (n, code) = nth_graph(index);
    let g = Digraph::from_code(n, code);
    let comp = g.components();
    let reach = g.closure();
    let cyclic: Vec<bool> = (0..n).map(|i| (0..n).any(|j| j != i && reach[i][j] && reach[j][i]) || g.deps[i].contains(&i)).collect();
    let any_cycle = cyclic.iter().any(|c| *c);
    let mut rng = Rng::for_case(cfg.seed, "C08/blocks", index);
    // textual order of the contributions: a random permutation
    let mut order: Vec<usize> = (0..n).collect();
    rng.shuffle(&mut order);
    let label = format!("n{n}/{code:#x}");
    if g.edges() >= 1 {
        stats.nontrivial(format!("blocks/{label}").as_bytes());
    }

    /* ---- flavour T: sealed data types; every reference graph is legal (recursive group) ---- */
    {
        let mut text = MiniPrelude::core().text();
        text.push_str("begin\n");
        for &i in &order {
            let payload: Vec<String> = g.deps[i].iter().map(|j| format!("T{j}")).collect();
            let rec = if payload.is_empty() { "Unit".to_string() } else { payload.join(" * ") };
            text.push_str(&format!("def T{i} : VType = data | +C{i} : Unit | +R{i} : {rec} end that\n"));
        }
        // use every type: build its base constructor and match it, printing the node number
        let mut body = "! exit 0".to_string();
        for i in (0..n).rev() {
            body = format!("match (+C{i}() : T{i}) | +C{i}() => ! write_line \"{i}\" {{ {body} }} | +R{i}(_) => ! exit 9 end");
        }
        text.push_str(&body);
        text.push_str("\nend\n");
        let sources = Sources::single(text);
        let analyzed = pipeline::analyze_overlay(&sources);
        stats.evaluations += 1;
        let expected_out: String = (0..n).map(|i| format!("{i}\n")).collect();
        let mut problem: Option<(String, String)> = None;
        match &analyzed.verdict {
            | Verdict::Checked => {
                // the recorded dependency analysis: exactly the SCCs, dependencies first
                if let Some(analysis) = analyzed.analysis() {
                    let scoped = analysis.scoped();
                    let block = scoped.blocks.iter().find(|(_, b)| b.context.nodes.iter().map(|(_, node)| node.bindings().len()).sum::<usize>() == n);
                    match block {
                        | None => problem = Some(("block-context-missing".into(), "no recorded block context with n bindings".into())),
                        | Some((_, block)) => {
                            let topo = block.context.topological_order();
                            let mut emitted: Vec<Vec<usize>> = Vec::new();
                            let mut recursive_flags: Vec<bool> = Vec::new();
                            for node_id in &topo {
                                let node = &block.context.nodes[node_id];
                                emitted.push(node.bindings().iter().map(|b| order[b.source_order()]).collect());
                                recursive_flags.push(matches!(node, ContextNode::Recursive(_)));
                            }
                            stats.add("topological_orders_checked", 1);
                            // partition = SCCs
                            let mut seen: BTreeSet<usize> = BTreeSet::new();
                            for (k, group) in emitted.iter().enumerate() {
                                let c = comp[group[0]];
                                let expect: BTreeSet<usize> = (0..n).filter(|i| comp[*i] == c).collect();
                                let got: BTreeSet<usize> = group.iter().copied().collect();
                                if got != expect {
                                    problem = Some(("scc-partition-wrong".into(), format!("group {:?} is not the component {:?}", got, expect)));
                                }
                                let should_be_recursive = group.len() > 1 || cyclic[group[0]];
                                if recursive_flags[k] != should_be_recursive {
                                    problem = Some(("recursive-classification-wrong".into(), format!("group {:?} recursive={} expected {}", got, recursive_flags[k], should_be_recursive)));
                                }
                                // dependencies first
                                for i in group {
                                    for j in 0..n {
                                        if comp[j] != c && reach[*i][j] && !seen.contains(&j) {
                                            problem = Some(("dependency-order-wrong".into(), format!("node {} emitted before its dependency {}", i, j)));
                                        }
                                    }
                                }
                                seen.extend(got);
                            }
                            if seen.len() != n {
                                problem = Some(("scc-partition-wrong".into(), format!("{} of {} nodes emitted", seen.len(), n)));
                            }
                        }
                    }
                }
                if problem.is_none() {
                    match analyzed.executable() {
                        | Ok(exe) => {
                            let run = pipeline::run_executable(exe, b"", &[], 100_000);
                            if run.stdout != expected_out.as_bytes() || run.end != End::Exit(0) {
                                problem = Some(("type-block-misbehaves".into(), format!("expected {:?} exit 0, got {:?} {:?}", expected_out, String::from_utf8_lossy(&run.stdout), run.end)));
                            }
                        }
                        | Err(e) => problem = Some(("type-block-not-executable".into(), e)),
                    }
                }
            }
            | Verdict::Panic(p) => problem = Some((format!("front-end-panic {}", p.site()), p.short())),
            | other => problem = Some(("recursive-type-group-rejected".into(), other.brief())),
        }
        stats.count(&format!("types_{}", analyzed.verdict.class()));
        if let Some((signature, why)) = problem {
            violation(stats, "blocks", index, signature, vec!["flavour:types".into()], json!({"graph": g.describe(), "order": order, "problem": why, "sources": sources.to_json()}));
        }
    }

    /* ---- flavour V: value definitions; a cycle must be rejected with a diagnostic ---- */
    {
        let mut text = MiniPrelude::core().text();
        text.push_str("begin\n");
        for &i in &order {
            let mut items: Vec<String> = vec![format!("{}", 100 + i)];
            items.extend(g.deps[i].iter().map(|j| format!("v{j}")));
            let value = if items.len() == 1 { items[0].clone() } else { format!("({})", items.join(", ")) };
            text.push_str(&format!("let v{i} = {value} that\n"));
        }
        // observe the head constant of every definition
        let mut body = "! exit 0".to_string();
        for i in (0..n).rev() {
            let head = if g.deps[i].is_empty() { format!("let h{i} = v{i} in") } else { format!("let (h{i}, _) = v{i} in") };
            body = format!("{head}\ndo s{i} <- ! to_string h{i};\n! write_line s{i} {{ {body} }}");
        }
        text.push_str(&body);
        text.push_str("\nend\n");
        let sources = Sources::single(text);
        let result = pipeline::check_and_run(&sources, b"", &[], 100_000);
        stats.evaluations += 1;
        stats.count(&format!("values_{}{}", if any_cycle { "cyclic_" } else { "acyclic_" }, result.verdict.class()));
        let expected_out: String = (0..n).map(|i| format!("{}\n", 100 + i)).collect();
        let problem: Option<(String, String)> = match (&result.verdict, any_cycle) {
            | (Verdict::Panic(p), _) => Some((format!("front-end-panic {}", p.site()), p.short())),
            | (v, true) if v.is_reject() => None,
            | (v, true) => Some(("value-cycle-accepted".into(), v.brief())),
            | (Verdict::Checked, false) => match &result.run {
                | Some(run) if run.stdout == expected_out.as_bytes() && run.end == End::Exit(0) => None,
                | Some(run) => Some(("value-block-misbehaves".into(), format!("expected {:?}, got {:?} {:?}", expected_out, String::from_utf8_lossy(&run.stdout), run.end))),
                | None => Some(("value-block-not-executable".into(), format!("{:?}", result.not_executable))),
            },
            | (v, false) => Some(("acyclic-value-block-rejected".into(), v.brief())),
        };
        if let Some((signature, why)) = problem {
            violation(stats, "blocks", index, signature, vec!["flavour:values".into()], json!({"graph": g.describe(), "order": order, "problem": why, "sources": sources.to_json()}));
        }
    }
    if index == 40 {
        stats.sample(json!({"graph": g.describe(), "textual_order": order, "flavours": ["sealed data types (all graphs legal)", "value definitions (cycles rejected)"]}));
    }
    if index == 0 {
        stats.exhaustive.push(format!("language level: every digraph on <= {} nodes as a block of sealed types and as a block of values", if cfg.tier == Tier::Quick { 3 } else { 4 }));
    }
}

/// (c) permutation metamorphism: the same generated program with its block contributions permuted.
fn run_perms(cfg: &Cfg, index: u64, stats: &mut Stats) {
    let program = e1::generate::generate(cfg.seed, "C08p", index);
    let reference = e1::eval::run(&program, 400_000);
    let RefEnd::Exit(code) = reference.end else {
        stats.inconclusive("reference did not reach an exit");
        return;
    };
    let k = cfg.tier.pick(4u64, 8u64);
    let mut outcomes: Vec<(u64, String, Option<(Vec<u8>, End)>, String)> = Vec::new();
    let mut has_block = false;
    for perm in 0..k {
        let mut style = Style::plain();
        style.block_lets = true;
        style.block_shuffle = if perm == 0 { 0 } else { cfg.seed.wrapping_mul(977) ^ index ^ (perm << 32) | 1 };
        let text = e1::print::program_text(&program, &style, cfg.seed ^ index);
        has_block |= text.matches(" that\nlet ").count() >= 1;
        let sources = Sources::single(text.clone());
        let result = pipeline::check_and_run(&sources, b"", &[], 2_000_000);
        stats.evaluations += 1;
        outcomes.push((perm, result.verdict.class().to_string(), result.run.map(|r| (r.stdout, r.end)), text));
    }
    if has_block {
        stats.nontrivial(outcomes[0].3.as_bytes());
        stats.count("programs_with_permuted_blocks");
    }
    for (perm, class, run, text) in &outcomes {
        let ok = class == "checked" && run.as_ref().map(|(o, e)| o == &reference.stdout && *e == End::Exit(code)).unwrap_or(false);
        if !ok {
            violation(
                stats,
                "perms",
                index,
                if class == "checked" { "behaviour-depends-on-contribution-order".into() } else { format!("acceptance-depends-on-contribution-order {}", class) },
                vec![format!("permutation:{perm}")],
                json!({"permutation": perm, "class": class, "observed": run.as_ref().map(|(o, e)| json!({"stdout": String::from_utf8_lossy(o), "end": format!("{:?}", e)})),
                       "expected_stdout": String::from_utf8_lossy(&reference.stdout), "expected_exit": code, "sources": {"root.zy": text}, "source_order_text": outcomes[0].3}),
            );
        }
    }
}

/// Cycles through a parameter: rejected with a diagnostic, never a hang or a crash.
fn param_cycles() -> Vec<(&'static str, &'static str)> {
    vec![
        ("param-alias-2cycle", "begin\nparam (m : exists (T : VType) . A) that\nlet A = m/T that\n! exit 0\nend\n"),
        ("param-alias-3cycle", "begin\nparam (m : exists (T : VType) . B) that\nlet A = m/T that\nlet B = A * A that\n! exit 0\nend\n"),
        ("param-self-annotation", "begin\nparam (m : m/T) that\n! exit 0\nend\n"),
        ("param-value-cycle", "{ begin\nparam (x : Int64) that\nlet y = (x, z) that\nlet z = (y, 1) that\nret x\nend }\n"),
        ("two-params-mutual", "{ begin\nparam (a : exists (T : VType) . b/T) that\nparam (b : exists (T : VType) . a/T) that\nret 0\nend }\n"),
        ("param-no-cycle-control", "begin\nlet A = Int64 that\nlet f = { begin param (x : A) that ! add x 1 end } that\ndo r <- ! f 4;\n! exit r\nend\n"),
    ]
}

fn run_param_cycle(_cfg: &Cfg, index: u64, stats: &mut Stats) {
    let (name, body) = param_cycles()[index as usize];
    let text = if body.starts_with('{') { format!("{}let t = {} in ! exit 0\n", MiniPrelude::core().text(), body) } else { format!("{}{}", MiniPrelude::core().text(), body) };
    let sources = Sources::single(text);
    let analyzed = pipeline::analyze_overlay(&sources);
    stats.evaluations += 1;
    stats.nontrivial(format!("paramcycle/{name}").as_bytes());
    stats.cover("param_cycle_cases", name);
    stats.cover("param_cycle_verdicts", &format!("{}:{}", name, analyzed.verdict.brief().lines().next().unwrap_or("").chars().take(60).collect::<String>()));
    let ok = if name.ends_with("control") { analyzed.verdict.is_accept() } else { analyzed.verdict.is_reject() };
    if !ok {
        let signature = match &analyzed.verdict {
            | Verdict::Panic(p) => format!("front-end-panic {}", p.site()),
            | Verdict::Checked => "cycle-through-parameter-accepted".to_string(),
            | other => format!("control-case-rejected {}", other.brief().chars().take(50).collect::<String>()),
        };
        violation(stats, "paramcycles", index, signature, vec![name.to_string()], json!({"case": name, "verdict": analyzed.verdict.brief(), "sources": sources.to_json()}));
    }
}

/// (c') blocks with parameters: the `that` definitions are moved around the parameters (which keep their relative order).
/// Every parameter has the underlying type Int64, through aliases defined in the same block at several depths, so each
/// placement is well typed under any argument order and the printed `name=value` lines show which argument reached which
/// parameter: the mapping must be the same for all placements.
fn run_param_block(cfg: &Cfg, index: u64, stats: &mut Stats) {
    let mut rng = Rng::for_case(cfg.seed, "C08/paramblocks", index);
    let k = 2 + rng.below(3);
    // definitions: alias chains and values
    let mut defs: Vec<String> = Vec::new();
    let mut aliases: Vec<String> = Vec::new();
    for a in 0..rng.below(4) {
        let target = if aliases.is_empty() || rng.chance(1, 2) { "Int64".to_string() } else { aliases[rng.below(aliases.len())].clone() };
        let name = format!("N{a}");
        defs.push(match rng.below(3) {
            | 0 => format!("let {name} = {target} that"),
            | 1 => format!("let {name} : VType = {target} that"),
            | _ => format!("let {name} = {target} that"),
        });
        aliases.push(name);
    }
    let mut params: Vec<String> = Vec::new();
    for i in 0..k {
        let ty = if !aliases.is_empty() && rng.chance(2, 3) { aliases[rng.below(aliases.len())].clone() } else { "Int64".to_string() };
        params.push(if rng.chance(1, 2) { format!("param p{i} : {ty} that") } else { format!("param (p{i} : {ty}) that") });
    }
    // value definitions that depend on parameters, and an independent one
    for v in 0..rng.below(3) {
        let p = rng.below(k);
        defs.push(format!("let w{v} = (p{p}, {}) that", 500 + v));
    }
    if rng.chance(1, 3) {
        defs.push("let unused = \"u\" that".to_string());
    }
    // definitions whose *binder pattern* is annotated with aliases of the block (the right-hand side does not mention them)
    for q in 0..rng.below(3) {
        if aliases.is_empty() {
            break;
        }
        let a1 = aliases[rng.below(aliases.len())].clone();
        let a2 = aliases[rng.below(aliases.len())].clone();
        defs.push(match rng.below(3) {
            | 0 => format!("let (lo{q} : {a1}, hi{q} : {a2}) = ({}, {}) that", 30 + q, 40 + q),
            | 1 => format!("let (single{q} : {a1}) = {} that", 50 + q),
            | _ => format!("let ((lo{q} : {a1}), hi{q}) = ({}, \"s\") that", 60 + q),
        });
    }
    let mut body = "! exit 0".to_string();
    for i in (0..k).rev() {
        body = format!("do s{i} <- ! to_string p{i};\ndo l{i} <- ! append \"p{i}=\" s{i};\n! write_line l{i} {{ {body} }}");
    }
    let args: Vec<String> = (0..k).map(|i| format!("{}", 11 * (i + 1))).collect();
    // placements: positions of the definitions among the parameters
    let n_perm = cfg.tier.pick(6usize, 16usize);
    let mut texts: Vec<(String, String)> = Vec::new();
    for perm in 0..n_perm {
        let mut ds = defs.clone();
        let mut slots: Vec<usize> = match perm {
            | 0 => vec![0; ds.len()],  // all definitions before the parameters
            | 1 => vec![k; ds.len()],  // all after
            | _ => {
                rng.shuffle(&mut ds);
                (0..ds.len()).map(|_| rng.below(k + 1)).collect()
            }
        };
        if perm == 1 {
            ds.reverse();
        }
        let mut lines: Vec<String> = Vec::new();
        for slot in 0..=k {
            for (d, s) in ds.iter().zip(slots.iter_mut()) {
                if *s == slot {
                    lines.push(d.clone());
                }
            }
            if slot < k {
                lines.push(params[slot].clone());
            }
        }
        let text = format!("{}begin\nlet blk = {{ begin\n{}\n{}\nend }} that\n! blk {}\nend\n", MiniPrelude::core().text(), lines.join("\n"), body, args.join(" "));
        texts.push((format!("placement:{perm}"), text));
    }
    let mut outcomes: Vec<(String, String, Option<(Vec<u8>, End)>)> = Vec::new();
    for (label, text) in &texts {
        let result = pipeline::check_and_run(&Sources::single(text.clone()), b"", &[], 200_000);
        stats.evaluations += 1;
        outcomes.push((label.clone(), result.verdict.brief().lines().next().unwrap_or("").to_string(), result.run.map(|r| (r.stdout, r.end))));
    }
    if !defs.is_empty() {
        stats.nontrivial(texts[0].1.as_bytes());
    }
    stats.count(&format!("paramblock_{}", if outcomes[0].2.is_some() { "ran" } else { "not_run" }));
    if index == 3 {
        stats.sample(json!({"parameter_block_placement_0": texts[0].1.chars().rev().take(500).collect::<String>().chars().rev().collect::<String>(), "observed": outcomes[0].2.as_ref().map(|(o, _)| String::from_utf8_lossy(o).to_string())}));
    }
    // the first placement must be accepted and run (all parameters are Int64); every other must agree with it
    let first = outcomes[0].clone();
    if first.2.is_none() {
        violation(stats, "paramblocks", index, format!("parameter-block-rejected {}", first.1.chars().take(40).collect::<String>()), vec![first.0.clone()], json!({"verdict": first.1, "sources": {"root.zy": texts[0].1}}));
        return;
    }
    for (n, (label, verdict, run)) in outcomes.iter().enumerate().skip(1) {
        if *run != first.2 {
            let signature = if run.is_none() { "acceptance-depends-on-definition-placement".to_string() } else { "argument-order-depends-on-definition-placement".to_string() };
            violation(
                stats,
                "paramblocks",
                index,
                signature,
                vec![label.clone()],
                json!({"placement": label, "verdict": verdict, "observed": run.as_ref().map(|(o, e)| json!({"stdout": String::from_utf8_lossy(o), "end": format!("{:?}", e)})),
                       "first_placement_observed": first.2.as_ref().map(|(o, e)| json!({"stdout": String::from_utf8_lossy(o), "end": format!("{:?}", e)})),
                       "sources": {"root.zy": texts[n].1}, "first_placement_text": texts[0].1}),
            );
            return;
        }
    }
}
