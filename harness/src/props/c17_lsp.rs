//! C17, language-server leg: the revision check before an analysis is committed (`editor/cajun` commit_analysis /
//! DocumentRevision) and the cancellation of overtaken analyses, observed from outside.
//!
//! The repository's server binary is driven over stdio with histories of didOpen / didChange / didClose on a few
//! documents while requests are posted without waiting for earlier analyses. Every text ever sent is unambiguous: it
//! defines one symbol `rev_<id>` and carries one warning whose line number is unique to the id, so that an answer or a
//! published diagnostic identifies the contents it was computed from. All messages are stamped from one logical
//! clock (`crate::lsp`). Oracles (violations):
//!   * answer-from-contents-older-than-request: a documentSymbol answer names `rev_k` although a notification that
//!     replaced those contents by a later text of the same document had been *sent before the request*. (LSP
//!     processes a document's messages in order; an analysis overtaken by an edit may be cancelled - a null answer is
//!     accepted - but must not be reported.)
//!   * diagnostics-of-older-contents-under-newer-version: publishDiagnostics labelled with version v describes a text
//!     older than the one sent as version v.
//!   * stale-answer-at-quiescence: after every notification has been acknowledged (one publishDiagnostics per
//!     notification) the first documentSymbol / hover answer for an open document is not that of its current text.
//!   * diagnostics-left-at-quiescence-are-not-those-of-the-current-contents: once the diagnostics of every open
//!     document's current version have been published, the last publication for a document (what the editor keeps
//!     showing) is empty or describes an older text although the current text has its warning.
//!   * quiescent-answer-differs-from-fresh-server: at quiescence the long-lived server's symbols, semantic tokens and
//!     hovers for every open document equal those of a fresh server process that has only ever seen the current texts.
//!   * lsp-no-progress / lsp-server-exited: the server stops answering or dies (never deadlock or crash).
//! Timing is used to *aim* (delays are swept over the measured duration of an analysis), never to judge.

use crate::core::*;
use crate::lsp::{Lsp, Wait, file_uri};
use crate::util::rng::{Rng, hash64};
use serde_json::{Value, json};
use std::collections::{BTreeMap, HashMap};
use std::path::{Path, PathBuf};
use std::time::{Duration, Instant};

const QUIET: Duration = Duration::from_secs(120);

fn cajun_binary() -> PathBuf {
    std::env::var_os("ZV_CAJUN_BIN").map(PathBuf::from).unwrap_or_else(|| verif_root().join("target/repo/debug/cajun"))
}

#[derive(Clone, Copy, PartialEq, Eq, Debug)]
enum Kind {
    Open,
    Change,
    Close,
}

struct Doc {
    path: PathBuf,
    uri: String,
    open: bool,
    /// id of the current text if open
    current: Option<u64>,
    /// version label of the current text if open
    current_label: Option<i64>,
    /// the current text if open
    current_text: Option<String>,
    /// line of the warning -> id, for every text ever sent for this document
    line_to_id: HashMap<u64, u64>,
    /// version label -> id
    label_to_id: HashMap<i64, u64>,
    /// (stamp of the send, kind, id) of every notification about this document
    notes: Vec<(u64, Kind, u64)>,
}

struct Driver {
    lsp: Lsp,
    docs: Vec<Doc>,
    next_id: u64,
    next_version: i64,
    /// (request id, stamp, doc index, method)
    posted: Vec<(u64, u64, usize, &'static str)>,
    imports_dep: bool,
}

/// Text `id` of a document: `pad` comment lines, an unattached text block (one warning, on line `pad + id`), and a block
/// defining `rev_<id>`.
fn text(id: u64, pad: u64, import: Option<&str>) -> (String, u64) {
    let lines = pad + id;
    let mut s = String::with_capacity((lines as usize) * 68 + 200);
    for _ in 0..lines {
        s.push_str("-- padding padding padding padding padding padding padding padding\n");
    }
    s.push_str("--| Ineffective documentation.\n");
    match import {
        | Some(dep) => s.push_str(&format!("begin\n  let rev_{id} = () that\n  let dep = @(import(\"{dep}\")) that\n  (rev_{id}, dep)\nend\n")),
        | None => s.push_str(&format!("begin\n  let rev_{id} = () that\n  rev_{id}\nend\n")),
    }
    (s, lines)
}

impl Driver {
    fn send_text(&mut self, d: usize, pad: u64, kind: Kind) -> u64 {
        let id = self.next_id;
        self.next_id += 1;
        let version = self.next_version;
        self.next_version += 1;
        let import = if d == 0 && self.imports_dep { Some("dep.zy") } else { None };
        let (source, line) = text(id, pad, import);
        let source_copy = source.clone();
        let doc = &mut self.docs[d];
        doc.line_to_id.insert(line, id);
        doc.label_to_id.insert(version, id);
        let uri = doc.uri.clone();
        let stamp = match kind {
            | Kind::Open => self.lsp.notify("textDocument/didOpen", json!({"textDocument": {"uri": uri, "languageId": "zydeco", "version": version, "text": source}})),
            | Kind::Change => self.lsp.notify("textDocument/didChange", json!({"textDocument": {"uri": uri, "version": version}, "contentChanges": [{"text": source}]})),
            | Kind::Close => unreachable!(),
        };
        let doc = &mut self.docs[d];
        doc.notes.push((stamp, kind, id));
        doc.open = true;
        doc.current = Some(id);
        doc.current_label = Some(version);
        doc.current_text = Some(source_copy);
        id
    }

    fn edit(&mut self, d: usize, pad: u64) -> u64 {
        let kind = if self.docs[d].open { Kind::Change } else { Kind::Open };
        self.send_text(d, pad, kind)
    }

    fn close(&mut self, d: usize) {
        let uri = self.docs[d].uri.clone();
        let stamp = self.lsp.notify("textDocument/didClose", json!({"textDocument": {"uri": uri}}));
        let doc = &mut self.docs[d];
        doc.notes.push((stamp, Kind::Close, 0));
        doc.open = false;
        doc.current = None;
        doc.current_label = None;
        doc.current_text = None;
    }

    fn post_symbols(&mut self, d: usize) -> u64 {
        let uri = self.docs[d].uri.clone();
        // a hover over the definition `rev_<id>` of the text sent last: its line is unique to that text, so the answer
        // is null (another text is current, or the analysis was cancelled) or names exactly this id
        if let (Some(text), Some(_)) = (self.docs[d].current_text.as_ref(), self.docs[d].current) {
            let lines = text.lines().count() as u64;
            if lines >= 4 && self.posted.len() % 2 == 0 {
                let definition_line = if text.contains("let dep = ") { lines - 4 } else { lines - 3 };
                let (id, stamp) = self.lsp.post("textDocument/hover", json!({"textDocument": {"uri": uri}, "position": {"line": definition_line, "character": 7}}));
                self.posted.push((id, stamp, d, "hover"));
            }
        }
        let (id, stamp) = self.lsp.post("textDocument/documentSymbol", json!({"textDocument": {"uri": uri}}));
        self.posted.push((id, stamp, d, "documentSymbol"));
        id
    }

    /// A document has settled when the diagnostics of its current version have been published (open), or when every
    /// close has been answered by the clearing publication (closed). An analysis that was overtaken need not publish.
    fn settled(&self, d: usize) -> bool {
        let doc = &self.docs[d];
        let publishes = || self.lsp.log.iter().filter(|r| r.message["method"] == "textDocument/publishDiagnostics" && r.message["params"]["uri"].as_str() == Some(doc.uri.as_str()));
        match doc.current_label {
            | Some(label) => publishes().any(|r| r.message["params"]["version"].as_i64() == Some(label)),
            | None => {
                let closes = doc.notes.iter().filter(|(_, k, _)| *k == Kind::Close).count();
                publishes().filter(|r| r.message["params"]["version"].is_null()).count() >= closes
            }
        }
    }

    /// Waits until every document has settled.
    fn quiesce(&mut self) -> Result<(), Wait> {
        loop {
            self.lsp.drain();
            if (0..self.docs.len()).all(|d| self.settled(d)) {
                return Ok(());
            }
            let from = self.lsp.log.len();
            match self.lsp.wait_for(from, QUIET, |_| true) {
                | Wait::Got(_) => {}
                | other => return Err(other),
            }
        }
    }
}

fn symbol_ids(result: &Value) -> Option<Vec<u64>> {
    let list = result.as_array()?;
    Some(list.iter().filter_map(|s| s["name"].as_str()).filter_map(|n| n.strip_prefix("rev_")).filter_map(|n| n.parse().ok()).collect())
}

/// Duration of one analysis of a text with `pad` padding lines (from didOpen to its acknowledgement), measured once.
fn calibrate(driver: &mut Driver, pad: u64) -> Result<Duration, Wait> {
    let d = driver.docs.len() - 1; // the scratch document
    let started = Instant::now();
    driver.edit(d, pad);
    driver.quiesce()?;
    let took = started.elapsed();
    driver.close(d);
    driver.quiesce()?;
    Ok(took)
}

pub fn run_lsp(cfg: &Cfg, index: u64, stats: &mut Stats) {
    let binary = cajun_binary();
    if !binary.is_file() {
        stats.harness_error(format!("language server binary {} is missing (bin/check builds it)", binary.display()));
        return;
    }
    let mut rng = Rng::for_case(cfg.seed, "C17/lsp", index);
    let dir = std::env::temp_dir().join(format!("zv-lsp-{}-{}-{}", std::process::id(), cfg.seed, index));
    let _ = std::fs::remove_dir_all(&dir);
    if std::fs::create_dir_all(&dir).is_err() {
        stats.harness_error("cannot create a scratch directory for the language-server leg".into());
        return;
    }
    let dir = dir.canonicalize().unwrap_or(dir);
    let outcome = drive(cfg, index, &mut rng, &dir, &binary, stats);
    let _ = std::fs::remove_dir_all(&dir);
    if let Err(why) = outcome {
        stats.inconclusive(&why);
    }
}

fn drive(cfg: &Cfg, index: u64, rng: &mut Rng, dir: &Path, binary: &Path, stats: &mut Stats) -> Result<(), String> {
    let names = ["main.zy", "other.zy", "dep.zy", "scratch.zy"];
    for n in names {
        std::fs::write(dir.join(n), "()").map_err(|e| format!("scratch file: {e}"))?;
    }
    let stderr_path = dir.join("server-stderr.txt");
    let lsp = Lsp::start(binary, Some(&stderr_path)).map_err(|e| format!("cannot start the language server: {e}"))?;
    let docs = names
        .iter()
        .map(|n| Doc { path: dir.join(n), uri: file_uri(&dir.join(n)), open: false, current: None, current_label: None, current_text: None, line_to_id: HashMap::new(), label_to_id: HashMap::new(), notes: Vec::new() })
        .collect();
    let mut driver = Driver { lsp, docs, next_id: 1, next_version: 1, posted: Vec::new(), imports_dep: false };
    let fail = |stats: &mut Stats, signature: &str, tag: String, detail: Value| {
        stats.violation(Violation { signature: signature.to_string(), tags: vec![tag], generator: "lsp".into(), index, detail });
    };
    match driver.lsp.request("initialize", json!({"processId": null, "rootUri": file_uri(dir), "capabilities": {}}), QUIET) {
        | Ok(_) => {}
        | Err(_) => {
            fail(stats, "lsp-server-exited", "initialize".into(), json!({"phase": "initialize"}));
            return Ok(());
        }
    }
    driver.lsp.notify("initialized", json!({}));

    // a big text makes the last, uncancellable phase of an analysis (line tables, tokens) long enough to aim at
    let pad: u64 = *rng.pick(&[3_000u64, 30_000, 60_000]);
    let took = match calibrate(&mut driver, pad) {
        | Ok(t) => t,
        | Err(w) => {
            report_wait(stats, index, "calibration", w);
            return Ok(());
        }
    };
    stats.cover("lsp_padding_lines", &pad.to_string());
    let histories = cfg.tier.pick(6, 14);
    for h in 0..histories {
        let kind = rng.below(6);
        let kind_name = ["reopen-race", "edit-race", "other-document-edited", "burst", "random", "imported-document-edited"][kind];
        stats.cover("lsp_history_kinds", kind_name);
        stats.count("lsp_histories");
        let log_from = driver.lsp.log.len();
        let posted_from = driver.posted.len();
        let notes_from: Vec<usize> = driver.docs.iter().map(|d| d.notes.len()).collect();
        // a pause aimed at a fraction of one analysis
        let aim = |rng: &mut Rng| -> Duration {
            let percent = 30 + rng.below(80) as u32; // 30% .. 110%
            took * percent / 100
        };
        match kind {
            | 0 => {
                // open a big text, close it while its analysis is in flight, reopen with a small one, ask at once
                driver.edit(0, pad);
                std::thread::sleep(aim(rng));
                driver.close(0);
                driver.edit(0, 0);
                if rng.chance(1, 2) {
                    std::thread::sleep(Duration::from_millis(rng.below(40) as u64));
                }
                driver.post_symbols(0);
            }
            | 1 => {
                // open a big text, replace it while its analysis is in flight, ask at once
                driver.edit(0, pad);
                std::thread::sleep(aim(rng));
                driver.edit(0, if rng.chance(1, 2) { 0 } else { pad });
                driver.post_symbols(0);
                if rng.chance(1, 2) {
                    std::thread::sleep(aim(rng));
                    driver.edit(0, 0);
                    driver.post_symbols(0);
                }
            }
            | 2 => {
                // an edit of another document cancels the analysis in flight (a write to the shared session)
                driver.edit(0, pad);
                std::thread::sleep(aim(rng));
                driver.edit(1, 0);
                driver.post_symbols(0);
                driver.post_symbols(1);
            }
            | 3 => {
                // a burst of edits without any pause, requests in between
                let n = 3 + rng.below(5);
                for _ in 0..n {
                    let d = rng.below(2);
                    match rng.below(5) {
                        | 0 if driver.docs[d].open => driver.close(d),
                        | 1 => {
                            driver.post_symbols(d);
                        }
                        | _ => {
                            driver.edit(d, if rng.chance(1, 3) { pad } else { 0 });
                        }
                    }
                }
                driver.post_symbols(0);
                driver.post_symbols(1);
            }
            | 5 => {
                // the root imports another open document; that document is edited, closed, reopened. At every quiescent
                // point the root's answers must be those of the current contents of both (checked inside)
                if let Err(w) = imported_document_history(&mut driver, rng, stats, index, binary) {
                    report_wait(stats, index, kind_name, w);
                    return Ok(());
                }
            }
            | _ => {
                let n = 4 + rng.below(8);
                for _ in 0..n {
                    let d = rng.below(2);
                    match rng.below(7) {
                        | 0 | 1 if driver.docs[d].open => driver.close(d),
                        | 2 | 3 => {
                            driver.post_symbols(d);
                        }
                        | 4 => std::thread::sleep(aim(rng) / 2),
                        | _ => {
                            driver.edit(d, if rng.chance(1, 2) { pad } else { 0 });
                        }
                    }
                }
            }
        }
        // all answers, then quiescence
        let posted: Vec<(u64, u64, usize, &'static str)> = driver.posted[posted_from..].to_vec();
        for (id, _, _, _) in &posted {
            if let Err(w) = driver.lsp.response(*id, QUIET) {
                report_wait(stats, index, kind_name, w);
                return Ok(());
            }
        }
        if let Err(w) = driver.quiesce() {
            report_wait(stats, index, kind_name, w);
            return Ok(());
        }
        stats.evaluations += 1;

        // (a) answers against what had been sent before the request
        for (id, stamp, d, method) in &posted {
            let doc = &driver.docs[*d];
            let answer = driver.lsp.log.iter().find(|r| r.message.get("method").is_none() && r.message["id"].as_u64() == Some(*id)).map(|r| r.message["result"].clone()).unwrap_or(Value::Null);
            stats.count("lsp_answers");
            let ids = if *method == "hover" {
                stats.count("lsp_hover_answers");
                // "rev_<k> : Unit" in the hover text
                answer["contents"]["value"].as_str().map(|text| text.split(|c: char| !(c.is_ascii_alphanumeric() || c == '_')).filter_map(|w| w.strip_prefix("rev_")).filter_map(|n| n.parse::<u64>().ok()).collect::<Vec<u64>>())
            } else {
                symbol_ids(&answer)
            };
            let Some(ids) = ids else {
                stats.count("lsp_answers_null");
                continue;
            };
            let last = doc.notes.iter().filter(|(s, _, _)| s < stamp).last();
            let floor = match last {
                | Some((_, Kind::Close, _)) | None => u64::MAX, // closed: no text of the editor may be reported
                | Some((_, _, id)) => *id,
            };
            for k in &ids {
                stats.count("lsp_answers_identified");
                if *k < floor || !doc.label_to_id.values().any(|v| v == k) {
                    fail(
                        stats,
                        "answer-from-contents-older-than-request",
                        kind_name.to_string(),
                        json!({"history": kind_name, "document": doc.path.display().to_string(), "answer_names_rev": k, "contents_sent_before_the_request": if floor == u64::MAX { json!("closed") } else { json!(floor) },
                               "notifications": doc.notes.iter().map(|(s, k, i)| json!([s, format!("{k:?}"), i])).collect::<Vec<_>>(), "request_stamp": stamp, "padding_lines": pad, "analysis_ms": took.as_millis() as u64}),
                    );
                } else if *k == floor {
                    stats.count("lsp_answers_current");
                } else {
                    stats.count("lsp_answers_newer_than_request");
                }
            }
        }
        // (b) published diagnostics against their version label
        let mut order_hash_input = String::new();
        for r in &driver.lsp.log[log_from..] {
            if r.message["method"] != "textDocument/publishDiagnostics" {
                if r.message.get("method").is_none() {
                    order_hash_input.push_str(&format!("r{};", r.message["id"]));
                }
                continue;
            }
            let params = &r.message["params"];
            let Some(doc) = driver.docs.iter().find(|d| Some(d.uri.as_str()) == params["uri"].as_str()) else { continue };
            let label = params["version"].as_i64();
            order_hash_input.push_str(&format!("p{}:{:?};", doc.path.file_name().and_then(|n| n.to_str()).unwrap_or(""), label));
            stats.count("lsp_publishes");
            let diagnostics = params["diagnostics"].as_array().cloned().unwrap_or_default();
            if diagnostics.is_empty() {
                stats.count("lsp_publishes_empty");
            }
            for diag in &diagnostics {
                if diag["code"] != "unattached-text-block" {
                    // every text sent is a valid program with exactly one warning
                    let message = diag["message"].as_str().unwrap_or("");
                    stats.cover("lsp_other_diagnostics", &message.chars().take(40).collect::<String>());
                    fail(
                        stats,
                        "unexpected-diagnostic-for-a-valid-document",
                        message.split_whitespace().take(3).collect::<Vec<_>>().join(" "),
                        json!({"history": kind_name, "document": doc.path.display().to_string(), "version_label": label, "diagnostic": diag, "padding_lines": pad}),
                    );
                    continue;
                }
                let line = diag["range"]["start"]["line"].as_u64().unwrap_or(u64::MAX);
                let described = doc.line_to_id.get(&line).copied();
                let labelled = label.and_then(|l| doc.label_to_id.get(&l).copied());
                match (described, labelled) {
                    | (Some(k), Some(l)) if k < l => fail(
                        stats,
                        "diagnostics-of-older-contents-under-newer-version",
                        kind_name.to_string(),
                        json!({"history": kind_name, "document": doc.path.display().to_string(), "version_label": label, "label_is_rev": l, "diagnostics_describe_rev": k, "padding_lines": pad}),
                    ),
                    | (None, _) => fail(
                        stats,
                        "diagnostics-of-unknown-contents",
                        kind_name.to_string(),
                        json!({"history": kind_name, "document": doc.path.display().to_string(), "version_label": label, "warning_line": line}),
                    ),
                    | (Some(k), Some(l)) if k > l => stats.count("lsp_publishes_newer_than_label"),
                    | _ => stats.count("lsp_publishes_matching_label"),
                }
            }
        }
        stats.nontrivial(format!("{kind_name}/{order_hash_input}").as_bytes());
        stats.cover("lsp_arrival_orders", &format!("{:x}", hash64(order_hash_input.as_bytes()) & 0xffffff));
        let _ = notes_from;

        // (c) at quiescence every open document answers with its current text
        for d in 0..2 {
            let Some(current) = driver.docs[d].current else { continue };
            // what the client is left looking at: the last diagnostics published for the document
            let uri_here = driver.docs[d].uri.clone();
            if let Some(last) = driver.lsp.log.iter().rev().find(|r| r.message["method"] == "textDocument/publishDiagnostics" && r.message["params"]["uri"].as_str() == Some(uri_here.as_str())) {
                let described: Vec<u64> = last.message["params"]["diagnostics"]
                    .as_array()
                    .map(|a| a.iter().filter(|x| x["code"] == "unattached-text-block").filter_map(|x| x["range"]["start"]["line"].as_u64()).filter_map(|l| driver.docs[d].line_to_id.get(&l).copied()).collect())
                    .unwrap_or_default();
                let label = last.message["params"]["version"].as_i64();
                let class = if described == vec![current] {
                    "current"
                } else if described.is_empty() {
                    "empty"
                } else {
                    "older"
                };
                stats.count(&format!("lsp_last_publish_at_quiescence_{class}"));
                if class != "current" {
                    let labelled_rev = label.and_then(|l| driver.docs[d].label_to_id.get(&l).copied());
                    // the exchange about this document in this history, in clock order
                    let mut exchange: Vec<(u64, String)> = driver.lsp.sent.iter().filter(|(st, _, _, u, _)| *st >= driver.lsp.log.get(log_from).map_or(0, |r| r.stamp).saturating_sub(200) && u == &uri_here).map(|(st, id, m, _, v)| (*st, format!("sent {m} id={id} version={v}"))).collect();
                    exchange.extend(driver.lsp.log[log_from..].iter().filter(|r| r.message["params"]["uri"].as_str() == Some(uri_here.as_str())).map(|r| (r.stamp, format!("received publishDiagnostics version={} diagnostics={}", r.message["params"]["version"], r.message["params"]["diagnostics"].as_array().map_or(String::new(), |a| a.iter().map(|x| format!("[line {} {}]", x["range"]["start"]["line"], x["message"].as_str().unwrap_or("").chars().take(90).collect::<String>())).collect::<Vec<_>>().join(" "))))));
                    exchange.sort();
                    let exchange: Vec<String> = exchange.into_iter().map(|(st, what)| format!("{st}: {what}")).collect();
                    fail(
                        stats,
                        "diagnostics-left-at-quiescence-are-not-those-of-the-current-contents",
                        format!("{class}-diagnostics-left"),
                        json!({"history": kind_name, "document": driver.docs[d].path.display().to_string(), "current_rev": current, "current_text_has_one_warning": true, "last_publication": {"version_label": label, "label_is_rev": labelled_rev, "describes_revs": described}, "exchange_about_the_document": exchange,
                               "padding_lines": pad, "analysis_ms": took.as_millis() as u64}),
                    );
                }
            }
            let uri = driver.docs[d].uri.clone();
            let answer = match driver.lsp.request("textDocument/documentSymbol", json!({"textDocument": {"uri": uri}}), QUIET) {
                | Ok(m) => m["result"].clone(),
                | Err(w) => {
                    report_wait(stats, index, kind_name, w);
                    return Ok(());
                }
            };
            stats.count("lsp_quiescent_answers");
            let ids = symbol_ids(&answer);
            if ids.as_deref() != Some(&[current][..]) {
                // does it ever converge? (for the record only)
                let mut later = Vec::new();
                for _ in 0..5 {
                    std::thread::sleep(Duration::from_millis(50));
                    if let Ok(m) = driver.lsp.request("textDocument/documentSymbol", json!({"textDocument": {"uri": driver.docs[d].uri.clone()}}), QUIET) {
                        later.push(symbol_ids(&m["result"]));
                    }
                }
                fail(
                    stats,
                    "stale-answer-at-quiescence",
                    kind_name.to_string(),
                    json!({"history": kind_name, "document": driver.docs[d].path.display().to_string(), "current_rev": current, "answer_revs": ids, "five_later_answers": later, "padding_lines": pad, "analysis_ms": took.as_millis() as u64}),
                );
            }
        }
        // (d) the same answers as a fresh server on the same texts
        if let Err(w) = compare_with_fresh_server(&mut driver, binary, stats, index, kind_name) {
            report_wait(stats, index, kind_name, w);
            return Ok(());
        }
        // leave both documents closed for the next history
        for d in 0..2 {
            if driver.docs[d].open {
                driver.close(d);
            }
        }
        if let Err(w) = driver.quiesce() {
            report_wait(stats, index, kind_name, w);
            return Ok(());
        }
    }
    // panics of analysis threads (the server survives them and publishes "analysis task failed")
    let stderr_text = std::fs::read_to_string(&stderr_path).unwrap_or_default();
    let panics: Vec<&str> = stderr_text.lines().filter(|l| l.contains("panicked at")).collect();
    for (i, line) in panics.iter().enumerate() {
        let site = line.split("panicked at ").nth(1).unwrap_or("").trim_end_matches(':').to_string();
        stats.cover("lsp_server_panic_sites", &site);
        if i < 3 {
            let at = stderr_text.find(line).unwrap_or(0);
            let excerpt: String = stderr_text[at..].chars().take(600).collect();
            stats.violation(Violation { signature: format!("lsp-analysis-thread-panicked {site}"), tags: vec!["server-stderr".into()], generator: "lsp".into(), index, detail: json!({"stderr_excerpt": excerpt, "padding_lines": pad}) });
        }
    }
    if stats.samples.len() < 2 {
        stats.sample(json!({"language_server_history": {"padding_lines": pad, "one_analysis_ms": took.as_millis() as u64, "messages_received": driver.lsp.log.len(), "messages_sent": driver.lsp.sent.len()}}));
    }
    let summary: BTreeMap<String, usize> = BTreeMap::from([("received".to_string(), driver.lsp.log.len()), ("sent".to_string(), driver.lsp.sent.len())]);
    stats.add("lsp_messages_received", summary["received"] as u64);
    stats.add("lsp_messages_sent", summary["sent"] as u64);
    driver.lsp.finish();
    Ok(())
}

/// `dep.zy` in one of two variants whose type shows in a hover over its use in the importing root.
fn send_dep(driver: &mut Driver, string_variant: bool) {
    let d = 2;
    let version = driver.next_version;
    driver.next_version += 1;
    let source = if string_variant { "\"s\"\n" } else { "()\n" };
    let uri = driver.docs[d].uri.clone();
    let (stamp, kind) = if driver.docs[d].open {
        (driver.lsp.notify("textDocument/didChange", json!({"textDocument": {"uri": uri, "version": version}, "contentChanges": [{"text": source}]})), Kind::Change)
    } else {
        (driver.lsp.notify("textDocument/didOpen", json!({"textDocument": {"uri": uri, "languageId": "zydeco", "version": version, "text": source}})), Kind::Open)
    };
    let doc = &mut driver.docs[d];
    doc.notes.push((stamp, kind, 0));
    doc.open = true;
    doc.current_label = Some(version);
    doc.current_text = Some(source.to_string());
}

fn imported_document_history(driver: &mut Driver, rng: &mut Rng, stats: &mut Stats, index: u64, binary: &Path) -> Result<(), Wait> {
    let mut variant = rng.chance(1, 2);
    send_dep(driver, variant);
    driver.imports_dep = true;
    let root_pad = if rng.chance(1, 3) { 2_000 } else { 0 };
    let mut root = driver.edit(0, root_pad);
    driver.imports_dep = false;
    let steps = 2 + rng.below(4);
    for step in 0..=steps {
        driver.quiesce()?;
        // hover over the use of `dep` in `  (rev_<id>, dep)`
        let line = root_pad + root + 4;
        let character = 3 + format!("rev_{root}").len() as u64 + 2;
        let uri = driver.docs[0].uri.clone();
        let answer = driver.lsp.request("textDocument/hover", json!({"textDocument": {"uri": uri}, "position": {"line": line, "character": character}}), QUIET)?;
        let shown = answer["result"]["contents"]["value"].as_str().unwrap_or("").to_string();
        // a closed `dep.zy` is read from disk, where it is `()`
        let expected = if driver.docs[2].open && variant { "dep : String" } else { "dep : Unit" };
        stats.count("lsp_quiescent_answers");
        stats.count("lsp_import_hovers");
        if !shown.contains(expected) {
            stats.violation(Violation {
                signature: "stale-answer-at-quiescence".into(),
                tags: vec!["imported-document-edited".into()],
                generator: "lsp".into(),
                index,
                detail: json!({"history": "imported-document-edited", "step": step, "hover_over_the_import_in_the_root": answer["result"], "expected_to_show": expected,
                               "imported_document": if driver.docs[2].open { if variant { "open, a string" } else { "open, unit" } } else { "closed (unit on disk)" }}),
            });
        }
        if step % 2 == 0 {
            compare_with_fresh_server(driver, binary, stats, index, "imported-document-edited")?;
        }
        if step == steps {
            break;
        }
        match rng.below(6) {
            | 0 if driver.docs[2].open => driver.close(2),
            | 1 => {
                // the root itself is edited as well (it keeps importing)
                driver.imports_dep = true;
                root = driver.edit(0, root_pad);
                driver.imports_dep = false;
            }
            | _ => {
                variant = !variant;
                send_dep(driver, variant);
            }
        }
    }
    if driver.docs[2].open {
        driver.close(2);
    }
    Ok(())
}

/// The answers a server gives about the open documents: symbols, semantic tokens, a hover in the last line but one
/// of the block (the use of the defined names), for every open document in order.
fn answers_about(lsp: &mut Lsp, open: &[(String, String)]) -> Result<Vec<(String, Value)>, Wait> {
    let mut out = Vec::new();
    for (uri, source) in open {
        let symbols = lsp.request("textDocument/documentSymbol", json!({"textDocument": {"uri": uri}}), QUIET)?;
        out.push((format!("documentSymbol {uri}"), symbols["result"].clone()));
        let tokens = lsp.request("textDocument/semanticTokens/full", json!({"textDocument": {"uri": uri}}), QUIET)?;
        out.push((format!("semanticTokens {uri}"), tokens["result"]["data"].clone()));
        let lines = source.lines().count() as u64;
        if lines >= 2 {
            for character in [3u64, 10] {
                let position = json!({"line": lines - 2, "character": character});
                let hover = lsp.request("textDocument/hover", json!({"textDocument": {"uri": uri}, "position": position}), QUIET)?;
                out.push((format!("hover {uri} {}:{character}", lines - 2), hover["result"].clone()));
                let definition = lsp.request("textDocument/definition", json!({"textDocument": {"uri": uri}, "position": position}), QUIET)?;
                out.push((format!("definition {uri} {}:{character}", lines - 2), definition["result"].clone()));
                let references = lsp.request("textDocument/references", json!({"textDocument": {"uri": uri}, "position": position, "context": {"includeDeclaration": true}}), QUIET)?;
                out.push((format!("references {uri} {}:{character}", lines - 2), references["result"].clone()));
            }
        }
    }
    Ok(out)
}

/// "The same results as if executed one at a time": at a quiescent point the long-lived server's answers about the
/// open documents are compared with those of a fresh server that has only ever seen the current texts.
fn compare_with_fresh_server(driver: &mut Driver, binary: &Path, stats: &mut Stats, index: u64, history: &str) -> Result<(), Wait> {
    let open: Vec<(String, String)> = driver.docs.iter().filter_map(|d| d.current_text.as_ref().map(|t| (d.uri.clone(), t.clone()))).collect();
    if open.is_empty() {
        return Ok(());
    }
    let own = answers_about(&mut driver.lsp, &open)?;
    let Ok(mut fresh) = Lsp::start(binary, None) else { return Ok(()) };
    let setup = (|| -> Result<Vec<(String, Value)>, Wait> {
        fresh.request("initialize", json!({"processId": null, "capabilities": {}}), QUIET)?;
        fresh.notify("initialized", json!({}));
        for (uri, source) in &open {
            fresh.notify("textDocument/didOpen", json!({"textDocument": {"uri": uri, "languageId": "zydeco", "version": 1, "text": source}}));
        }
        // wait for one publication per document: the fresh server is quiescent too
        for (uri, _) in &open {
            match fresh.wait_for(0, QUIET, |r| r.message["method"] == "textDocument/publishDiagnostics" && r.message["params"]["uri"].as_str() == Some(uri.as_str()) && r.message["params"]["version"].as_i64() == Some(1)) {
                | Wait::Got(_) => {}
                | other => return Err(other),
            }
        }
        answers_about(&mut fresh, &open)
    })();
    let reference = match setup {
        | Ok(r) => r,
        | Err(_) => {
            // the reference itself failed: no verdict on the long-lived server
            stats.inconclusive("fresh reference server did not answer");
            return Ok(());
        }
    };
    fresh.finish();
    stats.count("lsp_differential_comparisons");
    for ((what, mine), (_, theirs)) in own.iter().zip(reference.iter()) {
        stats.count("lsp_differential_answers");
        if mine != theirs {
            let method = what.split_whitespace().next().unwrap_or("").to_string();
            stats.violation(Violation {
                signature: format!("quiescent-answer-differs-from-fresh-server {method}"),
                tags: vec![history.to_string()],
                generator: "lsp".into(),
                index,
                detail: json!({"history": history, "request": what, "long_lived_server": mine.to_string().chars().take(1200).collect::<String>(), "fresh_server_on_the_same_texts": theirs.to_string().chars().take(1200).collect::<String>(),
                               "open_documents": open.iter().map(|(u, t)| json!({"uri": u, "bytes": t.len()})).collect::<Vec<_>>()}),
            });
            break;
        }
    }
    Ok(())
}

fn report_wait(stats: &mut Stats, index: u64, phase: &str, w: Wait) {
    let signature = match w {
        | Wait::Closed => "lsp-server-exited",
        | Wait::Silent => "lsp-no-progress-for-120s",
        | Wait::Got(_) => return,
    };
    stats.violation(Violation { signature: signature.to_string(), tags: vec![phase.to_string()], generator: "lsp".into(), index, detail: json!({"phase": phase}) });
}
