//! C13 — formatting never loses source text.

use crate::core::*;
use crate::e2::{self, mutate, scan};
use crate::props::fmtwork;
use crate::util::rng::Rng;
use serde_json::json;

pub fn def() -> PropertyDef {
    PropertyDef {
        id: "C13",
        title: "Formatting never loses source text",
        generators,
        extra: no_extra,
        rule: "workload: the C12 (source, options) pairs plus a comment-placement sweep: for each seed with <= 150 tokens, every token \
               gap x {line, doc-line, block, nested block} comment (all gaps in thorough, a seeded sample in quick), alone and in pairs. \
               Oracle (independent scanner on input and output): identical ordered list of comments (kind, text); every output code token \
               aligns with an input token, input tokens may only vanish in the removal-only classes (redundant parentheses/commas, pun \
               collapse, telescope merges) and only parentheses may appear; literals compare by value; each comment stays between the same \
               two surviving atoms. distinct = (input hash, options); non-trivial = the input has >= 1 comment and >= 5 code tokens.",
        assumptions: &[
            "the harness scanner's reading of the lexical grammar",
            "side preservation is judged on atoms (identifiers, constructor/destructor names, literals): the formatter by design floats a comment forward over pure punctuation and keywords",
        ],
        floor: (1_000, 30_000),
        on_case_death: |_, _, _, death| Death::Inconclusive(format!("formatter did not finish ({death}); totality is C12's subject")),
    }
}

fn generators(cfg: &Cfg) -> Vec<Generator> {
    vec![
        Generator { name: "format", total: fmtwork::total(cfg), run: run_format, case_cpu_limit_s: fmtwork::CPU_BUDGET_S },
        Generator { name: "sweep", total: sweep_seeds(cfg), run: run_sweep, case_cpu_limit_s: 120 },
    ]
}

/* ----------------------------------- the oracle ----------------------------------- */

#[derive(Clone, Debug, PartialEq)]
enum Norm {
    Text(String),
    Int(i128),
    Float(u64),
    Str(String),
}

fn normalize(t: &scan::Token, src: &str) -> Norm {
    let s = t.text(src);
    match t.kind {
        | scan::Kind::Int => s.parse::<i128>().map(Norm::Int).unwrap_or_else(|_| Norm::Text(s.to_string())),
        | scan::Kind::Float => s.parse::<f64>().map(|f| Norm::Float(f.to_bits())).unwrap_or_else(|_| Norm::Text(s.to_string())),
        | scan::Kind::Str | scan::Kind::Char => Norm::Str(unescape(&s[1..s.len() - 1])),
        | scan::Kind::Keyword if s == "define" => Norm::Text("def".into()),
        | _ => Norm::Text(s.to_string()),
    }
}

fn unescape(s: &str) -> String {
    let mut out = String::new();
    let mut chars = s.chars();
    while let Some(c) = chars.next() {
        if c == '\\' {
            match chars.next() {
                | Some('n') => out.push('\n'),
                | Some('r') => out.push('\r'),
                | Some('t') => out.push('\t'),
                | Some(other) => out.push(other),
                | None => out.push('\\'),
            }
        } else {
            out.push(c);
        }
    }
    out
}

fn comment_norm(t: &scan::Token, src: &str) -> (scan::Kind, String) {
    let s = t.text(src);
    match t.kind {
        // the blanks between the marker and the text, and at the end of the line, are layout (the formatter writes
        // `-- text`); everything else on the line, including non-ASCII white space, is content
        | scan::Kind::LineComment => {
            // (a carriage return before the line break belongs to the line terminator)
            let body = s.trim_end_matches('\n').trim_end_matches('\r');
            let text = body.strip_prefix("--").unwrap_or(body);
            (t.kind, text.trim_matches(|c| c == ' ' || c == '\t').to_string())
        }
        // a `--|` line is text: it may be the string a `@(literal)` splice denotes or a documentation line. Only the ONE
        // blank after the marker is layout (the formatter writes `--| text` for `--|text`); every other character,
        // trailing blanks and tabs included, is content
        | scan::Kind::DocLine => {
            let body = s.trim_end_matches('\n').trim_end_matches('\r');
            let text = body.strip_prefix("--|").unwrap_or(body);
            (t.kind, text.strip_prefix(' ').unwrap_or(text).to_string())
        }
        // the formatter re-indents the continuation lines of a multi-line block comment: compare line by line
        // modulo surrounding whitespace
        | _ => (t.kind, s.lines().map(|l| l.trim()).collect::<Vec<_>>().join("\n")),
    }
}

/// The contents of the `--|` text lines of a source, in order (what a `@(literal)` splice or a `@[doc]` annotation reads).
pub fn text_lines(src: &str) -> Vec<String> {
    scan::scan(src).iter().filter(|t| t.kind == scan::Kind::DocLine).map(|t| comment_norm(t, src).1).collect()
}

// `end` goes when the alternative abstraction syntax `comatch params => body end` is printed as `fn params => body`
/// Tokens the formatter may legitimately add or remove: grouping parentheses and trailing commas, the pieces of a
/// pun (`x = x` <-> `= x`, `/x = x` <-> `/x`), telescope merges (`=> fn`, `. forall`, …), the alternative abstraction
/// spelling (`comatch p => b end` = `fn p => b`), and the metadata sugar (`@[m] _` = `@(m)`). They are left out of the
/// comparison; everything else (identifiers, constructor/destructor names, literals by value, all other keywords
/// and operators) must appear in the same order.
const INSIGNIFICANT: &[&str] = &["(", ")", "[", "]", ",", "=>", ".", "=", "fn", "comatch", "end", "forall", "pi", "sigma", "exists"];

#[derive(Clone, Debug)]
struct Sig {
    norm: Norm,
    /// index into the full token list (code + comments)
    position: usize,
    anchoring: bool,
    /// inside a metadata annotation (its own identifier namespace: keywords are plain names there)
    in_meta: bool,
}

/// The significant code tokens of a text, puns collapsed (adjacent equal identifiers count once).
fn significant(tokens: &[scan::Token], src: &str) -> Vec<Sig> {
    let code: Vec<(usize, &scan::Token)> = tokens.iter().enumerate().filter(|(_, t)| t.is_code()).collect();
    let text = |k: usize| code[k].1.text(src);
    let mut out: Vec<Sig> = Vec::new();
    let mut meta_depth: Option<usize> = None;
    let mut meta_square = false;
    for k in 0..code.len() {
        let (position, t) = code[k];
        let s = t.text(src);
        // metadata brackets: contents are never anchors; `@[m] _` drops its hole payload
        let mut in_meta = meta_depth.is_some();
        if let Some(d) = meta_depth {
            match s {
                | "(" | "[" => meta_depth = Some(d + 1),
                | ")" | "]" => {
                    meta_depth = if d <= 1 { None } else { Some(d - 1) };
                }
                | _ => {}
            }
        } else if s == "@" && k + 1 < code.len() && matches!(text(k + 1), "(" | "[") {
            meta_depth = Some(0);
            meta_square = text(k + 1) == "[";
            in_meta = true;
        }
        // (possibly parenthesised: `@[m] (_)`)
        let prev_non_paren = (0..k).rev().map(|j| text(j)).find(|x| *x != "(");
        if s == "_" && prev_non_paren == Some("]") && meta_depth.is_none() && meta_square {
            // the hole payload of `@[m] _`
            meta_square = false;
            continue;
        }
        if INSIGNIFICANT.contains(&s) {
            continue;
        }
        let is_ident = matches!(t.kind, scan::Kind::Lower | scan::Kind::Upper);
        let norm = normalize(t, src);
        // pun: an identifier equal to the previous significant token, with only `=` / parentheses between them
        if is_ident {
            if let Some(prev) = out.last() {
                // exactly `=` then optional opening parentheses between the two occurrences: `x = x`, `x = (x as T)`
                let between: Vec<&str> = (0..k).filter(|j| code[*j].0 > prev.position).map(|j| text(j)).collect();
                // a normalisation applied alike to input and output, so it must not depend on tokens the formatter
                // adds or removes: parentheses and commas may sit on either side of the `=`
                // a comma is tolerated only as a trailing comma (directly before a closing parenthesis): `(a, x,) = x`;
                // `(/x, = x)` is a separate field, not a pun with the previous `x`
                let trailing_commas_only = between.iter().enumerate().all(|(n, b)| *b != "," || between.get(n + 1) == Some(&")"));
                // (a chain `x = x = (x)` is printed `x = = x`: the inner field is punned, the outer one cannot be; any number of
                // `=` may therefore sit between two occurrences that count once — which level of naming was kept is C12's
                // subject, decided on the desugared term)
                let is_pun = between.iter().filter(|b| **b == "=").count() >= 1 && between.iter().all(|b| matches!(*b, "=" | "(" | ")" | ",")) && trailing_commas_only;
                // closing parentheses (and a trailing comma) belong to the first occurrence, opening ones to the second:
                // `(x) = (x)`; in `(.., = x,) (= x, ..)` the two are fields of different tuples
                let first_eq = between.iter().position(|b| *b == "=");
                let last_eq = between.iter().rposition(|b| *b == "=");
                let well_nested = match (first_eq, last_eq) {
                    | (Some(f), Some(l)) => between[..f].iter().all(|b| matches!(*b, ")" | ",")) && between[l + 1..].iter().all(|b| *b == "(") && between[f..=l].iter().all(|b| *b == "="),
                    | _ => false,
                };
                let is_pun = is_pun && well_nested;
                if prev.norm == norm && is_pun {
                    // the surviving occurrence is the binder / payload: it anchors
                    // the surviving occurrence is the binder / payload (the later one): it is the anchor
                    let last = out.last_mut().unwrap();
                    last.anchoring = !in_meta && t.kind != scan::Kind::Dtor;
                    last.position = position;
                    continue;
                }
            }
        }
        let after_slash = k >= 1 && text(k - 1) == "/";
        let label = k + 1 < code.len() && matches!(text(k + 1), "=" | "::");
        let arm_name = k >= 1 && text(k - 1) == "|" && k + 1 < code.len() && text(k + 1) == ":";
        let projected_field = after_slash && k >= 2 && !matches!(text(k - 2), "(" | ";" | ",");
        let anchoring = mutate::is_atom(t) && !in_meta && !label && !arm_name && !projected_field && t.kind != scan::Kind::Dtor;
        out.push(Sig { norm, position, anchoring, in_meta });
    }
    out
}

/// Compare input and output of the formatter. Err = (signature, description).
pub fn compare(input: &str, output: &str) -> Result<(), (String, String)> {
    let ti = scan::scan(input);
    let to = scan::scan(output);
    // (1) comments
    let ci: Vec<(scan::Kind, String)> = ti.iter().filter(|t| t.is_comment()).map(|t| comment_norm(t, input)).collect();
    let co: Vec<(scan::Kind, String)> = to.iter().filter(|t| t.is_comment()).map(|t| comment_norm(t, output)).collect();
    if ci != co {
        let at = ci.iter().zip(co.iter()).position(|(a, b)| a != b).unwrap_or(ci.len().min(co.len()));
        return Err((
            if co.len() < ci.len() { "comment-lost" } else if co.len() > ci.len() { "comment-duplicated" } else { "comment-changed" }.to_string(),
            format!("{} comments in, {} out; first difference at comment #{}: {:?} vs {:?}", ci.len(), co.len(), at, ci.get(at), co.get(at)),
        ));
    }
    // (5) verbatim regions are copied unchanged: the source slice from the annotation to the end of its payload occurs
    // byte for byte in the output (regions in source order, searched left to right)
    if let Some(regions) = e2::verbatim_regions(input) {
        let mut from = 0usize;
        for (k, (start, end)) in regions.iter().enumerate() {
            let slice = &input[*start..*end];
            match output[from..].find(slice) {
                | Some(at) => from += at + slice.len(),
                | None => {
                    // what became of it: the same tokens with other white space, or something else
                    let squeeze = |s: &str| s.split_whitespace().collect::<Vec<_>>().join(" ");
                    let kind = if squeeze(output).contains(&squeeze(slice)) { "white-space-changed" } else { "content-changed" };
                    return Err((
                        format!("verbatim-region-not-copied {}", kind),
                        format!("verbatim region #{} (bytes {}..{}) {:?} does not occur unchanged in the output", k, start, end, slice),
                    ));
                }
            }
        }
    }
    // (2) significant code tokens, in order
    let si = significant(&ti, input);
    let so = significant(&to, output);
    let ni: Vec<&Norm> = si.iter().map(|s| &s.norm).collect();
    let no: Vec<&Norm> = so.iter().map(|s| &s.norm).collect();
    if ni != no {
        let at = ni.iter().zip(no.iter()).position(|(a, b)| a != b).unwrap_or(ni.len().min(no.len()));
        let ctx = |v: &Vec<&Norm>| v[at.saturating_sub(4)..(at + 4).min(v.len())].iter().map(|n| format!("{:?}", n)).collect::<Vec<_>>().join(" ");
        return Err((
            "code-token-lost-or-changed".to_string(),
            format!("{} significant tokens in, {} out; first difference at #{}: input [{}] output [{}]", ni.len(), no.len(), at, ctx(&ni), ctx(&no)),
        ));
    }
    // (3) side preservation. The significant token sequences are equal, so a comment's place is the index of the
    // next significant token. The formatter attaches a comment to the next *entity*: it may float forward over names
    // that are only part of an entity (an arm's constructor, a projected field, metadata contents) and over
    // punctuation, but never backward, and never across a separator that starts or ends a construct.
    // (closing keywords and punctuation such as `in`, `that`, `;`, `|`, `)` are crossed by design: the comment
    // becomes the leading comment of the next entity; that entity's own first keyword, or a literal, is not)
    const SEPARATORS: &[&str] = &["let", "def", "do", "param", "match", "begin", "data", "codata", "ret"];
    let next_index = |tokens: &[scan::Token], sig: &[Sig]| -> Vec<usize> {
        tokens.iter().enumerate().filter(|(_, t)| t.is_comment()).map(|(position, _)| sig.iter().filter(|s| s.position < position).count()).collect()
    };
    let (xi, xo) = (next_index(&ti, &si), next_index(&to, &so));
    for (k, (a, b)) in xi.iter().zip(xo.iter()).enumerate() {
        let comment = ti.iter().filter(|t| t.is_comment()).nth(k).map(|t| t.text(input).to_string()).unwrap_or_default();
        let tok = |n: usize| si.get(n).map(|s| ti[s.position].text(input).to_string()).unwrap_or_else(|| "<end>".into());
        if b < a {
            return Err((
                "comment-moved-backward".to_string(),
                format!("comment #{} {:?} preceded {:?} (token #{}) in the input but precedes {:?} (token #{}) in the output", k, comment, tok(*a), a, tok(*b), b),
            ));
        }
        let is_separator = |n: usize| -> bool {
            let t = &ti[si[n].position];
            (!si[n].in_meta && SEPARATORS.contains(&t.text(input))) || (si[n].anchoring && matches!(t.kind, scan::Kind::Int | scan::Kind::Float | scan::Kind::Str | scan::Kind::Char))
        };
        if let Some(crossed) = (*a..*b).find(|n| is_separator(*n)) {
            return Err((
                "comment-moved-across-separator".to_string(),
                format!("comment #{} {:?} floated from before {:?} (token #{}) to before {:?} (token #{}), across the separator {:?}", k, comment, tok(*a), a, tok(*b), b, tok(crossed)),
            ));
        }
    }
    Ok(())
}

/* ---------------------------------- generators ---------------------------------- */

fn judge(stats: &mut Stats, generator: &str, index: u64, what: &str, input: &str, output: &str) {
    let tokens = scan::scan(input);
    let comments = tokens.iter().filter(|t| t.is_comment()).count();
    if comments >= 1 && tokens.len() - comments >= 5 {
        stats.nontrivial(format!("{}/{}", crate::util::rng::hash64(input.as_bytes()), what).as_bytes());
    }
    stats.add("comments_checked", comments as u64);
    if let Err((signature, problem)) = compare(input, output) {
        stats.violation(Violation {
            signature,
            tags: crate::props::c12::tags_for(input),
            generator: generator.into(),
            index,
            detail: json!({"what": what, "problem": problem, "input": input, "output": output}),
        });
    }
}

fn run_format(cfg: &Cfg, index: u64, stats: &mut Stats) {
    let case = fmtwork::case(cfg, index);
    stats.evaluations += 1;
    if case.deep() {
        stats.count("deep_nesting_partition_skipped");
        return;
    }
    let input = case.input();
    let Ok(Ok(output)) = case.format(&input) else {
        stats.count("not_formatted");
        return;
    };
    stats.count("formatted");
    judge(stats, "format", index, &case.describe(), &input, &output);
    if stats.samples.is_empty() {
        stats.sample(json!({"case": case.describe(), "input_excerpt": input.chars().take(200).collect::<String>()}));
    }
}

fn sweep_seeds(cfg: &Cfg) -> u64 {
    let small = e2::corpus().iter().filter(|(_, t)| scan::scan(t).len() <= 150).count() as u64;
    small + cfg.tier.pick(120, 3_000)
}

fn sweep_seed(cfg: &Cfg, n: u64) -> Option<String> {
    let small: Vec<String> = e2::corpus().into_iter().filter(|(_, t)| scan::scan(t).len() <= 150).map(|(_, t)| t).collect();
    if (n as usize) < small.len() {
        return Some(small[n as usize].clone());
    }
    let mut rng = Rng::for_case(cfg.seed, "C13/sweepseed", n);
    // a third of the seeds are verbatim regions in context, a third carry format directives
    let text = match n % 3 {
        | 0 => fmtwork::verbatim_seed(&mut rng),
        | 1 => e2::grammar::source(&mut rng, true),
        | _ => e2::grammar::source(&mut rng, false),
    };
    if scan::scan(&text).len() <= 150 && fmtwork::delimiter_nesting(&text) < fmtwork::COSTLY_NESTING { Some(text) } else { None }
}

fn run_sweep(cfg: &Cfg, index: u64, stats: &mut Stats) {
    let Some(seed) = sweep_seed(cfg, index) else { return };
    if !matches!(e2::parse(&seed), Ok(Ok(_))) || fmtwork::delimiter_nesting(&seed) >= fmtwork::DEEP_NESTING {
        return;
    }
    let tokens = scan::scan(&seed);
    let n = tokens.len();
    let mut rng = Rng::for_case(cfg.seed, "C13/sweep", index);
    let kinds = [mutate::CommentKind::Line, mutate::CommentKind::Doc, mutate::CommentKind::Block, mutate::CommentKind::NestedBlock];
    let gaps: Vec<usize> = if cfg.tier == Tier::Thorough { (0..=n).collect() } else { (0..10.min(n + 1)).map(|_| rng.below(n + 1)).collect() };
    for gap in gaps {
        for kind in kinds {
            if cfg.tier == Tier::Quick && !rng.chance(1, 2) {
                continue;
            }
            // one comment in five carries a hostile payload instead of the plain one
            let hostile = rng.chance(1, 5);
            let first = if hostile { e2::hostile::comment(&mut rng, 1) } else { mutate::comment_text(kind, 1) };
            let mut inserts = vec![(gap, first)];
            if rng.chance(1, 4) {
                inserts.push((rng.below(n + 1), mutate::comment_text(kinds[rng.below(4)], 2)));
            }
            if hostile {
                stats.count("sweep_hostile_comments");
            }
            let input = mutate::with_gap_inserts(&seed, &tokens, &inserts);
            // a doc line changes meaning only where it attaches to @[doc]/@[literal]; the text must still survive
            if !matches!(e2::parse(&input), Ok(Ok(_))) {
                stats.count("sweep_input_not_parseable");
                continue;
            }
            stats.evaluations += 1;
            stats.cover("comment_kinds", &format!("{:?}", kind));
            match e2::format(&input) {
                | Ok(Ok(output)) => {
                    stats.count("sweep_formatted");
                    judge(stats, "sweep", index, &format!("{:?} comment at gap {}", kind, gap), &input, &output);
                }
                | _ => stats.count("sweep_not_formatted"),
            }
        }
    }
}
