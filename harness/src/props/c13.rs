//! C13 — formatting never loses source text.

use crate::core::*;
use crate::e2::{self, mutate, scan};
use crate::props::fmtwork;
use crate::util::rng::Rng;
use serde_json::json;

pub fn def() -> PropertyDef {
    PropertyDef {
        id: "C13",
        title: "Formatting never loses source text",
        generators,
        extra: no_extra,
        rule: "workload: the C12 (source, options) pairs plus a comment-placement sweep: for each seed with <= 150 tokens, every token \
               gap x {line, doc-line, block, nested block} comment (all gaps in thorough, a seeded sample in quick), alone and in pairs. \
               Oracle (independent scanner on input and output): identical ordered list of comments (kind, text); every output code token \
               aligns with an input token, input tokens may only vanish in the removal-only classes (redundant parentheses/commas, pun \
               collapse, telescope merges) and only parentheses may appear; literals compare by value; each comment stays between the same \
               two surviving atoms. distinct = (input hash, options); non-trivial = the input has >= 1 comment and >= 5 code tokens.",
        assumptions: &[
            "the harness scanner's reading of the lexical grammar",
            "side preservation is judged on atoms (identifiers, constructor/destructor names, literals): the formatter by design floats a comment forward over pure punctuation and keywords",
        ],
        floor: (1_000, 30_000),
        on_case_death: |_, _, _, death| Death::Inconclusive(format!("formatter did not finish ({death}); totality is C12's subject")),
    }
}

fn generators(cfg: &Cfg) -> Vec<Generator> {
    vec![
        Generator { name: "format", total: fmtwork::total(cfg), run: run_format, case_cpu_limit_s: fmtwork::CPU_BUDGET_S },
        Generator { name: "sweep", total: sweep_seeds(cfg), run: run_sweep, case_cpu_limit_s: 120 },
    ]
}

/* ----------------------------------- the oracle ----------------------------------- */

#[derive(Clone, Debug, PartialEq)]
enum Norm {
    Text(String),
    Int(i128),
    Float(u64),
    Str(String),
}

fn normalize(t: &scan::Token, src: &str) -> Norm {
    let s = t.text(src);
    match t.kind {
        | scan::Kind::Int => s.parse::<i128>().map(Norm::Int).unwrap_or_else(|_| Norm::Text(s.to_string())),
        | scan::Kind::Float => s.parse::<f64>().map(|f| Norm::Float(f.to_bits())).unwrap_or_else(|_| Norm::Text(s.to_string())),
        | scan::Kind::Str | scan::Kind::Char => Norm::Str(unescape(&s[1..s.len() - 1])),
        | scan::Kind::Keyword if s == "define" => Norm::Text("def".into()),
        | _ => Norm::Text(s.to_string()),
    }
}

fn unescape(s: &str) -> String {
    let mut out = String::new();
    let mut chars = s.chars();
    while let Some(c) = chars.next() {
        if c == '\\' {
            match chars.next() {
                | Some('n') => out.push('\n'),
                | Some('r') => out.push('\r'),
                | Some('t') => out.push('\t'),
                | Some(other) => out.push(other),
                | None => out.push('\\'),
            }
        } else {
            out.push(c);
        }
    }
    out
}

fn comment_norm(t: &scan::Token, src: &str) -> (scan::Kind, String) {
    let s = t.text(src);
    match t.kind {
        | scan::Kind::LineComment | scan::Kind::DocLine => (t.kind, s.trim_end().to_string()),
        // the formatter re-indents the continuation lines of a multi-line block comment: compare line by line
        // modulo surrounding whitespace
        | _ => (t.kind, s.lines().map(|l| l.trim()).collect::<Vec<_>>().join("\n")),
    }
}

// `end` goes when the alternative abstraction syntax `comatch params => body end` is printed as `fn params => body`
const REMOVABLE: &[&str] = &["(", ")", ",", "=>", ".", "=", "fn", "forall", "pi", "sigma", "exists", "end"];
const ADDABLE: &[&str] = &["(", ")"];

/// Compare input and output of the formatter. Err = (signature, description).
pub fn compare(input: &str, output: &str) -> Result<(), (String, String)> {
    let ti = scan::scan(input);
    let to = scan::scan(output);
    // (1) comments
    let ci: Vec<(scan::Kind, String)> = ti.iter().filter(|t| t.is_comment()).map(|t| comment_norm(t, input)).collect();
    let co: Vec<(scan::Kind, String)> = to.iter().filter(|t| t.is_comment()).map(|t| comment_norm(t, output)).collect();
    if ci != co {
        let at = ci.iter().zip(co.iter()).position(|(a, b)| a != b).unwrap_or(ci.len().min(co.len()));
        return Err((
            if co.len() < ci.len() { "comment-lost" } else if co.len() > ci.len() { "comment-duplicated" } else { "comment-changed" }.to_string(),
            format!("{} comments in, {} out; first difference at comment #{}: {:?} vs {:?}", ci.len(), co.len(), at, ci.get(at), co.get(at)),
        ));
    }
    // (2) code tokens: two-pointer alignment
    let code_i: Vec<&scan::Token> = ti.iter().filter(|t| t.is_code()).collect();
    let code_o: Vec<&scan::Token> = to.iter().filter(|t| t.is_code()).collect();
    let ni: Vec<Norm> = code_i.iter().map(|t| normalize(t, input)).collect();
    let no: Vec<Norm> = code_o.iter().map(|t| normalize(t, output)).collect();
    // matched[i] = Some(j): input code token i corresponds to output code token j
    let mut matched: Vec<Option<usize>> = vec![None; ni.len()];
    let (mut i, mut j) = (0usize, 0usize);
    while j < no.len() {
        // canonical spellings: `comatch p => b end` = `fn p => b`; `@[meta] _` = `@(meta)`
        let same = i < ni.len()
            && (ni[i] == no[j]
                || matches!((code_i[i].text(input), code_o[j].text(output)), ("comatch", "fn") | ("[", "(") | ("]", ")")));
        if same {
            matched[i] = Some(j);
            i += 1;
            j += 1;
            continue;
        }
        let o_text = code_o[j].text(output);
        // pun expansion (the formatter spells a pun out when a comment sits inside it):
        //   `= x` -> `x = x` : an identifier appears before `=`
        let o_ident = matches!(code_o[j].kind, scan::Kind::Lower | scan::Kind::Upper);
        if o_ident && j + 2 < no.len() && code_o[j + 1].text(output) == "=" && no[j + 2] == no[j] && i < ni.len() && code_i[i].text(input) == "=" {
            j += 1;
            continue;
        }
        //   `/x` -> `/x = x` : `= x` appears after the field
        if o_text == "=" && j >= 1 && j + 1 < no.len() && no[j + 1] == no[j - 1] && !(i < ni.len() && code_i[i].text(input) == "=") {
            j += 2;
            continue;
        }
        // an added parenthesis where the input continues with a non-parenthesis token (`+C _ =>` -> `+C(_) =>`)
        if ADDABLE.contains(&o_text) && i < ni.len() && !ADDABLE.contains(&code_i[i].text(input)) {
            j += 1;
            continue;
        }
        if i < ni.len() {
            let i_text = code_i[i].text(input);
            if REMOVABLE.contains(&i_text) {
                i += 1;
                continue;
            }
            // `@[meta] _` -> `@(meta)`: the hole payload goes
            if i_text == "_" && i >= 1 && code_i[i - 1].text(input) == "]" {
                i += 1;
                continue;
            }
            // pun collapse: `x = x` -> `= x`  (the first identifier goes)
            let is_ident = matches!(code_i[i].kind, scan::Kind::Lower | scan::Kind::Upper);
            if is_ident && i + 2 < ni.len() && code_i[i + 1].text(input) == "=" && ni[i + 2] == ni[i] {
                i += 1;
                continue;
            }
            // `/x = x` -> `/x` (the trailing identifier goes; `=` is removable)
            if is_ident && i >= 2 && code_i[i - 1].text(input) == "=" && ni[i - 2] == ni[i] {
                i += 1;
                continue;
            }
        }
        if ADDABLE.contains(&o_text) {
            j += 1;
            continue;
        }

        let context = |toks: &Vec<&scan::Token>, src: &str, k: usize| -> String {
            toks[k.saturating_sub(4)..(k + 4).min(toks.len())].iter().map(|t| t.text(src)).collect::<Vec<_>>().join(" ")
        };
        return Err((
            "code-token-lost-or-changed".to_string(),
            format!(
                "output token #{} {:?} has no counterpart: input near [{}], output near [{}]",
                j,
                o_text,
                if i < ni.len() { context(&code_i, input, i) } else { "<end of input>".into() },
                context(&code_o, output, j)
            ),
        ));
    }
    // remaining input tokens must all be removable
    while i < ni.len() {
        let i_text = code_i[i].text(input);
        let is_ident = matches!(code_i[i].kind, scan::Kind::Lower | scan::Kind::Upper);
        let pun_tail = is_ident && i >= 2 && code_i[i - 1].text(input) == "=" && ni[i - 2] == ni[i];
        let meta_hole = i_text == "_" && i >= 1 && code_i[i - 1].text(input) == "]";
        if !REMOVABLE.contains(&i_text) && !pun_tail && !meta_hole {
            return Err(("code-token-lost-or-changed".to_string(), format!("input token #{} {:?} does not appear in the output", i, i_text)));
        }
        i += 1;
    }
    // (3) side preservation on anchoring atoms: atoms that begin or are an entity of the syntax tree. Names that are
    // only part of an entity (metadata contents, projected field names, destructor names, field labels) are not
    // anchors: the formatter attaches a comment to the next *entity*.
    let anchoring: Vec<bool> = {
        let mut v = vec![false; code_i.len()];
        let mut meta_depth: Option<usize> = None; // bracket depth inside a metadata annotation
        let mut k = 0;
        while k < code_i.len() {
            let text = code_i[k].text(input);
            if let Some(d) = meta_depth {
                match text {
                    | "(" | "[" => meta_depth = Some(d + 1),
                    | ")" | "]" => meta_depth = if d <= 1 { None } else { Some(d - 1) },
                    | _ => {}
                }
            } else if text == "@" {
                if k + 1 < code_i.len() && matches!(code_i[k + 1].text(input), "(" | "[") {
                    meta_depth = Some(0);
                }
            } else if mutate::is_atom(code_i[k]) {
                let after_slash = k >= 1 && code_i[k - 1].text(input) == "/";
                let label = k + 1 < code_i.len() && matches!(code_i[k + 1].text(input), "=" | "::");
                // the constructor / destructor name of a data / codata arm (`| +C : T`, `| .d : T`) is part of the arm, not
                // an entity: comments use entity anchors (docs/proposals/formatting.md), so one written between `|` and
                // the name attaches to the arm's first entity
                let arm_name = k >= 1 && code_i[k - 1].text(input) == "|" && k + 1 < code_i.len() && code_i[k + 1].text(input) == ":";
                v[k] = !after_slash && !label && !arm_name && code_i[k].kind != scan::Kind::Dtor;
            }
            k += 1;
        }
        v
    };
    // position of each token in the full (code + comment) streams
    let mut code_index_i = 0usize;
    let mut prev_atom_out: Option<usize> = None; // output code index of the last matched atom before the current comment
    let mut comment_no = 0usize;
    // output: for each comment, the output code index of the token following it
    let mut out_comment_next: Vec<usize> = Vec::new();
    {
        let mut k = 0usize;
        for t in &to {
            if t.is_comment() {
                out_comment_next.push(k);
            } else {
                k += 1;
            }
        }
    }
    for t in &ti {
        if t.is_comment() {
            // next matched atom after this comment in the input
            let next_atom_out = (code_index_i..ni.len()).find_map(|k| if anchoring[k] { matched[k] } else { None });
            let pos = out_comment_next[comment_no]; // comment sits before output code token `pos`
            if let Some(p) = prev_atom_out {
                if pos <= p {
                    return Err((
                        "comment-moved-across-atom".to_string(),
                        format!("comment #{} {:?} moved before the atom {:?} it followed", comment_no, t.text(input), code_o[p].text(output)),
                    ));
                }
            }
            if let Some(n) = next_atom_out {
                if pos > n {
                    return Err((
                        "comment-moved-across-atom".to_string(),
                        format!("comment #{} {:?} moved after the atom {:?} it preceded", comment_no, t.text(input), code_o[n].text(output)),
                    ));
                }
            }
            comment_no += 1;
        } else {
            if anchoring[code_index_i] {
                if let Some(m) = matched[code_index_i] {
                    prev_atom_out = Some(m);
                }
            }
            code_index_i += 1;
        }
    }
    Ok(())
}

/* ---------------------------------- generators ---------------------------------- */

fn judge(stats: &mut Stats, generator: &str, index: u64, what: &str, input: &str, output: &str) {
    let tokens = scan::scan(input);
    let comments = tokens.iter().filter(|t| t.is_comment()).count();
    if comments >= 1 && tokens.len() - comments >= 5 {
        stats.nontrivial(format!("{}/{}", crate::util::rng::hash64(input.as_bytes()), what).as_bytes());
    }
    stats.add("comments_checked", comments as u64);
    if let Err((signature, problem)) = compare(input, output) {
        stats.violation(Violation {
            signature,
            tags: crate::props::c12::tags_for(input),
            generator: generator.into(),
            index,
            detail: json!({"what": what, "problem": problem, "input": input, "output": output}),
        });
    }
}

fn run_format(cfg: &Cfg, index: u64, stats: &mut Stats) {
    let case = fmtwork::case(cfg, index);
    stats.evaluations += 1;
    if case.deep() {
        stats.count("deep_nesting_partition_skipped");
        return;
    }
    let input = case.input();
    let Ok(Ok(output)) = case.format(&input) else {
        stats.count("not_formatted");
        return;
    };
    stats.count("formatted");
    judge(stats, "format", index, &case.describe(), &input, &output);
    if index == 5 {
        stats.sample(json!({"case": case.describe(), "input_excerpt": input.chars().take(200).collect::<String>()}));
    }
}

fn sweep_seeds(cfg: &Cfg) -> u64 {
    let small = e2::corpus().iter().filter(|(_, t)| scan::scan(t).len() <= 150).count() as u64;
    small + cfg.tier.pick(60, 1_500)
}

fn sweep_seed(cfg: &Cfg, n: u64) -> Option<String> {
    let small: Vec<String> = e2::corpus().into_iter().filter(|(_, t)| scan::scan(t).len() <= 150).map(|(_, t)| t).collect();
    if (n as usize) < small.len() {
        return Some(small[n as usize].clone());
    }
    let mut rng = Rng::for_case(cfg.seed, "C13/sweepseed", n);
    let text = e2::grammar::source(&mut rng, false);
    if scan::scan(&text).len() <= 150 && fmtwork::delimiter_nesting(&text) < fmtwork::COSTLY_NESTING { Some(text) } else { None }
}

fn run_sweep(cfg: &Cfg, index: u64, stats: &mut Stats) {
    let Some(seed) = sweep_seed(cfg, index) else { return };
    if !matches!(e2::parse(&seed), Ok(Ok(_))) || fmtwork::delimiter_nesting(&seed) >= fmtwork::DEEP_NESTING {
        return;
    }
    let tokens = scan::scan(&seed);
    let n = tokens.len();
    let mut rng = Rng::for_case(cfg.seed, "C13/sweep", index);
    let kinds = [mutate::CommentKind::Line, mutate::CommentKind::Doc, mutate::CommentKind::Block, mutate::CommentKind::NestedBlock];
    let gaps: Vec<usize> = if cfg.tier == Tier::Thorough { (0..=n).collect() } else { (0..10.min(n + 1)).map(|_| rng.below(n + 1)).collect() };
    for gap in gaps {
        for kind in kinds {
            if cfg.tier == Tier::Quick && !rng.chance(1, 2) {
                continue;
            }
            let mut inserts = vec![(gap, mutate::comment_text(kind, 1))];
            if rng.chance(1, 4) {
                inserts.push((rng.below(n + 1), mutate::comment_text(kinds[rng.below(4)], 2)));
            }
            let input = mutate::with_gap_inserts(&seed, &tokens, &inserts);
            // a doc line changes meaning only where it attaches to @[doc]/@[literal]; the text must still survive
            if !matches!(e2::parse(&input), Ok(Ok(_))) {
                stats.count("sweep_input_not_parseable");
                continue;
            }
            stats.evaluations += 1;
            stats.cover("comment_kinds", &format!("{:?}", kind));
            match e2::format(&input) {
                | Ok(Ok(output)) => {
                    stats.count("sweep_formatted");
                    judge(stats, "sweep", index, &format!("{:?} comment at gap {}", kind, gap), &input, &output);
                }
                | _ => stats.count("sweep_not_formatted"),
            }
        }
    }
}
