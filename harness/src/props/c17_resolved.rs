//! C17, the shared pending-parts slot: `CompilerSession::check_resolved` hands a program resolved outside the source
//! pipeline to the query graph through one slot shared by a session and all its snapshots.
//!
//! Programs are self-contained (intrinsics only) and pairwise distinguishable by their verdict digest (accepted or
//! rejected, number of reports, the root's kind). Sequential leg: one long-lived session checks a random sequence of
//! them, repeating some. Concurrent leg: several threads, each on its own snapshot of one session, check their own
//! programs at the same time. Oracle: every answer equals the answer of a fresh session for *that* program.

use crate::core::*;
use crate::util::panic::catch;
use crate::util::rng::Rng;
use serde_json::json;
use std::path::PathBuf;
use std::sync::Arc;
use zydeco_session::CompilerSession;
use zydeco_surface::bitter::SourceUnitDesugarer;
use zydeco_surface::scoped::resolver::Resolver;
use zydeco_surface::textual::syntax::Parser;
use zydeco_surface::textual::{Lexer, SourceUnitParser};
use zydeco_utils::pass::CompilerPass;
use zydeco_utils::span::{FileInfo, LocationCtx};

const HEADER: &str = "let VType = @(intrinsic(vtype)) in\nlet CType = @(intrinsic(ctype)) in\nlet Thk = @(intrinsic(thk)) in\nlet Ret = @(intrinsic(ret)) in\nlet Unit = @(intrinsic(unit)) in\nlet Int64 = @(intrinsic(i64)) in\nlet String = @(intrinsic(string)) in\n";

/// (name, body): distinct verdicts / root types
const PROGRAMS: &[(&str, &str)] = &[
    ("ret-unit", "ret ()\n"),
    ("ret-int", "ret (1 : Int64)\n"),
    ("ret-string", "ret \"s\"\n"),
    ("value-unit", "()\n"),
    ("value-pair", "((), \"s\")\n"),
    ("hole", "_\n"),
    ("ill-typed", "ret ((1 : Int64) : String)\n"),
    ("two-errors", "let a : String = (1 : Int64) in\nlet b : Int64 = \"s\" in\nret (a, b)\n"),
    ("function", "fn (x : Int64) => ret x\n"),
    ("thunk", "{ fn (x : Unit) => ret x }\n"),
];

/// Runs the front end up to name resolution and hands the parts to `check_resolved`; the digest of the outcome.
fn check(session: &CompilerSession, text: &str) -> Result<String, String> {
    let file_info = FileInfo::new(text, Some(Arc::new(PathBuf::from("resolved.zy"))));
    let location = LocationCtx::File(file_info);
    let mut parser = Parser::new();
    let unit = SourceUnitParser::new().parse(text, &location, &mut parser, Lexer::new(text)).map_err(|_| "parse".to_string())?;
    let out = SourceUnitDesugarer::new(&parser.spans, &parser.arena, unit).run().map_err(|e| format!("desugar: {e}"))?;
    let resolved = Resolver::new(&parser.spans, out.arena, out.prim).run_source(out.root).map_err(|e| format!("resolve: {e}"))?;
    let output = session.check_resolved(parser.spans, resolved.prim, resolved.arena, resolved.root);
    Ok(match output.outcome {
        | zydeco_statics::check::SourceCheckOutcome::Checked(checked) => {
            let kind = match checked.root {
                | zydeco_statics::syntax::TermAnnId::Compu(..) => "computation",
                | zydeco_statics::syntax::TermAnnId::Value(..) => "value",
                | _ => "other",
            };
            let fmt = zydeco_statics::fmt::Formatter::new(&output.scoped, &checked.statics);
            use zydeco_syntax::Ugly;
            let ty = match checked.root {
                | zydeco_statics::syntax::TermAnnId::Compu(_, t) | zydeco_statics::syntax::TermAnnId::Value(_, t) => t.ugly(&fmt),
                | _ => String::new(),
            };
            format!("checked {kind} : {ty}")
        }
        | zydeco_statics::check::SourceCheckOutcome::Rejected(rejected) => format!("rejected with {} report(s)", rejected.reports.reports.len()),
    })
}

fn fresh_digest(text: &str) -> Result<String, String> {
    check(&CompilerSession::default(), text)
}

pub fn run_resolved(cfg: &Cfg, index: u64, stats: &mut Stats) {
    let mut rng = Rng::for_case(cfg.seed, "C17/resolved", index);
    let texts: Vec<(&str, String)> = PROGRAMS.iter().map(|(n, b)| (*n, format!("{HEADER}{b}"))).collect();
    let mut expected = Vec::new();
    for (name, text) in &texts {
        match catch(|| fresh_digest(text)) {
            | Ok(Ok(d)) => expected.push(d),
            | Ok(Err(e)) => {
                stats.harness_error(format!("resolved-program `{name}` does not reach the checker: {e}"));
                return;
            }
            | Err(p) => {
                stats.harness_error(format!("fresh check of `{name}` panicked: {}", p.short()));
                return;
            }
        }
    }
    let distinct: std::collections::BTreeSet<&String> = expected.iter().collect();
    stats.cover("resolved_distinct_digests", &distinct.len().to_string());
    stats.evaluations += 1;
    if index % 2 == 0 {
        // sequential: one long-lived session
        let session = CompilerSession::default();
        let n = 4 + rng.below(8);
        let mut history = Vec::new();
        for step in 0..n {
            let k = rng.below(texts.len());
            history.push(texts[k].0);
            let got = catch(|| check(&session, &texts[k].1));
            stats.count("resolved_sequential_checks");
            let (ok, shown) = match &got {
                | Ok(Ok(d)) => (*d == expected[k], d.clone()),
                | Ok(Err(e)) => (false, format!("front end: {e}")),
                | Err(p) => (false, format!("panic {}", p.short())),
            };
            if !ok {
                let signature = if matches!(got, Err(_)) { "check-resolved-panicked" } else { "check-resolved-answers-for-another-program" };
                stats.violation(Violation {
                    signature: signature.into(),
                    tags: vec!["sequential".into()],
                    generator: "resolved".into(),
                    index,
                    detail: json!({"leg": "one session, one call after the other", "programs_checked_in_order": history, "step": step, "program": texts[k].0, "answer": shown, "fresh_session_answer": expected[k]}),
                });
                return;
            }
        }
        stats.nontrivial(format!("seq {history:?}").as_bytes());
    } else {
        // concurrent: every thread on its own snapshot of one session, its own programs
        let session = CompilerSession::default();
        let threads = 2 + rng.below(5);
        let rounds = 2 + rng.below(4);
        let plan: Vec<Vec<usize>> = (0..threads).map(|_| (0..rounds).map(|_| rng.below(texts.len())).collect()).collect();
        let barrier = Arc::new(std::sync::Barrier::new(threads));
        let texts = Arc::new(texts.iter().map(|(n, t)| (n.to_string(), t.clone())).collect::<Vec<_>>());
        let handles: Vec<_> = plan
            .iter()
            .cloned()
            .map(|mine| {
                let snapshot = session.snapshot();
                let barrier = barrier.clone();
                let texts = texts.clone();
                std::thread::spawn(move || {
                    let mut answers = Vec::new();
                    for k in mine {
                        barrier.wait();
                        let got = catch(|| check(&snapshot, &texts[k].1));
                        answers.push((
                            k,
                            match got {
                                | Ok(Ok(d)) => Ok(d),
                                | Ok(Err(e)) => Err(format!("front end: {e}")),
                                | Err(p) => Err(format!("panic {}", p.short())),
                            },
                        ));
                    }
                    answers
                })
            })
            .collect();
        let mut all = Vec::new();
        for h in handles {
            match h.join() {
                | Ok(a) => all.push(a),
                | Err(_) => {
                    stats.violation(Violation { signature: "check-resolved-panicked".into(), tags: vec!["concurrent".into()], generator: "resolved".into(), index, detail: json!({"leg": "thread died"}) });
                    return;
                }
            }
        }
        for (t, answers) in all.iter().enumerate() {
            for (k, got) in answers {
                stats.count("resolved_concurrent_checks");
                let ok = matches!(got, Ok(d) if *d == expected[*k]);
                if !ok {
                    let signature = if matches!(got, Err(e) if e.starts_with("panic")) { "check-resolved-panicked" } else { "check-resolved-answers-for-another-program" };
                    stats.violation(Violation {
                        signature: signature.into(),
                        tags: vec!["concurrent".into()],
                        generator: "resolved".into(),
                        index,
                        detail: json!({"leg": "threads on snapshots of one session, calls released together by a barrier", "threads": threads, "rounds": rounds, "thread": t, "program": texts[*k].0, "answer": format!("{got:?}"), "fresh_session_answer": expected[*k],
                                       "plan": plan.iter().map(|p| p.iter().map(|k| texts[*k].0.clone()).collect::<Vec<_>>()).collect::<Vec<_>>()}),
                    });
                    return;
                }
            }
        }
        stats.nontrivial(format!("conc {plan:?}").as_bytes());
    }
}
