//! C11 — a source is parsed in full or rejected: no silent truncation.

use crate::core::*;
use crate::e1;
use crate::e2::{self, scan};
use crate::util::rng::Rng;
use serde_json::json;

pub fn def() -> PropertyDef {
    PropertyDef {
        id: "C11",
        title: "A source is parsed in full or rejected: no silent truncation",
        generators,
        extra: no_extra,
        rule: "seeds: every repository source, grammar-generated terms, generated core programs. whole: the seed itself; suffix: seed + \
               junk from a fixed list (stray `-/`, `-/ x`, `)`, `end`, `$`, unterminated string, bad char literal, NUL, `| x`, a second \
               term, unterminated `/-`); insert: each lexical irregularity (stray `-/`, unknown character, malformed literal, unterminated \
               `/-`) inserted at token boundary positions (all positions for seeds <= 400 tokens in thorough, a seeded sample in quick). \
               Oracle: an independent scanner gives the first/last token outside comments; an accepted parse must have a root span equal \
               to that extent and the text must contain no irregular token outside comments. distinct = text hash; non-trivial = the text \
               has >= 3 code tokens.",
        assumptions: &["the harness scanner's reading of the lexical grammar (identifier alphabet, literals, nested comments; a block comment still open at the end of the input is an irregularity, not a comment)"],
        floor: (5_000, 200_000),
        on_case_death: death_is_harness_error,
    }
}

const JUNK: &[&str] = &["-/", "-/ x", "-/ garbage (((", ")", "end", "$", "\"open", "'ab'", "\u{0}", "| x", "ret 1", "x", "/- open", "-/ -/", "/- a -/ -/", "}", "\r", "#!", "`"];
const IRREGULAR: &[&str] = &["-/", "$", "'ab'", "\"open", "/- open", "\u{0}", "?", "-/ -/ x"];
/// Text that is irregular as code but harmless inside a comment: wrapped in `/- .. -/` (or after `--`) it must not change
/// what is parsed — the whole file is still accounted for.
const COMMENT_PROSE: &[&str] = &[
    "340282366920938463463374607431768211456340282366920938463463374607431768211456",
    "build 99999999999999999999999999999999999999999 done",
    "1e99999999", "1.", ".5", "'ab'", "'", "$ # ` ?", "\u{0}", "\u{a0}\u{3000}\u{2028}", "\u{b}\u{85}", "+Ctor .dtor @[x]", "0x1F 1_000", "9" ,
    "-1e400 +1e400", "\\", "end begin in that", "é λ 🙂 日本語",
];

fn seeds_count(cfg: &Cfg) -> (u64, u64, u64) {
    (e2::corpus().len() as u64, cfg.tier.pick(300, 6_000), cfg.tier.pick(100, 2_000))
}

fn seed_text(cfg: &Cfg, n: u64) -> String {
    let (c, g, _) = seeds_count(cfg);
    if n < c {
        e2::corpus()[n as usize].1.clone()
    } else if n < c + g {
        let mut rng = Rng::for_case(cfg.seed, "C11/grammar", n);
        e2::grammar::source(&mut rng, true)
    } else {
        let program = e1::generate::generate(cfg.seed, "C11", n);
        e1::print::program_text(&program, &e1::print::Style::plain(), n)
    }
}

fn generators(cfg: &Cfg) -> Vec<Generator> {
    let (c, g, e) = seeds_count(cfg);
    let seeds = c + g + e;
    vec![
        Generator { name: "whole", total: seeds, run: run_whole, case_cpu_limit_s: 60 },
        Generator { name: "suffix", total: seeds, run: run_suffix, case_cpu_limit_s: 120 },
        Generator { name: "insert", total: seeds, run: run_insert, case_cpu_limit_s: 600 },
    ]
}

/// The oracle. Returns a description of the violation, if any.
pub fn judge(text: &str, stats: &mut Stats) -> Option<String> {
    let tokens = scan::scan(text);
    let code: Vec<&scan::Token> = tokens.iter().filter(|t| t.is_code()).collect();
    stats.evaluations += 1;
    if code.len() >= 3 {
        stats.nontrivial(text.as_bytes());
    }
    let parsed = match e2::parse(text) {
        | Err(p) => {
            // a panic is C10's subject; here it only means "no verdict on truncation"
            stats.inconclusive("parser panicked");
            let _ = p;
            return None;
        }
        | Ok(Err(_)) => {
            stats.count("rejected");
            return None;
        }
        | Ok(Ok(ok)) => ok,
    };
    stats.count("accepted");
    if let Some(bad) = code.iter().find(|t| t.is_irregular()) {
        return Some(format!(
            "accepted although the text contains the irregular token {:?} at byte {} outside comments",
            bad.text(text),
            bad.start
        ));
    }
    let (Some(first), Some(last)) = (code.first(), code.last()) else {
        return Some("accepted a source without any token".into());
    };
    if parsed.root != (first.start, last.end) {
        return Some(format!(
            "root term spans bytes {:?} but the code extends over {:?} (last token {:?})",
            parsed.root,
            (first.start, last.end),
            last.text(text)
        ));
    }
    None
}

fn report(stats: &mut Stats, generator: &str, index: u64, text: &str, what: &str, problem: String) {
    let mut tags = Vec::new();
    let toks = scan::scan(text);
    if toks.iter().any(|t| t.kind == scan::Kind::StrayClose) {
        tags.push("stray-comment-close".to_string());
    }
    if toks.iter().any(|t| t.kind == scan::Kind::Unknown) {
        tags.push("unknown-character".to_string());
    }
    if toks.iter().any(|t| t.kind == scan::Kind::UnterminatedComment) {
        tags.push("unterminated-block-comment".to_string());
    }
    let signature = if problem.starts_with("accepted although") { "accepted-with-irregular-token" } else { "accepted-with-unconsumed-text" };
    stats.violation(Violation {
        signature: signature.into(),
        tags,
        generator: generator.into(),
        index,
        detail: json!({"what": what, "problem": problem, "text": text}),
    });
}

fn run_whole(cfg: &Cfg, index: u64, stats: &mut Stats) {
    let text = seed_text(cfg, index);
    if let Some(p) = judge(&text, stats) {
        report(stats, "whole", index, &text, "seed as is", p);
    }
    if index % 50 == 0 {
        stats.sample(json!({"seed_excerpt": text.chars().take(200).collect::<String>()}));
    }
}

fn run_suffix(cfg: &Cfg, index: u64, stats: &mut Stats) {
    let text = seed_text(cfg, index);
    if !matches!(e2::parse(&text), Ok(Ok(_))) {
        stats.count("seed_not_parseable");
        return;
    }
    for junk in JUNK {
        for sep in [" ", "\n"] {
            let t = format!("{}{}{}", text.trim_end(), sep, junk);
            stats.cover("junk", junk);
            if let Some(p) = judge(&t, stats) {
                report(stats, "suffix", index, &t, &format!("seed + {:?}", junk), p);
            }
        }
    }
}

fn run_insert(cfg: &Cfg, index: u64, stats: &mut Stats) {
    let text = seed_text(cfg, index);
    if !matches!(e2::parse(&text), Ok(Ok(_))) {
        return;
    }
    let tokens = scan::scan(&text);
    let mut rng = Rng::for_case(cfg.seed, "C11/insert", index);
    let n = tokens.len();
    if n == 0 {
        return;
    }
    // positions: all token gaps for small seeds in thorough; a seeded sample otherwise
    let all = cfg.tier == Tier::Thorough && n <= 400;
    let positions: Vec<usize> = if all { (0..=n).collect() } else { (0..cfg.tier.pick(12, 60).min(n + 1)).map(|_| rng.below(n + 1)).collect() };
    for pos in positions {
        for irregular in IRREGULAR {
            if !all && !rng.chance(1, 2) {
                continue;
            }
            let t = e2::mutate::with_gap_inserts(&text, &tokens, &[(pos, irregular.to_string())]);
            stats.cover("irregularities", irregular);
            if let Some(p) = judge(&t, stats) {
                report(stats, "insert", index, &t, &format!("{:?} inserted before token {}", irregular, pos), p);
            }
        }
        // prose inside comments: the file must still be parsed to its last code token
        for prose in COMMENT_PROSE {
            if !all && !rng.chance(1, 3) {
                continue;
            }
            let wrapped = match rng.below(4) {
                | 0 => format!("/- {} -/", prose),
                | 1 => format!("/- a /- {} -/ b -/", prose),
                | 2 => format!("/-\n  {}\n-/", prose),
                | _ => format!("-- {}\n", prose),
            };
            let t = e2::mutate::with_gap_inserts(&text, &tokens, &[(pos, wrapped)]);
            stats.cover("comment_prose", prose);
            stats.count("comment_prose_cases");
            match judge(&t, stats) {
                | Some(p) => report(stats, "insert", index, &t, &format!("comment with {:?} inserted before token {}", prose, pos), p),
                | None => {
                    // … and it must still be accepted: the comment does not change the program
                    if !matches!(e2::parse(&t), Ok(Ok(_))) {
                        stats.violation(Violation {
                            signature: "comment-content-changes-acceptance".into(),
                            tags: vec![],
                            generator: "insert".into(),
                            index,
                            detail: json!({"what": format!("comment with {:?} inserted before token {}", prose, pos), "text": t}),
                        });
                    }
                }
            }
        }
    }
}
