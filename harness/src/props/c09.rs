//! C09 — imports are hygienic splices over an acyclic, deduplicated source graph.
//!
//! graph families (`g3`, `g4`, `grand`): overlay-only sessions over declared file graphs; the oracle is the declared
//! edge relation. `spell`: path spellings on a scratch directory. `directive`: import directive decoding.
//! Splice = inlining lives in `c09_splice.rs`.

use crate::core::*;
use crate::pipeline::virtual_dir;
use crate::util::panic::catch;
use crate::util::rng::Rng;
use crate::util::scratch::Scratch;
use serde_json::json;
use std::collections::{BTreeMap, BTreeSet};
use std::path::{Path, PathBuf};
use zydeco_session::source::{SourceDependencyKind, SourceGraph, SourceId, SourceLoadError};
use zydeco_session::CompilerSession;

pub fn def() -> PropertyDef {
    PropertyDef {
        id: "C09",
        title: "Imports are hygienic splices over an acyclic, deduplicated source graph",
        generators,
        extra: no_extra,
        rule: "g3: every import edge set (self-imports included) on 3 implementation files combined with every subset of companion .zyi \
               files and every import edge set of those companions (512 x 729 graphs; exhaustive in thorough, seeded sample in quick); g4: every \
               import edge set on 4 files (65 536; thorough exhaustive); grand: random graphs on <= 8 files with repeated imports, sub-directories, \
               directly imported signature files, numbered inputs and any root. Oracle from the declared edges: graph(root) succeeds iff the part \
               reachable from the root is acyclic; on success sources = reachable set once each, one import edge per occurrence in order, companions \
               attached, provider_order a permutation with providers first; on failure the reported steps are declared edges forming a closed walk, \
               each import step's span naming its target. spell: one provider under relative / dotted / absolute / symlinked spellings is one node. \
               directive: malformed import directives are rejected, numbered inputs resolve. splice-*: multi-file program vs the same program with \
               every import textually replaced by the parenthesised provider (and `(impl : sig)` for companions): same verdict, same behaviour \
               (and equal to the reference evaluator for generated programs); generativity probes with fixed expectations. \
               distinct = graph code / program hash; non-trivial = >= 2 reachable files.",
        assumptions: &[
            "graph families use overlay-only sessions (no disk), the spelling family a real scratch directory",
            "textual inlining wraps the provider text in parentheses with a trailing newline (comments end at the newline)",
        ],
        floor: (4_000, 300_000),
        on_case_death,
    }
}

const G3_TOTAL: u64 = 512 * 729;

fn generators(cfg: &Cfg) -> Vec<Generator> {
    let mut v = vec![
        Generator { name: "g3", total: cfg.tier.pick(4_000 / 50, (G3_TOTAL + 49) / 50), run: run_g3, case_cpu_limit_s: 300 },
        Generator { name: "g4", total: cfg.tier.pick(2_000 / 50, (65_536 + 49) / 50), run: run_g4, case_cpu_limit_s: 300 },
        Generator { name: "grand", total: cfg.tier.pick(2_000, 60_000), run: run_grand, case_cpu_limit_s: 120 },
        Generator { name: "spell", total: cfg.tier.pick(60, 1_500), run: run_spell, case_cpu_limit_s: 120 },
        Generator { name: "directive", total: 1, run: run_directive, case_cpu_limit_s: 120 },
    ];
    v.extend(crate::props::c09_splice::generators(cfg));
    v
}

/* --------------------------------------- graph specs --------------------------------------- */

#[derive(Clone, Debug)]
pub struct Node {
    /// path relative to the session directory
    pub name: String,
    /// import occurrences in order (node indices)
    pub imports: Vec<usize>,
}

#[derive(Clone, Debug)]
pub struct Spec {
    pub nodes: Vec<Node>,
    pub root: usize,
}

fn input_number(name: &str) -> Option<u64> {
    Path::new(name).file_name()?.to_str()?.strip_prefix(".zydeco-input-")?.parse().ok()
}

/// `target` as written from the directory of `from`
fn relative_spelling(from: &str, target: &str) -> String {
    let from_dir = Path::new(from).parent().map(|p| p.to_path_buf()).unwrap_or_default();
    let target_path = Path::new(target);
    let target_dir = target_path.parent().map(|p| p.to_path_buf()).unwrap_or_default();
    let file = target_path.file_name().unwrap().to_str().unwrap();
    if from_dir == target_dir {
        file.to_string()
    } else {
        let ups: String = from_dir.components().map(|_| "../").collect();
        format!("{}{}", ups, target)
    }
}

impl Spec {
    pub fn companion(&self, i: usize) -> Option<usize> {
        let name = &self.nodes[i].name;
        let stem = name.strip_suffix(".zy")?;
        let want = format!("{stem}.zyi");
        self.nodes.iter().position(|n| n.name == want)
    }
    /// (edges out of i): signature edge first (as the loader lists dependencies), then imports
    pub fn edges(&self, i: usize) -> Vec<(bool, usize)> {
        let mut out = Vec::new();
        if let Some(c) = self.companion(i) {
            out.push((true, c));
        }
        out.extend(self.nodes[i].imports.iter().map(|&t| (false, t)));
        out
    }
    pub fn reachable(&self) -> BTreeSet<usize> {
        let mut seen = BTreeSet::new();
        let mut stack = vec![self.root];
        while let Some(i) = stack.pop() {
            if seen.insert(i) {
                for (_, t) in self.edges(i) {
                    stack.push(t);
                }
            }
        }
        seen
    }
    /// a cycle inside the reachable part? (Floyd–Warshall closure, independent of the DFS under test)
    pub fn cyclic(&self) -> bool {
        let n = self.nodes.len();
        let reach = self.reachable();
        let mut r = vec![vec![false; n]; n];
        for &i in &reach {
            for (_, t) in self.edges(i) {
                r[i][t] = true;
            }
        }
        for k in 0..n {
            for i in 0..n {
                if r[i][k] {
                    for j in 0..n {
                        if r[k][j] {
                            r[i][j] = true;
                        }
                    }
                }
            }
        }
        (0..n).any(|i| r[i][i])
    }
    pub fn import_text(&self, from: usize, to: usize, by_number: bool) -> String {
        let target = &self.nodes[to].name;
        match input_number(target) {
            | Some(n) if by_number && Path::new(target).parent() == Path::new(&self.nodes[from].name).parent() => format!("@(import({}))", n),
            | _ => format!("@(import(\"{}\"))", relative_spelling(&self.nodes[from].name, target)),
        }
    }
    pub fn text(&self, i: usize) -> String {
        let node = &self.nodes[i];
        if node.imports.is_empty() {
            return "0".to_string();
        }
        let mut s = String::from("(");
        for &t in &node.imports {
            s.push_str(&self.import_text(i, t, true));
            s.push_str(", ");
        }
        s.push_str("0)");
        s
    }
    pub fn code(&self) -> String {
        self.nodes.iter().map(|n| format!("{}:{:?}", n.name, n.imports)).collect::<Vec<_>>().join(";") + &format!("@{}", self.root)
    }
}

/// Build the session (overlay only), query the graph, compare with the oracle.
fn check_spec(spec: &Spec, generator: &str, index: u64, stats: &mut Stats) {
    let dir = virtual_dir();
    let mut session = CompilerSession::default();
    for i in 0..spec.nodes.len() {
        let _ = session.set_overlay(dir.join(&spec.nodes[i].name), spec.text(i));
    }
    let root = dir.join(&spec.nodes[spec.root].name);
    let result = catch(|| session.graph(&root));
    stats.evaluations += 1;
    let reach = spec.reachable();
    let code = spec.code();
    if reach.len() >= 2 {
        stats.nontrivial(code.as_bytes());
    }
    let cyclic = spec.cyclic();
    stats.count(if cyclic { "graphs_cyclic" } else { "graphs_acyclic" });
    let path_of = |i: usize| dir.join(&spec.nodes[i].name);
    let index_of = |p: &Path| (0..spec.nodes.len()).find(|&i| path_of(i) == p);
    let mut problems: Vec<String> = Vec::new();
    match result {
        | Err(p) => problems.push(format!("panic {}", p.short())),
        | Ok(Ok(graph)) => {
            if cyclic {
                problems.push("a graph with a reachable dependency cycle was accepted".into());
            } else {
                problems.extend(validate_graph(&graph, spec, &reach, &index_of));
            }
        }
        | Ok(Err(error)) => match &*error {
            | SourceLoadError::Cycle(cycle) => {
                if !cyclic {
                    problems.push(format!("an acyclic graph was rejected with a cycle of {} steps", cycle.steps.len()));
                }
                stats.add("cycle_steps_checked", cycle.steps.len() as u64);
                stats.cover("cycle_lengths", &cycle.steps.len().to_string());
                if cycle.steps.is_empty() {
                    problems.push("cycle without steps".into());
                }
                for (k, step) in cycle.steps.iter().enumerate() {
                    let next = &cycle.steps[(k + 1) % cycle.steps.len()];
                    if step.dependency != next.dependent {
                        problems.push(format!("step {k}: dependency {} is not the next step's dependent {}", step.dependency.display(), next.dependent.display()));
                    }
                    let (Some(a), Some(b)) = (index_of(&step.dependent), index_of(&step.dependency)) else {
                        problems.push(format!("step {k} names unknown files"));
                        continue;
                    };
                    let is_sig = matches!(step.kind, SourceDependencyKind::Signature);
                    stats.cover("cycle_step_kinds", if is_sig { "signature" } else { "import" });
                    if !spec.edges(a).contains(&(is_sig, b)) {
                        problems.push(format!("step {k}: {} -> {} ({}) is not a declared edge", spec.nodes[a].name, spec.nodes[b].name, if is_sig { "signature" } else { "import" }));
                    }
                    if !is_sig {
                        // the span lies in the dependent's text and names the dependency
                        let (lo, hi) = step.span.get_cursor1();
                        let text = spec.text(a);
                        let written = spec.import_text(a, b, true);
                        match text.get(lo..hi) {
                            | Some(slice) if slice == written => {}
                            | other => problems.push(format!("step {k}: span {lo}..{hi} of {} is {:?}, not the import of {}", spec.nodes[a].name, other, spec.nodes[b].name)),
                        }
                        if step.span.get_path().map(|p| p.as_path()) != Some(path_of(a).as_path()) {
                            problems.push(format!("step {k}: span path {:?} is not the dependent", step.span.get_path()));
                        }
                    }
                }
            }
            | other => problems.push(format!("unexpected load error: {other}")),
        },
    }
    if !problems.is_empty() {
        let files: BTreeMap<String, String> = (0..spec.nodes.len()).map(|i| (spec.nodes[i].name.clone(), spec.text(i))).collect();
        stats.violation(Violation {
            signature: format!("source-graph {}", classify(&problems[0])),
            tags: vec![],
            generator: generator.into(),
            index,
            detail: json!({"root": spec.nodes[spec.root].name, "files": files, "cyclic_by_oracle": cyclic, "problems": problems}),
        });
    }
}

fn classify(problem: &str) -> &'static str {
    if problem.contains("was accepted") {
        "cycle-accepted"
    } else if problem.contains("was rejected") {
        "acyclic-rejected"
    } else if problem.starts_with("step") || problem.contains("cycle") {
        "cycle-report-wrong"
    } else if problem.contains("order") {
        "provider-order-wrong"
    } else if problem.starts_with("panic") {
        "panic"
    } else {
        "graph-content-wrong"
    }
}

fn validate_graph(graph: &SourceGraph, spec: &Spec, reach: &BTreeSet<usize>, index_of: &dyn Fn(&Path) -> Option<usize>) -> Vec<String> {
    let mut problems = Vec::new();
    let mut seen: BTreeMap<usize, SourceId> = BTreeMap::new();
    for (id, file) in graph.sources.iter() {
        match index_of(&file.path) {
            | None => problems.push(format!("unknown source {}", file.path.display())),
            | Some(i) => {
                if seen.insert(i, id).is_some() {
                    problems.push(format!("{} appears twice in the graph", spec.nodes[i].name));
                }
            }
        }
    }
    let got: BTreeSet<usize> = seen.keys().copied().collect();
    if &got != reach {
        problems.push(format!("sources {:?} but the reachable set is {:?}", got, reach));
        return problems;
    }
    if index_of(&graph.sources[&graph.root].path) != Some(spec.root) {
        problems.push("graph root is not the requested root".into());
    }
    let mut occurrences = 0;
    for (&i, id) in &seen {
        let file = &graph.sources[id];
        let declared = &spec.nodes[i].imports;
        occurrences += declared.len();
        let actual: Vec<Option<usize>> = file
            .imports
            .iter()
            .map(|imp| {
                let edge = &graph.imports[imp];
                if edge.importer != *id {
                    return None;
                }
                index_of(&graph.sources[&edge.imported].path)
            })
            .collect();
        if actual != declared.iter().map(|t| Some(*t)).collect::<Vec<_>>() {
            problems.push(format!("imports of {} are {:?}, declared {:?}", spec.nodes[i].name, actual, declared));
        }
        let sig = file.signature.and_then(|s| index_of(&graph.sources[&s].path));
        if sig != spec.companion(i) {
            problems.push(format!("signature of {} is {:?}, expected {:?}", spec.nodes[i].name, sig, spec.companion(i)));
        }
    }
    if graph.imports.len() != occurrences {
        problems.push(format!("{} import edges for {} occurrences", graph.imports.len(), occurrences));
    }
    // provider order
    let order = graph.provider_order();
    let mut position: BTreeMap<usize, usize> = BTreeMap::new();
    for (k, id) in order.iter().enumerate() {
        if let Some(i) = index_of(&graph.sources[id].path) {
            if position.insert(i, k).is_some() {
                problems.push(format!("provider order lists {} twice", spec.nodes[i].name));
            }
        }
    }
    if position.len() != reach.len() || order.len() != reach.len() {
        problems.push(format!("provider order has {} entries for {} sources", order.len(), reach.len()));
    } else {
        for &i in reach {
            for (_, t) in spec.edges(i) {
                if position[&t] >= position[&i] {
                    problems.push(format!("provider order puts {} (provider) after {} (consumer)", spec.nodes[t].name, spec.nodes[i].name));
                }
            }
        }
    }
    problems
}

/* ----------------------------------------- families ----------------------------------------- */

fn scramble(cfg: &Cfg, k: u64, total: u64) -> u64 {
    match cfg.tier {
        | Tier::Thorough => k,
        | Tier::Quick => crate::util::rng::hash64(format!("{}/{}", cfg.seed, k).as_bytes()) % total,
    }
}

/// code in 0..512*729: import edges of 3 impl files, then per file {no companion | companion with one of 8 import sets}
fn spec_g3(code: u64) -> Spec {
    let edges = code % 512;
    let mut rest = code / 512;
    let mut nodes: Vec<Node> = (0..3)
        .map(|i| Node { name: format!("f{i}.zy"), imports: (0..3).filter(|j| edges >> (i * 3 + j) & 1 == 1).collect() })
        .collect();
    for i in 0..3 {
        let c = rest % 9;
        rest /= 9;
        if c > 0 {
            let set = c - 1;
            nodes.push(Node { name: format!("f{i}.zyi"), imports: (0..3).filter(|j| set >> j & 1 == 1).collect() });
        }
    }
    Spec { nodes, root: 0 }
}

fn run_g3(cfg: &Cfg, index: u64, stats: &mut Stats) {
    for k in index * 50..(index * 50 + 50).min(G3_TOTAL) {
        let code = scramble(cfg, k, G3_TOTAL);
        check_spec(&spec_g3(code), "g3", index, stats);
    }
    if index == 0 {
        if cfg.tier == Tier::Thorough {
            stats.exhaustive.push("all 373 248 graphs on 3 implementation files with every companion/companion-import combination".into());
        }
        let s = spec_g3(scramble(cfg, 7, G3_TOTAL));
        stats.sample(json!({"graph": s.code(), "cyclic": s.cyclic(), "reachable": s.reachable().len()}));
    }
}

fn run_g4(cfg: &Cfg, index: u64, stats: &mut Stats) {
    for k in index * 50..(index * 50 + 50).min(65_536) {
        let code = scramble(cfg, k, 65_536);
        let nodes = (0..4).map(|i| Node { name: format!("f{i}.zy"), imports: (0..4).filter(|j| code >> (i * 4 + j) & 1 == 1).collect() }).collect();
        check_spec(&Spec { nodes, root: 0 }, "g4", index, stats);
    }
    if index == 0 && cfg.tier == Tier::Thorough {
        stats.exhaustive.push("all 65 536 import edge sets on 4 files".into());
    }
}

fn run_grand(cfg: &Cfg, index: u64, stats: &mut Stats) {
    let mut rng = Rng::for_case(cfg.seed, "C09/grand", index);
    let n = 2 + rng.below(7);
    let mut nodes: Vec<Node> = Vec::new();
    for i in 0..n {
        let dir = *rng.pick(&["", "", "d/", "d/e/"]);
        let name = match rng.below(10) {
            | 0 => format!("{dir}.zydeco-input-{}", i + 1),
            | 1 => format!("{dir}p{i}.txt"),
            | 2 if i > 0 && nodes[i - 1].name.ends_with(".zy") => nodes[i - 1].name.clone() + "i",
            | _ => format!("{dir}f{i}.zy"),
        };
        nodes.push(Node { name, imports: vec![] });
    }
    let density = 1 + rng.below(3);
    for i in 0..n {
        let k = rng.below(density + 1) + if rng.chance(1, 6) { 2 } else { 0 };
        for _ in 0..k {
            // mostly forward edges so that acyclic graphs stay common
            let t = if rng.chance(3, 4) && i + 1 < n { i + 1 + rng.below(n - i - 1) } else { rng.below(n) };
            nodes[i].imports.push(t);
            if rng.chance(1, 8) {
                nodes[i].imports.push(t); // the same provider twice
            }
        }
    }
    let root = if rng.chance(3, 4) { 0 } else { rng.below(n) };
    let spec = Spec { nodes, root };
    stats.cover("root_kinds", Path::new(&spec.nodes[root].name).extension().and_then(|e| e.to_str()).unwrap_or("none"));
    stats.cover("reachable_sizes", &spec.reachable().len().to_string());
    check_spec(&spec, "grand", index, stats);
}

/* ---------------------------------------- spellings ---------------------------------------- */

fn run_spell(cfg: &Cfg, index: u64, stats: &mut Stats) {
    let mut rng = Rng::for_case(cfg.seed, "C09/spell", index);
    let scratch = Scratch::new("c09spell");
    let base: PathBuf = scratch.path().canonicalize().unwrap();
    // companion of a.zy: none / a file / a symbolic link to a signature that lives in another directory and imports a
    // sibling there (a decoy of the same name sits next to the link) / the same, shared with a second implementation
    let sig_mode = rng.below(5);
    let with_sig = sig_mode >= 1;
    let linked_sig = sig_mode >= 3;
    let shared_sig = sig_mode == 4;
    std::fs::create_dir_all(base.join("lib/sub")).unwrap();
    std::fs::create_dir_all(base.join("main")).unwrap();
    std::fs::write(base.join("lib/a.zy"), "(1, 2)").unwrap();
    if linked_sig {
        std::fs::create_dir_all(base.join("sigs")).unwrap();
        std::fs::write(base.join("sigs/real.zyi"), "(@(import(\"t.zy\"))) * (@(intrinsic(i64)))").unwrap();
        std::fs::write(base.join("sigs/t.zy"), "@(intrinsic(i64))").unwrap();
        std::fs::write(base.join("lib/t.zy"), "@(intrinsic(string))").unwrap();
        let _ = std::os::unix::fs::symlink("../sigs/real.zyi", base.join("lib/a.zyi"));
        if shared_sig {
            std::fs::write(base.join("lib/c.zy"), "(3, 4)").unwrap();
            let _ = std::os::unix::fs::symlink(base.join("sigs/real.zyi"), base.join("lib/c.zyi"));
        }
    } else if with_sig {
        std::fs::write(base.join("lib/a.zyi"), "(@(intrinsic(i64)), @(intrinsic(i64)))").unwrap();
    }
    std::fs::write(base.join("lib/sub/b.zy"), "(@(import(\"../a.zy\")), @(import(\"./.././a.zy\")), 0)").unwrap();
    let _ = std::os::unix::fs::symlink(base.join("lib/a.zy"), base.join("link.zy"));
    let _ = std::os::unix::fs::symlink("lib/a.zy", base.join("rel-link.zy"));
    let _ = std::os::unix::fs::symlink(base.join("lib"), base.join("ld"));
    let _ = std::os::unix::fs::symlink("../lib/sub", base.join("main/subl"));
    let abs = base.join("lib/a.zy").display().to_string();
    let abs_dotted = format!("{}/main/../lib/a.zy", base.display());
    let spellings: Vec<(&str, String)> = vec![
        ("relative", "../lib/a.zy".into()),
        ("dot", "./../lib/./a.zy".into()),
        ("dotdot", "../lib/sub/../a.zy".into()),
        ("double-slash", "..//lib//a.zy".into()),
        ("absolute", abs),
        ("absolute-dotted", abs_dotted),
        ("file-symlink", "../link.zy".into()),
        ("relative-file-symlink", "../rel-link.zy".into()),
        ("dir-symlink", "../ld/a.zy".into()),
        ("dir-symlink-dotdot", "subl/../a.zy".into()),
    ];
    let k = 1 + rng.below(5);
    let mut chosen: Vec<usize> = (0..k).map(|_| rng.below(spellings.len())).collect();
    let via_b = rng.chance(1, 2);
    let b_spelling = *rng.pick(&["../lib/sub/b.zy", "subl/b.zy", "../ld/sub/b.zy"]);
    let mut text = String::from("(");
    for &c in &chosen {
        text.push_str(&format!("@(import(\"{}\")), ", spellings[c].1));
        stats.cover("spellings", spellings[c].0);
    }
    if via_b {
        text.push_str(&format!("@(import(\"{}\")), ", b_spelling));
    }
    if shared_sig {
        text.push_str("@(import(\"../lib/c.zy\")), ");
    }
    text.push_str("0)");
    // the root itself may be addressed through a symlinked directory
    std::fs::write(base.join("main/root.zy"), &text).unwrap();
    let _ = std::os::unix::fs::symlink(base.join("main"), base.join("mainl"));
    let root_spelling = if rng.chance(1, 3) { base.join("mainl/root.zy") } else { base.join("main/../main/root.zy") };
    let session = CompilerSession::default();
    let result = catch(|| session.graph(&root_spelling));
    stats.evaluations += 1;
    chosen.sort();
    chosen.dedup();
    stats.nontrivial(format!("spell/{:?}/{}/{}/{}", chosen, via_b, b_spelling, with_sig).as_bytes());
    let mut problems = Vec::new();
    match result {
        | Err(p) => problems.push(format!("panic {}", p.short())),
        | Ok(Err(e)) => problems.push(format!("load error: {e}")),
        | Ok(Ok(graph)) => {
            let mut expected: BTreeSet<PathBuf> = [base.join("main/root.zy"), base.join("lib/a.zy")].into_iter().collect();
            if via_b {
                expected.insert(base.join("lib/sub/b.zy"));
            }
            if linked_sig {
                // the signature under its canonical path, once, with the import resolved next to the real file
                expected.insert(base.join("sigs/real.zyi"));
                expected.insert(base.join("sigs/t.zy"));
                if shared_sig {
                    expected.insert(base.join("lib/c.zy"));
                }
            } else if with_sig {
                expected.insert(base.join("lib/a.zyi"));
            }
            let got: Vec<PathBuf> = graph.sources.iter().map(|(_, f)| f.path.clone()).collect();
            let got_set: BTreeSet<PathBuf> = got.iter().cloned().collect();
            if got.len() != got_set.len() || got_set != expected {
                problems.push(format!("sources {:?}, expected {:?}", got, expected));
            }
            let occurrences = k + if via_b { 3 } else { 0 } + if linked_sig { 1 } else { 0 } + if shared_sig { 1 } else { 0 };
            let order: Vec<PathBuf> = graph.provider_order().iter().map(|id| graph.sources[id].path.clone()).collect();
            let order_set: BTreeSet<PathBuf> = order.iter().cloned().collect();
            if order.len() != order_set.len() {
                problems.push(format!("provider order lists a source twice: {:?}", order));
            }
            if graph.imports.len() != occurrences {
                problems.push(format!("{} import edges for {} occurrences", graph.imports.len(), occurrences));
            }
            let a_path = base.join("lib/a.zy");
            for (_, file) in graph.sources.iter() {
                if file.path == a_path {
                    let has = file.signature.map(|s| graph.sources[&s].path.clone());
                    let want = with_sig.then(|| if linked_sig { base.join("sigs/real.zyi") } else { base.join("lib/a.zyi") });
                    if has != want {
                        problems.push(format!("companion of a.zy is {:?}, expected {:?}", has, want));
                    }
                }
            }
        }
    }
    // an adjacent signature makes each import mean `(implementation : signature)`: (1, 2) against (Int64, Int64) checks
    // only if the signature's own import was resolved next to the real file (the decoy next to the link is String)
    if problems.is_empty() && linked_sig {
        let analyzed = crate::pipeline::analyze_in(CompilerSession::default(), root_spelling.clone());
        stats.count("linked_signature_analyses");
        if !analyzed.verdict.is_accept() {
            problems.push(format!("root with a symlinked companion is not accepted: {}", analyzed.verdict.brief().chars().take(300).collect::<String>()));
        }
    }
    stats.nontrivial(format!("spell-sig/{}", sig_mode).as_bytes());
    stats.cover("companion_modes", ["none", "file", "file", "symlink-elsewhere", "symlink-shared"][sig_mode]);
    if index == 0 {
        stats.sample(json!({"spelling_root": text}));
    }
    if !problems.is_empty() {
        stats.violation(Violation {
            signature: "path-spellings-not-deduplicated".into(),
            tags: vec![],
            generator: "spell".into(),
            index,
            detail: json!({"root_text": text, "root_path": root_spelling.display().to_string(), "problems": problems}),
        });
    }
}

/* ---------------------------------------- directives ---------------------------------------- */

fn run_directive(_cfg: &Cfg, index: u64, stats: &mut Stats) {
    // (root text, extra files, expectation)
    enum Want {
        Rejected,
        Sources(usize),
    }
    let cases: Vec<(&str, Vec<(&str, &str)>, Want)> = vec![
        ("@(import(\"\"))", vec![], Want::Rejected),
        ("@(import(0))", vec![(".zydeco-input-0", "1")], Want::Rejected),
        ("@(import(-1))", vec![(".zydeco-input--1", "1"), (".zydeco-input-1", "1")], Want::Rejected),
        ("@(import(\"a.zy\", \"b.zy\"))", vec![("a.zy", "1"), ("b.zy", "1")], Want::Rejected),
        ("@(import())", vec![], Want::Rejected),
        ("@(import(a))", vec![("a", "1"), ("a.zy", "1")], Want::Rejected),
        ("@[import(\"a.zy\")] 5", vec![("a.zy", "1")], Want::Rejected),
        ("@(import(\"missing.zy\"))", vec![], Want::Rejected),
        ("@(import(1))", vec![], Want::Rejected),
        ("@(import(1))", vec![(".zydeco-input-1", "1")], Want::Sources(2)),
        ("(@(import(1)), @(import(\".zydeco-input-1\")), @(import(2)))", vec![(".zydeco-input-1", "1"), (".zydeco-input-2", "@(import(1))")], Want::Sources(3)),
        ("(@(import(\"a.zy\")), @(import(\"a.zy\")))", vec![("a.zy", "1")], Want::Sources(2)),
        // an unrelated metadata term is not an import
        ("@[doc(\"a.zy\")] 5", vec![], Want::Sources(1)),
    ];
    for (k, (root, files, want)) in cases.iter().enumerate() {
        let dir = virtual_dir();
        let mut session = CompilerSession::default();
        let _ = session.set_overlay(dir.join("root.zy"), root.to_string());
        for (name, text) in files {
            let _ = session.set_overlay(dir.join(name), text.to_string());
        }
        let result = catch(|| session.graph(dir.join("root.zy")));
        stats.evaluations += 1;
        stats.nontrivial(format!("directive/{k}").as_bytes());
        let problem = match (&result, want) {
            | (Err(p), _) => Some(format!("panic {}", p.short())),
            | (Ok(Ok(g)), Want::Rejected) => Some(format!("accepted with {} sources", g.sources.len())),
            | (Ok(Err(_)), Want::Rejected) => None,
            | (Ok(Ok(g)), Want::Sources(n)) => (g.sources.len() != *n).then(|| format!("{} sources, expected {}", g.sources.len(), n)),
            | (Ok(Err(e)), Want::Sources(_)) => Some(format!("rejected: {e}")),
        };
        if let Ok(Err(e)) = &result {
            stats.cover("load_error_kinds", match &**e {
                | SourceLoadError::RootPath { .. } => "RootPath",
                | SourceLoadError::ImportPath { .. } => "ImportPath",
                | SourceLoadError::ImportInput { .. } => "ImportInput",
                | SourceLoadError::Read { .. } => "Read",
                | SourceLoadError::Parse(_) => "Parse",
                | SourceLoadError::Cycle(_) => "Cycle",
            });
        }
        if let Some(problem) = problem {
            stats.violation(Violation {
                signature: "import-directive-decoding".into(),
                tags: vec![],
                generator: "directive".into(),
                index,
                detail: json!({"root_text": root, "files": files.iter().map(|(a, b)| format!("{a} = {b}")).collect::<Vec<_>>(), "problem": problem}),
            });
        }
    }
}

/// A shard that dies inside a graph family died in the loader (the harness side is straight-line code over small vectors):
/// a stack overflow or abort while loading a finite file graph is a violation; timeouts stay inconclusive.
fn on_case_death(_cfg: &Cfg, generator: &str, index: u64, death: &str) -> Death {
    if !matches!(generator, "g3" | "g4" | "grand" | "spell" | "directive") {
        return Death::HarnessError;
    }
    if death.contains("timeout") {
        return Death::Inconclusive(format!("graph case {generator}#{index} exceeded its CPU budget"));
    }
    Death::Violation(Violation {
        signature: "source-graph loader-death".into(),
        tags: vec![],
        generator: generator.into(),
        index,
        detail: json!({"problem": format!("the process died while loading a finite source graph: {death}")}),
    })
}
