//! C08 — block contributions are ordered by dependency, not by position.
//!
//! (a) `zydeco_utils::graph` on every digraph with ≤ 4 nodes (self-loops included, nodes that occur only as
//!     dependency targets included), three insertion orders, three ways of draining `top()/release()`;
//!     oracle = SCCs by mutual reachability (transitive closure) and the condensation order.
//! (b)/(c) language level: blocks realising a reference graph, and permutations of contributions
//!     (see `c08_lang.rs`).

use crate::core::*;
use crate::util::rng::Rng;
use serde_json::json;
use std::collections::{BTreeSet, HashSet};
use zydeco_utils::graph::{DepGraph, Kosaraju, SccGraph};

pub fn def() -> PropertyDef {
    PropertyDef {
        id: "C08",
        title: "Block contributions are ordered by dependency, not by position",
        generators,
        extra: no_extra,
        rule: "graphs: every digraph on 1..4 nodes (adjacency matrices incl. self-loops: 2+16+512+65 536), each with and without explicit \
               registration of sink nodes, 3 insertion orders x 3 drain protocols (whole frontier / one group / one member at a time), plus \
               obliviate and keep_only against set-theoretic definitions; random: seeded random digraphs on 5..12 nodes; blocks: one \
               begin/that block per digraph on <=3 (quick) / <=4 (thorough) nodes in three flavours (sealed data types, value definitions, \
               parameter on the cycle); perms: all permutations of generated blocks with <=5 contributions; paramblocks: blocks with 2..4 parameters whose \
               annotations go through alias chains defined in the same block, the definitions placed before / after / between the \
               parameters (parameters keep their relative order): acceptance and the argument-to-parameter mapping printed by the block \
               must not depend on the placement. A case is distinct by (graph code, \
               variant) or by program text hash and non-trivial when the graph has >=1 edge / the block has >=2 dependent contributions.",
        assumptions: &[
            "SCCs by Floyd-Warshall transitive closure are the reference",
            "only nodes returned by top() are released (the protocol the resolver uses)",
        ],
        floor: (2_000, 60_000),
        on_case_death: death_is_harness_error,
    }
}

fn generators(cfg: &Cfg) -> Vec<Generator> {
    let mut v = vec![
        // 2 + 16 + 512 + 65536 = 66066 graphs, 64 graphs per case
        Generator { name: "graphs", total: (66_066 + 63) / 64, run: run_graphs, case_cpu_limit_s: 300 },
        Generator { name: "random", total: cfg.tier.pick(400, 8_000), run: run_random, case_cpu_limit_s: 300 },
    ];
    v.extend(crate::props::c08_lang::generators(cfg));
    v
}

/// A digraph as adjacency lists: `deps[i]` = nodes that i depends on.
#[derive(Clone, Debug)]
pub struct Digraph {
    pub n: usize,
    pub deps: Vec<Vec<usize>>,
}

impl Digraph {
    pub fn from_code(n: usize, code: u64) -> Self {
        let mut deps = vec![Vec::new(); n];
        for i in 0..n {
            for j in 0..n {
                if code >> (i * n + j) & 1 == 1 {
                    deps[i].push(j);
                }
            }
        }
        Digraph { n, deps }
    }
    pub fn edges(&self) -> usize {
        self.deps.iter().map(|d| d.len()).sum()
    }
    /// reach[i][j]: j reachable from i along ≥ 0 dependency edges
    pub fn closure(&self) -> Vec<Vec<bool>> {
        let n = self.n;
        let mut r = vec![vec![false; n]; n];
        for i in 0..n {
            r[i][i] = true;
            for &j in &self.deps[i] {
                r[i][j] = true;
            }
        }
        for k in 0..n {
            for i in 0..n {
                if r[i][k] {
                    for j in 0..n {
                        if r[k][j] {
                            r[i][j] = true;
                        }
                    }
                }
            }
        }
        r
    }
    /// component representative (smallest member) per node
    pub fn components(&self) -> Vec<usize> {
        let r = self.closure();
        (0..self.n).map(|i| (0..self.n).find(|&j| r[i][j] && r[j][i]).unwrap()).collect()
    }
    pub fn describe(&self) -> String {
        let mut s = String::new();
        for (i, d) in self.deps.iter().enumerate() {
            s.push_str(&format!("{}->{:?} ", i, d));
        }
        s
    }
}

/// graph index -> (n, code)
fn nth_graph(mut idx: u64) -> Option<(usize, u64)> {
    for n in 1..=4usize {
        let count = 1u64 << (n * n);
        if idx < count {
            return Some((n, idx));
        }
        idx -= count;
    }
    None
}

#[derive(Clone, Copy, Debug, PartialEq)]
enum Drain {
    WholeFrontier,
    OneGroup,
    OneMember,
}

fn build(g: &Digraph, present: &[bool], register_sinks: bool, rng: &mut Rng) -> DepGraph<usize> {
    let mut dg = DepGraph::new();
    // a list of (node, deps-chunk) add calls in random order; edges of one node possibly split over calls
    let mut calls: Vec<(usize, Vec<usize>)> = Vec::new();
    for i in 0..g.n {
        if !present[i] {
            continue;
        }
        let deps: Vec<usize> = g.deps[i].iter().copied().filter(|j| present[*j]).collect();
        if deps.is_empty() {
            if register_sinks {
                calls.push((i, vec![]));
            }
            continue;
        }
        if deps.len() >= 2 && rng.chance(1, 2) {
            let cut = 1 + rng.below(deps.len() - 1);
            calls.push((i, deps[..cut].to_vec()));
            calls.push((i, deps[cut..].to_vec()));
        } else {
            calls.push((i, deps));
        }
        if rng.chance(1, 4) {
            calls.push((i, vec![]));
        }
    }
    rng.shuffle(&mut calls);
    for (i, d) in calls {
        dg.add(i, d);
    }
    dg
}

/// Drain an SccGraph restricted to `alive` nodes and check every observation against the reference.
fn drain_and_check(
    g: &Digraph, comp: &[usize], reach: &[Vec<bool>], alive: &[bool], mut scc: SccGraph<usize>, drain: Drain, rng: &mut Rng,
) -> Result<u64, String> {
    let n = g.n;
    let mut released = vec![false; n];
    let mut observations = 0u64;
    let total_alive = alive.iter().filter(|a| **a).count();
    let mut released_count = 0usize;
    let mut guard = 0;
    loop {
        guard += 1;
        if guard > 10 * n + 10 {
            return Err("drain does not terminate".into());
        }
        let top = scc.top();
        observations += 1;
        if released_count == total_alive {
            if !top.is_empty() {
                return Err(format!("top() = {:?} after every node was released", top));
            }
            return Ok(observations);
        }
        if top.is_empty() {
            return Err(format!("top() is empty but {} nodes are unreleased", total_alive - released_count));
        }
        let mut seen: HashSet<usize> = HashSet::new();
        for group in &top {
            let members: BTreeSet<usize> = group.iter().copied().collect();
            if members.is_empty() {
                return Err("empty group in top()".into());
            }
            let c = comp[*members.iter().next().unwrap()];
            // exactly the unreleased members of one true SCC
            let expect: BTreeSet<usize> = (0..n).filter(|&i| alive[i] && comp[i] == c && !released[i]).collect();
            if members != expect {
                return Err(format!("group {:?} is not the unreleased part {:?} of its strongly connected component", members, expect));
            }
            for m in &members {
                if !alive[*m] {
                    return Err(format!("node {} was removed from the graph but is offered", m));
                }
                if !seen.insert(*m) {
                    return Err(format!("node {} offered in two groups", m));
                }
            }
            // dependencies first: every other component this one reaches is fully released
            for j in 0..n {
                if alive[j] && comp[j] != c && reach[c][j] && !released[j] {
                    return Err(format!("group {:?} offered before its dependency {} was released", members, j));
                }
            }
        }
        // choose what to release
        let to_release: Vec<usize> = match drain {
            | Drain::WholeFrontier => top.iter().flat_map(|g| g.iter().copied()).collect(),
            | Drain::OneGroup => top[rng.below(top.len())].iter().copied().collect(),
            | Drain::OneMember => {
                let group = &top[rng.below(top.len())];
                let members: Vec<usize> = group.iter().copied().collect();
                vec![members[rng.below(members.len())]]
            }
        };
        for id in &to_release {
            if released[*id] {
                return Err(format!("node {} offered twice", id));
            }
            released[*id] = true;
            released_count += 1;
        }
        scc.release(to_release);
    }
}

fn check_graph(g: &Digraph, rng: &mut Rng, stats: &mut Stats, generator: &str, index: u64, label: &str) {
    let comp = g.components();
    let reach = g.closure();
    let n = g.n;
    let all = vec![true; n];
    for register_sinks in [true, false] {
        // a node exists if it is registered or is the target of an edge
        let exists: Vec<bool> = (0..n)
            .map(|i| register_sinks || !g.deps[i].is_empty() || (0..n).any(|k| g.deps[k].contains(&i)))
            .collect();
        if exists.iter().all(|e| !*e) {
            continue;
        }
        for order in 0..3 {
            for drain in [Drain::WholeFrontier, Drain::OneGroup, Drain::OneMember] {
                let dg = build(g, &all, register_sinks, rng);
                let result = crate::util::panic::catch(|| {
                    let scc = Kosaraju::new(&dg).run();
                    drain_and_check(g, &comp, &reach, &exists, scc, drain, &mut rng.clone())
                });
                stats.evaluations += 1;
                let failure = match result {
                    | Ok(Ok(obs)) => {
                        stats.add("frontier_observations", obs);
                        None
                    }
                    | Ok(Err(e)) => Some(e),
                    | Err(p) => Some(format!("panic {}", p.short())),
                };
                if let Some(e) = failure {
                    stats.violation(Violation {
                        signature: "scc-order-mismatch".into(),
                        tags: vec![format!("drain:{:?}", drain)],
                        generator: generator.into(),
                        index,
                        detail: json!({"graph": g.describe(), "label": label, "register_sinks": register_sinks, "insertion_order": order, "drain": format!("{:?}", drain), "problem": e}),
                    });
                    return;
                }
            }
        }
        // obliviate / keep_only against set-theoretic definitions (only on existing nodes)
        let existing: Vec<usize> = (0..n).filter(|i| exists[*i]).collect();
        for _ in 0..2 {
            let pick: Vec<usize> = existing.iter().copied().filter(|_| rng.chance(1, 2)).collect();
            if pick.is_empty() {
                continue;
            }
            // obliviate: remove picked nodes and everything that (transitively) depends on them
            let alive_after: Vec<bool> = (0..n).map(|i| exists[i] && !pick.iter().any(|p| reach[i][*p])).collect();
            let dg = build(g, &all, register_sinks, rng);
            let pick2 = pick.clone();
            let result = crate::util::panic::catch(|| {
                let mut scc = Kosaraju::new(&dg).run();
                scc.obliviate(pick2);
                drain_and_check(g, &comp, &reach, &alive_after, scc, Drain::OneGroup, &mut rng.clone())
            });
            stats.evaluations += 1;
            stats.count("obliviate_checked");
            if let Some(e) = match result {
                | Ok(Ok(_)) => None,
                | Ok(Err(e)) => Some(e),
                | Err(p) => Some(format!("panic {}", p.short())),
            } {
                stats.violation(Violation {
                    signature: "scc-obliviate-mismatch".into(),
                    tags: vec![],
                    generator: generator.into(),
                    index,
                    detail: json!({"graph": g.describe(), "label": label, "register_sinks": register_sinks, "obliviate": pick, "problem": e}),
                });
                return;
            }
            // keep_only: picked nodes and everything they (transitively) depend on
            let alive_after: Vec<bool> = (0..n).map(|i| exists[i] && pick.iter().any(|p| reach[*p][i])).collect();
            let dg = build(g, &all, register_sinks, rng);
            let pick2 = pick.clone();
            let result = crate::util::panic::catch(|| {
                let mut scc = Kosaraju::new(&dg).run();
                scc.keep_only(pick2);
                drain_and_check(g, &comp, &reach, &alive_after, scc, Drain::WholeFrontier, &mut rng.clone())
            });
            stats.evaluations += 1;
            stats.count("keep_only_checked");
            if let Some(e) = match result {
                | Ok(Ok(_)) => None,
                | Ok(Err(e)) => Some(e),
                | Err(p) => Some(format!("panic {}", p.short())),
            } {
                stats.violation(Violation {
                    signature: "scc-keep-only-mismatch".into(),
                    tags: vec![],
                    generator: generator.into(),
                    index,
                    detail: json!({"graph": g.describe(), "label": label, "register_sinks": register_sinks, "keep_only": pick, "problem": e}),
                });
                return;
            }
        }
    }
    if g.edges() >= 1 {
        stats.nontrivial(format!("{generator}/{label}").as_bytes());
    }
    let ncomp = comp.iter().collect::<BTreeSet<_>>().len();
    stats.cover("scc_shapes", &format!("n{}c{}", n, ncomp));
}

fn run_graphs(cfg: &Cfg, index: u64, stats: &mut Stats) {
    let mut rng = Rng::for_case(cfg.seed, "C08/graphs", index);
    for k in 0..64 {
        let Some((n, code)) = nth_graph(index * 64 + k) else { break };
        let g = Digraph::from_code(n, code);
        check_graph(&g, &mut rng, stats, "graphs", index, &format!("n{n}/{code:#x}"));
        if index == 300 && k == 5 {
            stats.sample(json!({"graph": g.describe(), "components": g.components(), "variants": "sinks registered or not x 3 insertion orders x 3 drain protocols + obliviate/keep_only"}));
        }
    }
    if index == 0 {
        stats.exhaustive.push("every digraph (with self-loops) on 1..4 nodes: 66 066 adjacency matrices".into());
    }
}

fn run_random(cfg: &Cfg, index: u64, stats: &mut Stats) {
    let mut rng = Rng::for_case(cfg.seed, "C08/random", index);
    let n = 5 + rng.below(8);
    let density = 1 + rng.below(4) as u32;
    let mut deps = vec![Vec::new(); n];
    for i in 0..n {
        for j in 0..n {
            if rng.chance(density, 12) {
                deps[i].push(j);
            }
        }
    }
    let g = Digraph { n, deps };
    check_graph(&g, &mut rng, stats, "random", index, &format!("r{}", index));
    if index == 1 {
        stats.sample(json!({"random_graph": g.describe(), "components": g.components()}));
    }
}
