//! C06 — every host operation honours its declared type and contract.

use crate::core::*;
use crate::hostcall::{self, HostOutcome, char_lit, int_lit, str_lit, tagged_thunk, with_session};
use crate::pipeline::{self, End, Sources};
use crate::prelude::{MiniPrelude, role_type};
use crate::util::rng::Rng;
use crate::util::scratch::Scratch;
use serde_json::json;
use zydeco_dynamics::host::HostValue;
use zydeco_dynamics::syntax::SemValue;
use zydeco_statics::{BuiltinComputationClassifier as CC, BuiltinOperationAbi, BuiltinValueAtom as Atom, BuiltinValueClassifier as VC};
use zydeco_syntax::{BuiltinValueRole as Role, IntegerLiteral, IntegerType, Literal};

pub fn def() -> PropertyDef {
    PropertyDef {
        id: "C06",
        title: "Every host operation honours its declared type and contract",
        generators,
        extra: no_extra,
        rule: "tables: for every one of the 126 roles the arity, the ABI classifier (rendered to type text), the stack-IR builtin entry, \
               the harness's copy of the standard signature and the host/source names must agree (exhaustive); text: every text/char/bytes \
               role called directly through the public machine step on random Unicode strings (ASCII, 2/3/4-byte scalars, combining marks, \
               empty) with boundary indices {-1,0,1,len-1,len,len+1,i64::MIN,i64::MAX} against a Unicode-scalar reference model; io: scripted \
               call sequences on one machine over a scratch directory (missing path, path through a file, directory as file, truncate vs \
               append, read after close, double close, std handles surviving close, negative count, EOF vs empty line, CRLF); sigmut: for \
               every role the declared type with one mutation (drop/add/swap argument, change atom, change result, retype continuation) \
               must be rejected, the unmutated one accepted; wiring: caller programs over lib/std/builtin.zy. distinct = (role, argument \
               tuple) / (role, mutation); non-trivial = everything except table rows.",
        assumptions: &[
            "Unicode scalar values as Rust's char; the sandbox runs as root, so unwritable paths are ENOTDIR/EISDIR paths",
            "legacy read_line/read_till_eof/read_line_as_int have no error continuation and are fed valid UTF-8 only",
        ],
        floor: (1_000, 30_000),
        on_case_death: death_is_harness_error,
    }
}

fn generators(cfg: &Cfg) -> Vec<Generator> {
    let roles = Role::all().count() as u64;
    vec![
        Generator { name: "tables", total: roles, run: run_table, case_cpu_limit_s: 60 },
        Generator { name: "text", total: cfg.tier.pick(600, 20_000), run: run_text, case_cpu_limit_s: 60 },
        Generator { name: "io", total: cfg.tier.pick(40, 600), run: run_io, case_cpu_limit_s: 120 },
        Generator { name: "handles", total: cfg.tier.pick(300, 20_000), run: run_handles, case_cpu_limit_s: 120 },
        Generator { name: "sigmut", total: roles, run: run_sigmut, case_cpu_limit_s: 120 },
        Generator { name: "wiring", total: 1, run: run_wiring, case_cpu_limit_s: 120 },
    ]
}

fn fail(stats: &mut Stats, generator: &str, index: u64, signature: String, role: &str, detail: serde_json::Value) {
    stats.violation(Violation { signature, tags: vec![format!("role:{}", role)], generator: generator.into(), index, detail });
}

/* ------------------------------------ classifier text ------------------------------------ */

fn atom_text(a: Atom) -> String {
    match a {
        | Atom::Integer(t) => t.type_name().to_string(),
        | Atom::Float(t) => crate::prelude::float_type_name(t).to_string(),
        | Atom::Char => "Char".into(),
        | Atom::String => "String".into(),
        | Atom::Bytes => "Bytes".into(),
        | Atom::Reader => "ReaderType".into(),
        | Atom::Writer => "WriterType".into(),
    }
}

fn vc_text(v: &VC, binders: usize) -> String {
    match v {
        | VC::Atom(a) => atom_text(*a),
        | VC::Thunk(c) => format!("Thk ({})", cc_text(c, binders)),
    }
}

fn cc_text(c: &CC, binders: usize) -> String {
    match c {
        | CC::OS => "OSType".into(),
        | CC::Bound(i) => format!("R{}", binders - 1 - i),
        | CC::Return(v) => format!("Ret ({})", vc_text(v, binders)),
        | CC::Arrow(a, r) => format!("({}) -> {}", vc_text(a, binders), cc_text(r, binders)),
        | CC::ForallCType(body) => format!("forall (R{} : CType) . {}", binders, cc_text(body, binders + 1)),
    }
}

/// number of value arrows of an operation classifier (under its thunk and quantifiers)
fn arrows(v: &VC) -> usize {
    fn count(c: &CC) -> usize {
        match c {
            | CC::Arrow(_, r) => 1 + count(r),
            | CC::ForallCType(b) => count(b),
            | _ => 0,
        }
    }
    match v {
        | VC::Thunk(c) => count(c),
        | VC::Atom(_) => 0,
    }
}

/// Normalise a type text for comparison: no spaces/parentheses, bound variable names unified.
fn squash(s: &str) -> String {
    s.chars().filter(|c| !c.is_whitespace() && *c != '(' && *c != ')').collect::<String>().replace("R0", "R")
}

fn run_table(_cfg: &Cfg, index: u64, stats: &mut Stats) {
    let role = Role::all().nth(index as usize).unwrap();
    let name = role.source_name();
    stats.evaluations += 1;
    stats.cover("roles", &name);
    let abi = BuiltinOperationAbi::for_role(role).into_classifier();
    let mut problems: Vec<String> = Vec::new();
    // arity() = arrows of the ABI classifier
    if arrows(&abi) != role.arity() {
        problems.push(format!("arity() = {} but the ABI classifier takes {} arguments: {}", role.arity(), arrows(&abi), abi));
    }
    // stack IR table under host_name()
    let builtins = zydeco_stackir::Builtin::all();
    match builtins.get(&role.host_name()) {
        | None => problems.push(format!("no stack-IR builtin named {}", role.host_name())),
        | Some(b) => {
            if b.arity != role.arity() {
                problems.push(format!("stack-IR builtin {} has arity {} but the role has {}", b.name, b.arity, role.arity()));
            }
        }
    }
    // names round-trip
    if Role::from_source_name(&name) != Some(role) {
        problems.push(format!("from_source_name(source_name()) = {:?}", Role::from_source_name(&name)));
    }
    // the harness's copy of the standard signature (from lib/std/builtin/**) agrees with the ABI classifier
    let declared = squash(&role_type(role));
    let from_abi = squash(&vc_text(&abi, 0));
    if declared != from_abi {
        problems.push(format!("standard signature type {:?} differs from the ABI classifier {:?}", role_type(role), vc_text(&abi, 0)));
    }
    if index == 0 {
        stats.exhaustive.push("table agreement for all 126 host roles".into());
        stats.sample(json!({"role": name, "abi": abi.to_string(), "declared": role_type(role), "arity": role.arity(), "host_name": role.host_name()}));
    }
    if !problems.is_empty() {
        fail(stats, "tables", index, "role-tables-disagree".into(), &name, json!({"role": name, "problems": problems}));
    }
}

/* ------------------------------------- text operations ------------------------------------- */

fn random_string(rng: &mut Rng) -> String {
    let pool: &[&str] = &["", "a", "Z", "0", " ", "\n", "é", "ß", "λ", "Ж", "中", "日本", "🙂", "👍🏽", "e\u{301}", "\u{200d}", ",", ";", "-", "+", "x=1", "\u{7f}", "\u{80}", "\u{7ff}", "\u{800}", "\u{ffff}", "\u{10000}", "\u{10ffff}"];
    let n = rng.below(8);
    (0..n).map(|_| *rng.pick(pool)).collect()
}

fn boundary_index(rng: &mut Rng, len: usize) -> i64 {
    let l = len as i64;
    *rng.pick(&[-1, 0, 1, l - 1, l, l + 1, i64::MIN, i64::MAX, l / 2, 2])
}

#[derive(Debug, PartialEq)]
enum Expect {
    Int(i64),
    Str(String),
    Bytes(Vec<u8>),
    /// branch with tag and applied arguments rendered
    Branch(i64, Vec<String>),
}

fn render(v: &SemValue) -> String {
    match v {
        | SemValue::Literal(Literal::Integer(IntegerLiteral::Int64(i))) => format!("i{}", i),
        | SemValue::Literal(Literal::String(s)) => format!("s{:?}", s.as_str()),
        | SemValue::Literal(Literal::Char(c)) => format!("c{:?}", c),
        | SemValue::Host(HostValue::Bytes(b)) => format!("b{:?}", &b[..]),
        | other => format!("?{:?}", other).chars().take(60).collect(),
    }
}

fn observe(outcome: &HostOutcome) -> Option<Expect> {
    Some(match outcome {
        | HostOutcome::Ret(SemValue::Literal(Literal::Integer(IntegerLiteral::Int64(i)))) => Expect::Int(*i),
        | HostOutcome::Ret(SemValue::Literal(Literal::String(s))) => Expect::Str(s.as_str().to_string()),
        | HostOutcome::Ret(SemValue::Host(HostValue::Bytes(b))) => Expect::Bytes(b.to_vec()),
        | HostOutcome::Branch { tag, applied } => Expect::Branch(*tag, applied.iter().map(render).collect()),
        | _ => return None,
    })
}

fn bytes_value(session_bytes: &[u8]) -> SemValue {
    // bytes can only be made by host operations: from a string when valid UTF-8, else by appending read results;
    // here: through bytes_from_str on a lossless carrier is impossible for invalid UTF-8, so callers use `make_bytes`
    SemValue::Host(HostValue::Bytes(session_bytes.to_vec().into()))
}

fn run_text(cfg: &Cfg, index: u64, stats: &mut Stats) {
    let mut rng = Rng::for_case(cfg.seed, "C06/text", index);
    const NONE: i64 = 0;
    const SOME: i64 = 1;
    let none = || tagged_thunk(NONE);
    let some = || tagged_thunk(SOME);
    // a batch of calls per case
    for _ in 0..12 {
        let s = random_string(&mut rng);
        let t = random_string(&mut rng);
        let chars: Vec<char> = s.chars().collect();
        let which = rng.below(16);
        let (role, args, expect): (Role, Vec<SemValue>, Expect) = match which {
            | 0 => (Role::StrScalarLength, vec![str_lit(&s)], Expect::Int(chars.len() as i64)),
            | 1 => (Role::StrByteLength, vec![str_lit(&s)], Expect::Int(s.len() as i64)),
            | 2 => (Role::StrAppend, vec![str_lit(&s), str_lit(&t)], Expect::Str(format!("{s}{t}"))),
            | 3 => {
                let sep = if !chars.is_empty() && rng.chance(2, 3) { chars[rng.below(chars.len())] } else { *rng.pick(&[',', 'é', '🙂', 'q']) };
                let expect = match chars.iter().position(|c| *c == sep) {
                    | Some(p) => Expect::Branch(SOME, vec![format!("s{:?}", chars[..p].iter().collect::<String>()), format!("s{:?}", chars[p + 1..].iter().collect::<String>())]),
                    | None => Expect::Branch(NONE, vec![]),
                };
                (Role::StrSplitOnce, vec![str_lit(&s), char_lit(sep), none(), some()], expect)
            }
            | 4 => {
                let i = boundary_index(&mut rng, chars.len());
                let expect = if i >= 0 && (i as u64) <= chars.len() as u64 {
                    let i = i as usize;
                    Expect::Branch(SOME, vec![format!("s{:?}", chars[..i].iter().collect::<String>()), format!("s{:?}", chars[i..].iter().collect::<String>())])
                } else {
                    Expect::Branch(NONE, vec![])
                };
                (Role::StrSplitAt, vec![str_lit(&s), int_lit(IntegerType::Int64, i as i128), none(), some()], expect)
            }
            | 5 => {
                let other = if rng.chance(1, 2) { s.clone() } else { t.clone() };
                (Role::StrEq, vec![str_lit(&s), str_lit(&other), tagged_thunk(1), tagged_thunk(0)], Expect::Branch(if s == other { 1 } else { 0 }, vec![]))
            }
            | 6 => {
                let i = boundary_index(&mut rng, chars.len());
                let expect = if i >= 0 && (i as u64) < chars.len() as u64 { Expect::Branch(SOME, vec![format!("c{:?}", chars[i as usize])]) } else { Expect::Branch(NONE, vec![]) };
                (Role::StrGet, vec![str_lit(&s), int_lit(IntegerType::Int64, i as i128), none(), some()], expect)
            }
            | 7 => {
                let c = chars.first().copied().unwrap_or('x');
                (Role::CharToStr, vec![char_lit(c)], Expect::Str(c.to_string()))
            }
            | 8 => {
                let c = chars.last().copied().unwrap_or('🙂');
                (Role::CharCodepoint, vec![char_lit(c)], Expect::Int(c as u32 as i64))
            }
            | 9 => {
                let cp: i64 = *rng.pick(&[-1, 0, 0x41, 0x7f, 0x80, 0xd7ff, 0xd800, 0xdbff, 0xdfff, 0xe000, 0xffff, 0x10000, 0x10ffff, 0x110000, i64::MAX, i64::MIN, 0x1_0000_0041]);
                let valid = (0..=0x10ffff).contains(&cp) && !(0xd800..=0xdfff).contains(&cp);
                let expect = if valid { Expect::Branch(SOME, vec![format!("c{:?}", char::from_u32(cp as u32).unwrap())]) } else { Expect::Branch(NONE, vec![]) };
                (Role::CharFromCodepoint, vec![int_lit(IntegerType::Int64, cp as i128), none(), some()], expect)
            }
            | 10 => {
                let text: String = match rng.below(12) {
                    | 0 => "".into(),
                    | 1 => "+".into(),
                    | 2 => "-".into(),
                    | 3 => " 5".into(),
                    | 4 => "5 ".into(),
                    | 5 => "9223372036854775807".into(),
                    | 6 => "9223372036854775808".into(),
                    | 7 => "-9223372036854775808".into(),
                    | 8 => "-9223372036854775809".into(),
                    | 9 => "+0042".into(),
                    | 10 => "٣".into(),
                    | _ => format!("{}{}", rng.range(-1000, 1000), if rng.chance(1, 4) { "x" } else { "" }),
                };
                // model: optional sign, one or more ASCII digits, value in range
                let model = {
                    let (neg, digits) = match text.strip_prefix('-') {
                        | Some(d) => (true, d),
                        | None => (false, text.strip_prefix('+').unwrap_or(&text)),
                    };
                    if digits.is_empty() || !digits.bytes().all(|b| b.is_ascii_digit()) {
                        None
                    } else {
                        let mut acc: i128 = 0;
                        let mut overflow = false;
                        for b in digits.bytes() {
                            acc = acc * 10 + (b - b'0') as i128;
                            if acc > (1i128 << 64) {
                                overflow = true;
                                break;
                            }
                        }
                        let v = if neg { -acc } else { acc };
                        if overflow || v < i64::MIN as i128 || v > i64::MAX as i128 { None } else { Some(v as i64) }
                    }
                };
                let expect = match model {
                    | Some(v) => Expect::Branch(SOME, vec![format!("i{}", v)]),
                    | None => Expect::Branch(NONE, vec![]),
                };
                (Role::StrParseInt, vec![str_lit(&text), none(), some()], expect)
            }
            | 11 => (Role::BytesEmpty, vec![], Expect::Bytes(vec![])),
            | 12 => (Role::BytesFromStr, vec![str_lit(&s)], Expect::Bytes(s.as_bytes().to_vec())),
            | 13 => {
                let b: Vec<u8> = random_bytes(&mut rng);
                (Role::BytesLength, vec![bytes_value(&b)], Expect::Int(b.len() as i64))
            }
            | 14 => {
                let (a, b) = (random_bytes(&mut rng), random_bytes(&mut rng));
                let mut joined = a.clone();
                joined.extend_from_slice(&b);
                (Role::BytesAppend, vec![bytes_value(&a), bytes_value(&b)], Expect::Bytes(joined))
            }
            | _ => {
                let b = random_bytes(&mut rng);
                let expect = match std::str::from_utf8(&b) {
                    | Ok(s) => Expect::Branch(SOME, vec![format!("s{:?}", s)]),
                    | Err(_) => Expect::Branch(NONE, vec![]),
                };
                (Role::BytesToStr, vec![bytes_value(&b), none(), some()], expect)
            }
        };
        let name = role.source_name();
        stats.cover("roles_called", &name);
        let key = format!("{}/{:?}", name, args.iter().map(render).collect::<Vec<_>>());
        stats.nontrivial(key.as_bytes());
        let args_rendered: Vec<String> = args.iter().map(render).collect();
        let call = hostcall::call(role, role.arity(), args, b"", &[]);
        stats.evaluations += 1;
        let observed = call.outcome.as_ref().ok().and_then(observe);
        if let Expect::Branch(tag, _) = &expect {
            stats.cover("branches_taken", &format!("{}:{}", name, tag));
        }
        if observed.as_ref() != Some(&expect) || call.frames_left != 0 {
            let signature = match &call.outcome {
                | Err(p) => format!("host-operation-panics {}", p.site()),
                | Ok(_) => format!("host-operation-contract {}", name),
            };
            fail(stats, "text", index, signature, &name, json!({
                "role": name, "arguments": args_rendered, "expected": format!("{:?}", expect),
                "observed": format!("{:?}", call.outcome.as_ref().map(|o| observe(o)).map_err(|p| p.short())), "frames_left": call.frames_left,
            }));
        }
    }
    if index == 0 {
        stats.sample(json!({"text_call": "str_split_at \"日本🙂\" 2 -> some(\"日本\", \"🙂\"); indices are Unicode scalar positions"}));
    }
}

fn random_bytes(rng: &mut Rng) -> Vec<u8> {
    match rng.below(5) {
        | 0 => Vec::new(),
        | 1 => random_string(rng).into_bytes(),
        | 2 => vec![0xff, 0xfe],
        | 3 => vec![0xe6, 0x97],        // truncated 3-byte sequence
        | _ => (0..rng.below(6)).map(|_| rng.next() as u8).collect(),
    }
}

/* ----------------------------------------- I/O ----------------------------------------- */

const ERR: i64 = 100;
const OK: i64 = 200;
const EOF: i64 = 300;

fn err_k() -> SemValue {
    tagged_thunk(ERR)
}
fn ok_k() -> SemValue {
    tagged_thunk(OK)
}

/// the branch taken and its applied arguments
fn branch(outcome: &Result<HostOutcome, crate::util::panic::PanicInfo>) -> Result<(i64, Vec<SemValue>), String> {
    match outcome {
        | Ok(HostOutcome::Branch { tag, applied }) => Ok((*tag, applied.clone())),
        | Ok(other) => Err(format!("unexpected outcome {:?}", other).chars().take(200).collect()),
        | Err(p) => Err(format!("panic {}", p.short())),
    }
}

fn error_kind(applied: &[SemValue]) -> Option<i64> {
    match applied {
        | [SemValue::Literal(Literal::Integer(IntegerLiteral::Int64(k))), SemValue::Literal(Literal::String(_))] => Some(*k),
        | _ => None,
    }
}

fn run_io(cfg: &Cfg, index: u64, stats: &mut Stats) {
    let mut rng = Rng::for_case(cfg.seed, "C06/io", index);
    let scratch = Scratch::new("c06io");
    let dir = scratch.path().to_path_buf();
    let file = scratch.write("data.txt", b"first\r\nsecond\n\nlast");
    let file_s = file.to_str().unwrap().to_string();
    let payload: String = random_string(&mut rng) + "payload";
    let stdin: Vec<u8> = b"in1\r\n\nin3".to_vec();
    let mut problems: Vec<(String, String)> = Vec::new();
    let mut expect = |cond: bool, role: &str, what: String, problems: &mut Vec<(String, String)>| {
        if !cond {
            problems.push((role.to_string(), what));
        }
    };
    let ((), stdout) = with_session(&stdin, &[], |s| {
        macro_rules! call {
            ($role:expr, $args:expr) => {{
                let role: Role = $role;
                stats.cover("roles_called", &role.source_name());
                stats.evaluations += 1;
                let (outcome, left) = s.call(role, $args);
                if left != 0 {
                    problems.push((role.source_name(), format!("{} frames left on the stack", left)));
                }
                outcome
            }};
        }
        let host_string = |v: &SemValue| match v {
            | SemValue::Host(HostValue::Bytes(b)) => Some(b.to_vec()),
            | _ => None,
        };
        // 1. missing path: error continuation, kind NotFound = 0
        for role in [Role::FsOpenReader] {
            let o = call!(role, vec![str_lit(dir.join("missing.txt").to_str().unwrap()), err_k(), ok_k()]);
            let b = branch(&o);
            expect(matches!(&b, Ok((ERR, a)) if error_kind(a) == Some(0)), &role.source_name(), format!("missing path: {:?}", b.map(|(t, a)| (t, a.iter().map(render).collect::<Vec<_>>()))), &mut problems);
        }
        // 2. a path through a regular file (ENOTDIR) and a directory as a writer target (EISDIR): error continuation
        for (role, path) in [
            (Role::FsOpenReader, format!("{}/x", file_s)),
            (Role::FsCreateWriter, format!("{}/x", file_s)),
            (Role::FsAppendWriter, format!("{}/x", file_s)),
            (Role::FsCreateWriter, dir.to_str().unwrap().to_string()),
            (Role::FsAppendWriter, dir.to_str().unwrap().to_string()),
        ] {
            let o = call!(role, vec![str_lit(&path), err_k(), ok_k()]);
            let b = branch(&o);
            expect(matches!(&b, Ok((ERR, a)) if error_kind(a).is_some()), &role.source_name(), format!("unusable path {}: {:?}", path, b.map(|(t, a)| (t, a.iter().map(render).collect::<Vec<_>>()))), &mut problems);
        }
        // 3. open, read lines (CRLF, empty line, last line without newline), EOF, read after close, double close
        let o = call!(Role::FsOpenReader, vec![str_lit(&file_s), err_k(), ok_k()]);
        if let Ok((OK, applied)) = branch(&o) {
            let reader = applied[0].clone();
            let mut lines: Vec<Vec<u8>> = Vec::new();
            let mut saw_eof = false;
            for _ in 0..6 {
                let o = call!(Role::IoReadLine, vec![reader.clone(), err_k(), tagged_thunk(EOF), ok_k()]);
                match branch(&o) {
                    | Ok((OK, a)) => lines.push(host_string(&a[0]).unwrap_or_default()),
                    | Ok((EOF, a)) if a.is_empty() => {
                        saw_eof = true;
                        break;
                    }
                    | other => {
                        problems.push(("io_read_line".into(), format!("{:?}", other.map(|(t, _)| t))));
                        break;
                    }
                }
            }
            let want: Vec<Vec<u8>> = vec![b"first".to_vec(), b"second".to_vec(), b"".to_vec(), b"last".to_vec()];
            expect(lines == want && saw_eof, "io_read_line", format!("lines {:?} eof {} (want {:?} then EOF)", lines.iter().map(|l| String::from_utf8_lossy(l).to_string()).collect::<Vec<_>>(), saw_eof, want.iter().map(|l| String::from_utf8_lossy(l).to_string()).collect::<Vec<_>>()), &mut problems);
            let o = call!(Role::IoCloseReader, vec![reader.clone(), err_k(), ok_k()]);
            expect(matches!(branch(&o), Ok((OK, a)) if a.is_empty()), "io_close_reader", "first close".into(), &mut problems);
            let o = call!(Role::IoCloseReader, vec![reader.clone(), err_k(), ok_k()]);
            expect(matches!(branch(&o), Ok((ERR, a)) if error_kind(&a) == Some(6)), "io_close_reader", "double close must report Closed (6)".into(), &mut problems);
            let o = call!(Role::IoReadAll, vec![reader.clone(), err_k(), ok_k()]);
            expect(matches!(branch(&o), Ok((ERR, a)) if error_kind(&a) == Some(6)), "io_read_all", "read after close must report Closed (6)".into(), &mut problems);
            let o = call!(Role::IoRead, vec![reader.clone(), int_lit(IntegerType::Int64, 4), err_k(), ok_k()]);
            expect(matches!(branch(&o), Ok((ERR, a)) if error_kind(&a) == Some(6)), "io_read", "read after close must report Closed (6)".into(), &mut problems);
        } else {
            problems.push(("fs_open_reader".into(), "cannot open an existing file".into()));
        }
        // 4. io_read: bounded count, negative count
        let o = call!(Role::FsOpenReader, vec![str_lit(&file_s), err_k(), ok_k()]);
        if let Ok((OK, applied)) = branch(&o) {
            let reader = applied[0].clone();
            let o = call!(Role::IoRead, vec![reader.clone(), int_lit(IntegerType::Int64, 3), err_k(), ok_k()]);
            expect(matches!(branch(&o), Ok((OK, a)) if host_string(&a[0]) == Some(b"fir".to_vec())), "io_read", "3 bytes".into(), &mut problems);
            let o = call!(Role::IoRead, vec![reader.clone(), int_lit(IntegerType::Int64, -1), err_k(), ok_k()]);
            expect(matches!(branch(&o), Ok((ERR, a)) if error_kind(&a).is_some()), "io_read", "negative count must take the error continuation".into(), &mut problems);
            let o = call!(Role::IoRead, vec![reader.clone(), int_lit(IntegerType::Int64, 0), err_k(), ok_k()]);
            expect(matches!(branch(&o), Ok((OK, a)) if host_string(&a[0]) == Some(vec![])), "io_read", "0 bytes".into(), &mut problems);
            let o = call!(Role::IoReadAll, vec![reader.clone(), err_k(), ok_k()]);
            expect(matches!(branch(&o), Ok((OK, a)) if host_string(&a[0]) == Some(b"st\r\nsecond\n\nlast".to_vec())), "io_read_all", "rest of the file".into(), &mut problems);
        }
        // 5. a directory opened as a reader: reading reports through the error continuation
        let o = call!(Role::FsOpenReader, vec![str_lit(dir.to_str().unwrap()), err_k(), ok_k()]);
        match branch(&o) {
            | Ok((OK, applied)) => {
                let o = call!(Role::IoReadAll, vec![applied[0].clone(), err_k(), ok_k()]);
                expect(matches!(branch(&o), Ok((ERR, a)) if error_kind(&a).is_some()), "io_read_all", "reading a directory must take the error continuation".into(), &mut problems);
            }
            | Ok((ERR, a)) => expect(error_kind(&a).is_some(), "fs_open_reader", "directory".into(), &mut problems),
            | other => problems.push(("fs_open_reader".into(), format!("directory: {:?}", other.map(|(t, _)| t)))),
        }
        // 6. create truncates, append appends, closed writer stays closed
        let out_path = dir.join("out.txt");
        std::fs::write(&out_path, b"OLD CONTENT").unwrap();
        let out_s = out_path.to_str().unwrap().to_string();
        let write = |s: &mut hostcall::HostSession<'_>, role: Role, text: &str, problems: &mut Vec<(String, String)>, stats: &mut Stats| -> Option<SemValue> {
            stats.evaluations += 1;
            let (o, _) = s.call(role, vec![str_lit(&out_s), err_k(), ok_k()]);
            let Ok((OK, applied)) = branch(&o) else {
                problems.push((role.source_name(), "cannot open writer".into()));
                return None;
            };
            let writer = applied[0].clone();
            let (b, _) = s.call(Role::BytesFromStr, vec![str_lit(text)]);
            let Ok(HostOutcome::Ret(bytes)) = b else { return None };
            let (o, _) = s.call(Role::IoWriteAll, vec![writer.clone(), bytes, err_k(), ok_k()]);
            if !matches!(branch(&o), Ok((OK, a)) if a.is_empty()) {
                problems.push(("io_write_all".into(), "write failed".into()));
            }
            let (o, _) = s.call(Role::IoFlush, vec![writer.clone(), err_k(), ok_k()]);
            if !matches!(branch(&o), Ok((OK, _))) {
                problems.push(("io_flush".into(), "flush failed".into()));
            }
            Some(writer)
        };
        if let Some(w) = write(s, Role::FsCreateWriter, &payload, &mut problems, stats) {
            let o = call!(Role::IoCloseWriter, vec![w.clone(), err_k(), ok_k()]);
            expect(matches!(branch(&o), Ok((OK, _))), "io_close_writer", "close".into(), &mut problems);
            expect(std::fs::read(&out_path).ok() == Some(payload.as_bytes().to_vec()), "fs_create_writer", "create must truncate".into(), &mut problems);
            let o = call!(Role::IoCloseWriter, vec![w.clone(), err_k(), ok_k()]);
            expect(matches!(branch(&o), Ok((ERR, a)) if error_kind(&a) == Some(6)), "io_close_writer", "double close must report Closed (6)".into(), &mut problems);
            let (b, _) = s.call(Role::BytesFromStr, vec![str_lit("late")]);
            if let Ok(HostOutcome::Ret(bytes)) = b {
                let o = call!(Role::IoWriteAll, vec![w.clone(), bytes, err_k(), ok_k()]);
                expect(matches!(branch(&o), Ok((ERR, a)) if error_kind(&a) == Some(6)), "io_write_all", "write after close must report Closed (6)".into(), &mut problems);
            }
        }
        if let Some(w) = write(s, Role::FsAppendWriter, "+more", &mut problems, stats) {
            let _ = call!(Role::IoCloseWriter, vec![w, err_k(), ok_k()]);
            let mut want = payload.as_bytes().to_vec();
            want.extend_from_slice(b"+more");
            expect(std::fs::read(&out_path).ok() == Some(want), "fs_append_writer", "append must append".into(), &mut problems);
        }
        // 7. standard handles: survive close; stdin lines (CRLF, empty, last without newline) then EOF
        let stdin_h = match call!(Role::Stdin, vec![]) {
            | Ok(HostOutcome::Ret(v)) => v,
            | _ => return,
        };
        let o = call!(Role::IoCloseReader, vec![stdin_h.clone(), err_k(), ok_k()]);
        expect(matches!(branch(&o), Ok((OK, _))), "io_close_reader", "closing stdin succeeds".into(), &mut problems);
        let mut lines = Vec::new();
        let mut eof = false;
        for _ in 0..5 {
            let o = call!(Role::IoReadLine, vec![stdin_h.clone(), err_k(), tagged_thunk(EOF), ok_k()]);
            match branch(&o) {
                | Ok((OK, a)) => lines.push(host_string(&a[0]).unwrap_or_default()),
                | Ok((EOF, _)) => {
                    eof = true;
                    break;
                }
                | _ => break,
            }
        }
        expect(lines == vec![b"in1".to_vec(), b"".to_vec(), b"in3".to_vec()] && eof, "io_read_line", format!("stdin after close: {:?} eof {}", lines, eof), &mut problems);
        for role in [Role::Stdout, Role::Stderr] {
            if let Ok(HostOutcome::Ret(w)) = call!(role, vec![]) {
                let o = call!(Role::IoCloseWriter, vec![w.clone(), err_k(), ok_k()]);
                expect(matches!(branch(&o), Ok((OK, _))), "io_close_writer", "closing a standard writer succeeds".into(), &mut problems);
                let (b, _) = s.call(Role::BytesFromStr, vec![str_lit("[after close]")]);
                if let Ok(HostOutcome::Ret(bytes)) = b {
                    let o = call!(Role::IoWriteAll, vec![w.clone(), bytes, err_k(), ok_k()]);
                    expect(matches!(branch(&o), Ok((OK, _))), "io_write_all", "standard writers survive close".into(), &mut problems);
                }
            }
        }
        // 8. legacy standard-output writers
        let o = call!(Role::WriteStr, vec![str_lit("ws"), ok_k()]);
        expect(matches!(branch(&o), Ok((OK, a)) if a.is_empty()), "write_str", "continuation".into(), &mut problems);
        let o = call!(Role::WriteInt, vec![int_lit(IntegerType::Int64, -42), ok_k()]);
        expect(matches!(branch(&o), Ok((OK, a)) if a.is_empty()), "write_int", "continuation".into(), &mut problems);
        let o = call!(Role::WriteLine, vec![str_lit("wl"), ok_k()]);
        expect(matches!(branch(&o), Ok((OK, a)) if a.is_empty()), "write_line", "continuation".into(), &mut problems);
        // 9. random_int continues with one Int64; exit ends with the code
        let o = call!(Role::RandomInt, vec![ok_k()]);
        expect(matches!(branch(&o), Ok((OK, a)) if matches!(a.as_slice(), [SemValue::Literal(Literal::Integer(IntegerLiteral::Int64(_)))])), "random_int", "one Int64 argument".into(), &mut problems);
        let o = call!(Role::Exit, vec![int_lit(IntegerType::Int64, 7)]);
        expect(matches!(o, Ok(HostOutcome::Exit(7))), "exit", "exit code".into(), &mut problems);
    });
    let out = String::from_utf8_lossy(&stdout).to_string();
    expect(out == "[after close][after close]ws-42wl\n", "stdout", format!("bytes written to stdout: {:?}", out), &mut problems);
    // legacy readers on valid UTF-8
    let ((), _) = with_session("12\r\nrest of\ninput".as_bytes(), &[], |s| {
        stats.evaluations += 3;
        let (o, _) = s.call(Role::ReadLineAsInt, vec![tagged_thunk(0), tagged_thunk(1)]);
        expect(matches!(branch(&o), Ok((1, a)) if matches!(a.as_slice(), [SemValue::Literal(Literal::Integer(IntegerLiteral::Int64(12)))])), "read_line_as_int", "12".into(), &mut problems);
        let (o, _) = s.call(Role::ReadLine, vec![ok_k()]);
        expect(matches!(branch(&o), Ok((OK, a)) if a.iter().map(render).collect::<Vec<_>>() == vec!["s\"rest of\"".to_string()]), "read_line", "second line".into(), &mut problems);
        let (o, _) = s.call(Role::ReadTillEof, vec![ok_k()]);
        expect(matches!(branch(&o), Ok((OK, a)) if a.iter().map(render).collect::<Vec<_>>() == vec!["s\"input\"".to_string()]), "read_till_eof", "remaining input".into(), &mut problems);
        stats.cover("roles_called", "read_line_as_int");
        stats.cover("roles_called", "read_line");
        stats.cover("roles_called", "read_till_eof");
    });
    stats.nontrivial(format!("io/{}/{}", index, payload).as_bytes());
    if index == 0 {
        stats.sample(json!({"io_script": "open missing / through-file / directory; read lines CRLF+empty+unterminated; EOF; close; double close; read after close; negative count; create truncates; append appends; std handles survive close"}));
    }
    for (role, what) in problems {
        fail(stats, "io", index, format!("host-io-contract {}", role), &role, json!({"role": role, "problem": what}));
    }
}

/* ------------------------------- handle histories against a model ------------------------------- */

/// A random history of opens, reads, writes, flushes and closes over a few files on one machine. Every capability ever
/// obtained is kept and used again at random, closed or not. The model: a reader is (file, position) or closed, a writer
/// is (file) or closed; a closed capability stays closed whatever is opened later, distinct open capabilities never share
/// state, reads deliver exactly the file's bytes from the capability's own position, and after everything is closed the
/// files hold what the model says (create truncates at open time, append appends, each writer's bytes in order).
fn run_handles(cfg: &Cfg, index: u64, stats: &mut Stats) {
    let mut rng = Rng::for_case(cfg.seed, "C06/handles", index);
    let scratch = Scratch::new("c06h");
    let dir = scratch.path().to_path_buf();
    // read-only inputs with distinguishable content, and output files
    let inputs: Vec<(String, Vec<u8>)> = (0..3)
        .map(|k| {
            let lines = 1 + rng.below(4);
            let mut content = Vec::new();
            for l in 0..lines {
                content.extend_from_slice(format!("in{k}-line{l}").as_bytes());
                if l + 1 < lines || rng.chance(1, 2) {
                    content.extend_from_slice(if rng.chance(1, 4) { b"\r\n" } else { b"\n" });
                }
            }
            let path = scratch.write(&format!("in{k}.txt"), &content);
            (path.to_str().unwrap().to_string(), content)
        })
        .collect();
    let outputs: Vec<String> = (0..2).map(|k| dir.join(format!("out{k}.txt")).to_str().unwrap().to_string()).collect();
    let mut out_model: Vec<Vec<u8>> = vec![Vec::new(); outputs.len()];
    for (k, path) in outputs.iter().enumerate() {
        let initial = format!("OLD{k}").into_bytes();
        std::fs::write(path, &initial).unwrap();
        out_model[k] = initial;
    }
    #[derive(Clone)]
    enum ReaderState {
        Open(usize, usize),
        Closed,
    }
    #[derive(Clone)]
    enum WriterState {
        Open(usize),
        Closed,
    }
    let mut readers: Vec<(SemValue, ReaderState)> = Vec::new();
    let mut writers: Vec<(SemValue, WriterState)> = Vec::new();
    let mut history: Vec<String> = Vec::new();
    let mut problems: Vec<(String, String)> = Vec::new();
    let steps = 8 + rng.below(25);
    let host_bytes = |v: &SemValue| match v {
        | SemValue::Host(HostValue::Bytes(b)) => Some(b.to_vec()),
        | _ => None,
    };
    let ((), _) = with_session(b"", &[], |s| {
        for step in 0..steps {
            if !problems.is_empty() {
                break;
            }
            stats.evaluations += 1;
            let busy_output = |k: usize, writers: &Vec<(SemValue, WriterState)>| writers.iter().any(|(_, st)| matches!(st, WriterState::Open(f) if *f == k));
            match rng.below(10) {
                | 0 | 1 => {
                    let f = rng.below(inputs.len());
                    let (o, _) = s.call(Role::FsOpenReader, vec![str_lit(&inputs[f].0), err_k(), ok_k()]);
                    history.push(format!("{step}: open_reader in{f} -> r{}", readers.len()));
                    match branch(&o) {
                        | Ok((OK, a)) if a.len() == 1 => readers.push((a[0].clone(), ReaderState::Open(f, 0))),
                        | other => problems.push(("fs_open_reader".into(), format!("opening an existing file: {:?}", other.map(|(t, _)| t)))),
                    }
                    stats.cover("roles_called", "fs_open_reader");
                }
                | 2 | 3 if !readers.is_empty() => {
                    let h = rng.below(readers.len());
                    let (cap, state) = readers[h].clone();
                    let (o, _) = s.call(Role::IoReadLine, vec![cap, err_k(), tagged_thunk(EOF), ok_k()]);
                    history.push(format!("{step}: read_line r{h}"));
                    stats.cover("roles_called", "io_read_line");
                    match state {
                        | ReaderState::Closed => {
                            if !matches!(branch(&o), Ok((ERR, a)) if error_kind(&a) == Some(6)) {
                                problems.push(("io_read_line".into(), format!("r{h} is closed: reading it must report Closed (6), got {:?}", branch(&o).map(|(t, a)| (t, a.iter().map(render).collect::<Vec<_>>())))));
                            }
                            stats.count("handle_ops_on_closed_capability");
                        }
                        | ReaderState::Open(f, pos) => {
                            let content = &inputs[f].1;
                            if pos >= content.len() {
                                if !matches!(branch(&o), Ok((EOF, a)) if a.is_empty()) {
                                    problems.push(("io_read_line".into(), format!("r{h} (in{f}) is at end of file: expected the EOF branch")));
                                }
                            } else {
                                let rest = &content[pos..];
                                let (line, consumed) = match rest.iter().position(|b| *b == b'\n') {
                                    | Some(n) => (rest[..n].strip_suffix(b"\r").unwrap_or(&rest[..n]).to_vec(), n + 1),
                                    | None => (rest.to_vec(), rest.len()),
                                };
                                match branch(&o) {
                                    | Ok((OK, a)) if a.len() == 1 && host_bytes(&a[0]) == Some(line.clone()) => {}
                                    | other => problems.push(("io_read_line".into(), format!("r{h} (in{f} at {pos}): expected line {:?}, got {:?}", String::from_utf8_lossy(&line), other.map(|(t, a)| (t, a.iter().map(render).collect::<Vec<_>>()))))),
                                }
                                readers[h].1 = ReaderState::Open(f, pos + consumed);
                            }
                        }
                    }
                }
                | 4 if !readers.is_empty() => {
                    let h = rng.below(readers.len());
                    let (cap, state) = readers[h].clone();
                    let (o, _) = s.call(Role::IoReadAll, vec![cap, err_k(), ok_k()]);
                    history.push(format!("{step}: read_all r{h}"));
                    stats.cover("roles_called", "io_read_all");
                    match state {
                        | ReaderState::Closed => {
                            if !matches!(branch(&o), Ok((ERR, a)) if error_kind(&a) == Some(6)) {
                                problems.push(("io_read_all".into(), format!("r{h} is closed: reading it must report Closed (6), got {:?}", branch(&o).map(|(t, a)| (t, a.iter().map(render).collect::<Vec<_>>())))));
                            }
                            stats.count("handle_ops_on_closed_capability");
                        }
                        | ReaderState::Open(f, pos) => {
                            let rest = inputs[f].1[pos.min(inputs[f].1.len())..].to_vec();
                            match branch(&o) {
                                | Ok((OK, a)) if a.len() == 1 && host_bytes(&a[0]) == Some(rest.clone()) => {}
                                | other => problems.push(("io_read_all".into(), format!("r{h} (in{f} at {pos}): expected {:?}, got {:?}", String::from_utf8_lossy(&rest), other.map(|(t, a)| (t, a.iter().map(render).collect::<Vec<_>>()))))),
                            }
                            readers[h].1 = ReaderState::Open(f, inputs[f].1.len());
                        }
                    }
                }
                | 5 if !readers.is_empty() => {
                    let h = rng.below(readers.len());
                    let (cap, state) = readers[h].clone();
                    let (o, _) = s.call(Role::IoCloseReader, vec![cap, err_k(), ok_k()]);
                    history.push(format!("{step}: close_reader r{h}"));
                    stats.cover("roles_called", "io_close_reader");
                    match state {
                        | ReaderState::Closed => {
                            if !matches!(branch(&o), Ok((ERR, a)) if error_kind(&a) == Some(6)) {
                                problems.push(("io_close_reader".into(), format!("r{h} is already closed: closing it again must report Closed (6)")));
                            }
                            stats.count("handle_ops_on_closed_capability");
                        }
                        | ReaderState::Open(..) => {
                            if !matches!(branch(&o), Ok((OK, a)) if a.is_empty()) {
                                problems.push(("io_close_reader".into(), format!("closing the open r{h} failed")));
                            }
                            readers[h].1 = ReaderState::Closed;
                        }
                    }
                }
                | 6 => {
                    let k = rng.below(outputs.len());
                    if busy_output(k, &writers) {
                        continue; // one open writer per file: concurrent writers are outside the model
                    }
                    let append = rng.chance(1, 2);
                    let role = if append { Role::FsAppendWriter } else { Role::FsCreateWriter };
                    let (o, _) = s.call(role, vec![str_lit(&outputs[k]), err_k(), ok_k()]);
                    history.push(format!("{step}: {} out{k} -> w{}", if append { "append_writer" } else { "create_writer" }, writers.len()));
                    stats.cover("roles_called", &role.source_name());
                    match branch(&o) {
                        | Ok((OK, a)) if a.len() == 1 => {
                            writers.push((a[0].clone(), WriterState::Open(k)));
                            if !append {
                                out_model[k].clear();
                            }
                        }
                        | other => problems.push((role.source_name(), format!("opening a writer: {:?}", other.map(|(t, _)| t)))),
                    }
                }
                | 7 | 8 if !writers.is_empty() => {
                    let h = rng.below(writers.len());
                    let (cap, state) = writers[h].clone();
                    let text = format!("<w{h}s{step}>");
                    let (b, _) = s.call(Role::BytesFromStr, vec![str_lit(&text)]);
                    let Ok(HostOutcome::Ret(bytes)) = b else { continue };
                    let (o, _) = s.call(Role::IoWriteAll, vec![cap.clone(), bytes, err_k(), ok_k()]);
                    history.push(format!("{step}: write_all w{h} {text}"));
                    stats.cover("roles_called", "io_write_all");
                    match state {
                        | WriterState::Closed => {
                            if !matches!(branch(&o), Ok((ERR, a)) if error_kind(&a) == Some(6)) {
                                problems.push(("io_write_all".into(), format!("w{h} is closed: writing to it must report Closed (6), got {:?}", branch(&o).map(|(t, a)| (t, a.iter().map(render).collect::<Vec<_>>())))));
                            }
                            stats.count("handle_ops_on_closed_capability");
                        }
                        | WriterState::Open(k) => {
                            if !matches!(branch(&o), Ok((OK, a)) if a.is_empty()) {
                                problems.push(("io_write_all".into(), format!("writing to the open w{h} failed")));
                            }
                            out_model[k].extend_from_slice(text.as_bytes());
                            if rng.chance(1, 3) {
                                let (o, _) = s.call(Role::IoFlush, vec![cap, err_k(), ok_k()]);
                                history.push(format!("{step}: flush w{h}"));
                                if !matches!(branch(&o), Ok((OK, _))) {
                                    problems.push(("io_flush".into(), format!("flushing the open w{h} failed")));
                                }
                            }
                        }
                    }
                }
                | 9 if !writers.is_empty() => {
                    let h = rng.below(writers.len());
                    let (cap, state) = writers[h].clone();
                    let (o, _) = s.call(Role::IoCloseWriter, vec![cap, err_k(), ok_k()]);
                    history.push(format!("{step}: close_writer w{h}"));
                    stats.cover("roles_called", "io_close_writer");
                    match state {
                        | WriterState::Closed => {
                            if !matches!(branch(&o), Ok((ERR, a)) if error_kind(&a) == Some(6)) {
                                problems.push(("io_close_writer".into(), format!("w{h} is already closed: closing it again must report Closed (6)")));
                            }
                            stats.count("handle_ops_on_closed_capability");
                        }
                        | WriterState::Open(_) => {
                            if !matches!(branch(&o), Ok((OK, _))) {
                                problems.push(("io_close_writer".into(), format!("closing the open w{h} failed")));
                            }
                            writers[h].1 = WriterState::Closed;
                        }
                    }
                }
                | _ => {}
            }
        }
        // quiescent point: close what is open, then compare the files with the model
        for h in 0..writers.len() {
            if let (cap, WriterState::Open(_)) = writers[h].clone() {
                let _ = s.call(Role::IoCloseWriter, vec![cap, err_k(), ok_k()]);
                writers[h].1 = WriterState::Closed;
            }
        }
    });
    if problems.is_empty() {
        for (k, path) in outputs.iter().enumerate() {
            let on_disk = std::fs::read(path).unwrap_or_default();
            if on_disk != out_model[k] {
                problems.push(("file-contents".into(), format!("out{k} holds {:?}, the model says {:?}", String::from_utf8_lossy(&on_disk), String::from_utf8_lossy(&out_model[k]))));
            }
        }
    }
    let closed_then_opened = history.iter().any(|h| h.contains("close_")) && history.len() >= 6;
    if closed_then_opened {
        stats.nontrivial(history.join(";").as_bytes());
    }
    stats.add("handle_history_operations", history.len() as u64);
    if index == 1 {
        stats.sample(json!({"handle_history": history}));
    }
    for (role, what) in problems {
        fail(stats, "handles", index, format!("host-handle-contract {}", role), &role, json!({"role": role, "problem": what, "history": history}));
    }
}

/* ---------------------------------- signature mutations ---------------------------------- */

fn mutations(v: &VC) -> Vec<(String, VC)> {
    let VC::Thunk(body) = v else { return vec![] };
    // split quantifiers / arrows / result
    fn split(c: &CC) -> (usize, Vec<VC>, CC) {
        match c {
            | CC::ForallCType(b) => {
                let (q, a, r) = split(b);
                (q + 1, a, r)
            }
            | CC::Arrow(a, r) => {
                let (q, mut args, res) = split(r);
                args.insert(0, a.clone());
                (q, args, res)
            }
            | other => (0, vec![], other.clone()),
        }
    }
    fn build(q: usize, args: &[VC], result: CC) -> VC {
        let mut c = result;
        for a in args.iter().rev() {
            c = CC::Arrow(a.clone(), Box::new(c));
        }
        for _ in 0..q {
            c = CC::ForallCType(Box::new(c));
        }
        VC::Thunk(Box::new(c))
    }
    let (q, args, result) = split(body);
    let other_atom = |a: &Atom| match a {
        | Atom::Integer(IntegerType::Int64) => Atom::Integer(IntegerType::Int32),
        | Atom::Integer(_) => Atom::Integer(IntegerType::Int64),
        | Atom::String => Atom::Bytes,
        | Atom::Bytes => Atom::String,
        | Atom::Char => Atom::Integer(IntegerType::Int64),
        | Atom::Float(zydeco_syntax::FloatType::Float32) => Atom::Float(zydeco_syntax::FloatType::Float64),
        | Atom::Float(_) => Atom::Float(zydeco_syntax::FloatType::Float32),
        | Atom::Reader => Atom::Writer,
        | Atom::Writer => Atom::Reader,
    };
    let mut out = Vec::new();
    if !args.is_empty() {
        out.push(("drop-last-argument".to_string(), build(q, &args[..args.len() - 1], result.clone())));
        out.push(("drop-first-argument".to_string(), build(q, &args[1..], result.clone())));
    }
    let mut more = args.clone();
    more.push(VC::Atom(Atom::Integer(IntegerType::Int64)));
    out.push(("extra-argument".to_string(), build(q, &more, result.clone())));
    for i in 0..args.len() {
        for j in i + 1..args.len() {
            if args[i] != args[j] {
                let mut swapped = args.clone();
                swapped.swap(i, j);
                out.push((format!("swap-arguments-{i}-{j}"), build(q, &swapped, result.clone())));
            }
        }
        match &args[i] {
            | VC::Atom(a) => {
                let mut changed = args.clone();
                changed[i] = VC::Atom(other_atom(a));
                out.push((format!("change-atom-of-argument-{i}"), build(q, &changed, result.clone())));
            }
            | VC::Thunk(c) => {
                // retype a continuation: Thk R -> Thk OS (or Thk OS -> Thk (Ret Int64))
                let retyped = match &**c {
                    | CC::OS => CC::Return(Box::new(VC::Atom(Atom::Integer(IntegerType::Int64)))),
                    | _ => CC::OS,
                };
                let mut changed = args.clone();
                changed[i] = VC::Thunk(Box::new(retyped));
                out.push((format!("retype-continuation-{i}"), build(q, &changed, result.clone())));
            }
        }
    }
    // result
    let new_result = match &result {
        | CC::Return(v) => match &**v {
            | VC::Atom(a) => CC::Return(Box::new(VC::Atom(other_atom(a)))),
            | _ => CC::OS,
        },
        | CC::OS => CC::Return(Box::new(VC::Atom(Atom::Integer(IntegerType::Int64)))),
        | CC::Bound(_) => CC::OS,
        | other => other.clone(),
    };
    if new_result != result {
        out.push(("change-result".to_string(), build(q, &args, new_result)));
    }
    // not a thunk at all
    if let Some(VC::Atom(a)) = args.first() {
        out.push(("bare-atom".to_string(), VC::Atom(*a)));
    }
    out
}

fn run_sigmut(_cfg: &Cfg, index: u64, stats: &mut Stats) {
    let role = Role::all().nth(index as usize).unwrap();
    let name = role.source_name();
    let abi = BuiltinOperationAbi::for_role(role).into_classifier();
    let check = |ty: Option<String>| -> pipeline::Verdict {
        let mut prelude = MiniPrelude::new().role("exit", Role::Exit).role("op", role);
        if role == Role::Exit {
            prelude = MiniPrelude::new().role("op", Role::Exit).role("exit", Role::WriteLine);
        }
        if let Some(t) = ty {
            prelude = prelude.with_type("op", &t);
        }
        let body = if role == Role::Exit { "! op 0\n" } else { "! exit 0\n" };
        pipeline::analyze_overlay(&Sources::single(format!("{}{}", prelude.text(), body))).verdict
    };
    // unmutated (from the ABI classifier's own text and from the standard signature text): accepted
    for (label, ty) in [("abi-text", Some(vc_text(&abi, 0))), ("standard-text", None)] {
        let v = check(ty);
        stats.evaluations += 1;
        if !v.is_accept() {
            fail(stats, "sigmut", index, "declared-role-type-rejected".into(), &name, json!({"role": name, "source": label, "verdict": v.brief()}));
        }
    }
    for (mname, mutated) in mutations(&abi) {
        if mutated == abi {
            continue;
        }
        let text = vc_text(&mutated, 0);
        let v = check(Some(text.clone()));
        stats.evaluations += 1;
        stats.nontrivial(format!("sigmut/{}/{}", name, mname).as_bytes());
        stats.cover("mutation_kinds", mname.split('-').take(2).collect::<Vec<_>>().join("-").as_str());
        if !v.is_reject() {
            let signature = match &v {
                | pipeline::Verdict::Panic(p) => format!("front-end-panic {}", p.site()),
                | _ => "mutated-role-type-accepted".to_string(),
            };
            fail(stats, "sigmut", index, signature, &name, json!({"role": name, "mutation": mname, "type": text, "verdict": v.brief()}));
        }
    }
    if index == 40 {
        stats.sample(json!({"role": name, "declared": vc_text(&abi, 0), "mutations": mutations(&abi).iter().map(|(n, m)| format!("{}: {}", n, vc_text(m, 0))).collect::<Vec<_>>()}));
    }
}

/* ---------------------------------------- wiring ---------------------------------------- */

/// Caller program over lib/std/builtin.zy: text, char, bytes, stdio, io, fs, args, process through their package slots.
fn run_wiring(_cfg: &Cfg, index: u64, stats: &mut Stats) {
    let scratch = Scratch::new("c06wire");
    let out_path = scratch.join("w.txt");
    let out = out_path.display().to_string();
    let fail_k = |code: u32| format!("{{ fn (k : Int64) (m : String) => ! (process/exit) {code} }}");
    // (before, after): the rest of the program goes between them
    let steps: Vec<(String, String)> = vec![
        ("do n1 <- ! (string/length) \"日本🙂\";\n  do n2 <- ! (string/byte_length) \"日本🙂\";\n  do s1 <- ! (string/append) \"ab\" \"cd\";\n  ! show n1 { ".into(), " }".into()),
        ("! show n2 { ".into(), " }".into()),
        ("! (stdio/write_line) s1 { ".into(), " }".into()),
        ("! (string/split_at) OS \"日本🙂\" 2 { ! (process/exit) 11 } { fn (a : String) (b : String) => ! (stdio/write_line) b { ".into(), " } }".into()),
        ("! (string/get) OS \"日本🙂\" 1 { ! (process/exit) 12 } { fn c => do cs <- ! (char/to_string) c; do cp <- ! (char/codepoint) c; ! (stdio/write_line) cs { ! show cp { ".into(), " } } }".into()),
        ("! (char/from_codepoint) OS 955 { ! (process/exit) 22 } { fn c => do cs <- ! (char/to_string) c; ! (stdio/write_line) cs { ".into(), " } }".into()),
        ("! (string/parse_int) OS \"-17\" { ! (process/exit) 13 } { fn (v : Int64) => ! show v { ".into(), " } }".into()),
        ("! (string/split_once) OS \"k=v=w\" '=' { ! (process/exit) 14 } { fn (a : String) (b : String) => ! (stdio/write_line) b { ".into(), " } }".into()),
        ("! (string/eq) OS \"x\" \"x\" { ".into(), " } { ! (process/exit) 21 }".into()),
        ("do b0 <- ! (bytes/from_string) \"hé\";\n  do e0 <- ! (bytes/empty);\n  do b1 <- ! (bytes/append) b0 e0;\n  do bl <- ! (bytes/length) b1;\n  ! show bl { ".into(), " }".into()),
        ("! (bytes/to_string) OS b1 { ! (process/exit) 15 } { fn (back : String) => ! (stdio/write_line) back { ".into(), " } }".into()),
        (format!("! (fs/create_writer) \"{out}\" {} {{ fn w => ", fail_k(16)), " }".into()),
        (format!("! (io/write_all) w b1 {} {{ ", fail_k(17)), " }".into()),
        (format!("! (io/flush) w {} {{ ", fail_k(23)), " }".into()),
        (format!("! (io/close_writer) w {} {{ ", fail_k(18)), " }".into()),
        (format!("! (fs/append_writer) \"{out}\" {} {{ fn w2 => ! (io/write_all) w2 b1 {} {{ ! (io/close_writer) w2 {} {{ ", fail_k(24), fail_k(25), fail_k(26)), " } } }".into()),
        (format!("! (fs/open_reader) \"{out}\" {} {{ fn r => ", fail_k(19)), " }".into()),
        (format!("! (io/read) r 1 {} {{ fn one => do ol <- ! (bytes/length) one; ! show ol {{ ", fail_k(27)), " } }".into()),
        (format!("! (io/read_all) r {} {{ fn got => do gl <- ! (bytes/length) got; ! show gl {{ ", fail_k(20)), " } }".into()),
        (format!("! (io/close_reader) r {} {{ ", fail_k(28)), " }".into()),
        ("do so <- ! (stdio/stdout); do ob <- ! (bytes/from_string) \"via-io\\n\"; ".to_string() + &format!("! (io/write_all) so ob {} {{ ", fail_k(29)), " }".into()),
        ("! (stdio/write) \"w\" { ! (stdio/write_int) 5 { ! (stdio/write_line) \"\" { ".into(), " } } }".into()),
        ("! (stdio/read_line) { fn l => ! (stdio/write_line) l { ".into(), " } }".into()),
        ("! (stdio/read_int) { ! (process/exit) 30 } { fn (v : Int64) => ! show v { ".into(), " } }".into()),
        ("! (stdio/read_all) { fn l => ! (stdio/write_line) l { ".into(), " } }".into()),
        ("! (random/generate) { fn (v : Int64) => ".into(), " }".into()),
    ];
    let mut body = "! (args/fold) OS { ! (process/exit) 0 } { fn (a : String) (rest : Thk OS) => ! (stdio/write_line) a rest }".to_string();
    for (before, after) in steps.iter().rev() {
        body = format!("{before}\n  {body}\n {after}");
    }
    let text = format!(
        "begin\n  param (\n    (/core; /representations; /numeric; /text; /system) :\n    @(import(\"/repo/lib/std/builtin.zy\"))\n  ) that\n  \
         let (/Ret; /Thk; /Unit) = core that\n  let (/Scalar = Int64) = representations/i64 that\n  let (/Scalar = String) = representations/string that\n  \
         let (/OS; /process; /stdio; /io; /fs; /args; /random) = system that\n  let (Scalar = NumericInt64, int64) = numeric/int64 that\n  \
         let string = text/string that\n  let char = text/char that\n  let bytes = text/bytes that\n  \
         let show = {{ fn (n : Int64) (k : Thk OS) => do s <- ! (int64/to_string) n; ! (stdio/write_line) s k }} that\n  {body}\nend\n"
    );
    let sources = Sources::single(text);
    let result = pipeline::check_and_run(&sources, b"line one\n41\nthe rest", &["arg-one".to_string(), "arg-two".to_string()], 1_000_000);
    stats.evaluations += 1;
    stats.nontrivial(b"wiring/std");
    let expected = "3\n10\nabcd\n🙂\n本\n26412\nλ\n-17\nv=w\n3\nhé\n1\n5\nvia-io\nw5\nline one\n41\nthe rest\narg-one\narg-two\n";
    let out = result.run.as_ref().map(|r| String::from_utf8_lossy(&r.stdout).to_string());
    let ok = result.verdict.is_accept() && out.as_deref() == Some(expected) && result.run.as_ref().map(|r| &r.end) == Some(&End::Exit(0));
    if !ok {
        fail(stats, "wiring", index, "standard-signature-wiring".into(), "std", json!({
            "verdict": result.verdict.brief(), "expected_stdout": expected, "observed_stdout": out, "end": format!("{:?}", result.run.as_ref().map(|r| &r.end)), "sources": sources.to_json(),
        }));
    }
}
