//! Shared workload of the formatter properties C12–C14: (source, options) pairs.

use crate::core::*;
use crate::e1;
use crate::e2::{self, FmtOptions, mutate, scan};
use crate::util::panic::PanicInfo;
use crate::util::rng::Rng;

pub struct FmtCase {
    pub text: String,
    pub options: FmtOptions,
    /// options spelled as a `@[format(..)]` directive wrapped around the source (the CLI path) instead of API options
    pub via_directive: bool,
    pub origin: String,
    /// E1 program sources are checkable/runnable
    pub runnable: bool,
    /// maximal nesting depth of `(`/`{`/`[` delimiters in the source
    pub nesting: usize,
}

/// Known finding (DESIGN.md section 8): the formatter's cost doubles with every level of nested singleton
/// parentheses and of thunk arguments in applications. Sources at or above this delimiter nesting depth form the
/// triggered partition, which is not formatted in process.
pub const DEEP_NESTING: usize = 11;
/// From this nesting depth on, exceeding the CPU/memory budget is attributed to the known finding (narrow widths
/// make the blow-up start earlier). Below it every source must format within the budget.
pub const COSTLY_NESTING: usize = 6;
/// CPU seconds one (source, options) case may take in process.
pub const CPU_BUDGET_S: u64 = 10;

pub fn delimiter_nesting(text: &str) -> usize {
    let mut depth = 0usize;
    let mut max = 0usize;
    for t in scan::scan(text) {
        if t.kind == scan::Kind::Punct {
            match t.text(text) {
                | "(" | "{" | "[" => {
                    depth += 1;
                    max = max.max(depth);
                }
                | ")" | "}" | "]" => depth = depth.saturating_sub(1),
                | _ => {}
            }
        }
    }
    max
}

const WIDTHS: &[usize] = &[1, 2, 3, 5, 8, 13, 21, 40, 80, 100, 200];
const INDENTS: &[usize] = &[1, 2, 4, 8];

/// Numbers of seed sources per family: repository sources, the same with trivia mutations, grammar terms, generated core
/// programs, verbatim regions in context.
pub fn seeds(cfg: &Cfg) -> (u64, u64, u64, u64, u64) {
    let c = e2::corpus().len() as u64;
    (c, c, cfg.tier.pick(300, 8_000), cfg.tier.pick(150, 4_000), cfg.tier.pick(200, 6_000))
}

pub fn variants(cfg: &Cfg) -> u64 {
    cfg.tier.pick(3, 10)
}

pub fn total(cfg: &Cfg) -> u64 {
    let (a, b, c, d, e) = seeds(cfg);
    (a + b + c + d + e) * variants(cfg)
}

pub fn case(cfg: &Cfg, index: u64) -> FmtCase {
    let v = variants(cfg);
    let seed_no = index / v;
    let variant = index % v;
    let (a, b, c, d, _e) = seeds(cfg);
    let mut rng = Rng::for_case(cfg.seed, "fmtwork", index);
    let mut srng = Rng::for_case(cfg.seed, "fmtwork/seed", seed_no);
    let (text, origin, runnable) = if seed_no < a {
        let (p, t) = &e2::corpus()[seed_no as usize];
        (t.clone(), format!("corpus:{}", p.display()), false)
    } else if seed_no < a + b {
        let (p, t) = &e2::corpus()[(seed_no - a) as usize];
        (trivia_mutation(t, &mut srng), format!("corpus+trivia:{}", p.display()), false)
    } else if seed_no < a + b + c {
        (e2::grammar::source(&mut srng, true), "grammar".to_string(), false)
    } else if seed_no >= a + b + c + d {
        match seed_no % 5 {
            | 0 | 2 => (verbatim_seed(&mut srng), "verbatim".to_string(), false),
            | 1 | 3 => (textblock_seed(&mut srng), "textblock".to_string(), false),
            | _ => (wide_comment_seed(&mut srng), "widecomment".to_string(), false),
        }
    } else {
        // small programs: the observation code of E1 nests continuation thunks, and deep nesting is the known
        // exponential case of the formatter
        let mut grng = Rng::for_case(cfg.seed, "fmt/e1", seed_no);
        let mut gcfg = e1::generate::GenCfg::default_for(&mut grng);
        gcfg.size = 40 + grng.below(60) as i64;
        gcfg.statements = 1 + grng.below(2);
        gcfg.max_depth = 2 + grng.below(2);
        let program = e1::generate::Gen::new(grng, gcfg).gen_program();
        let styles = crate::props::c02::styles_for(seed_no);
        let style = &styles[srng.below(styles.len().min(4))];
        (e1::print::program_text(&program, style, seed_no), format!("e1:{}", style.describe()), true)
    };
    let options = if variant == 0 {
        FmtOptions::default_options()
    } else {
        FmtOptions { width: *rng.pick(WIDTHS), indent: *rng.pick(INDENTS), layout: rng.below(3) as u8, parens: rng.below(2) as u8 }
    };
    let via_directive = variant != 0 && rng.chance(1, 2);
    let nesting = delimiter_nesting(&text);
    FmtCase { text, options, via_directive, origin, runnable, nesting }
}

impl FmtCase {
    pub fn deep(&self) -> bool {
        self.nesting >= DEEP_NESTING
    }
    /// The text handed to the formatter (with the directive wrapper if any).
    pub fn input(&self) -> String {
        if self.via_directive { format!("{}\n{}", self.options.directive(), self.text) } else { self.text.clone() }
    }
    pub fn format(&self, input: &str) -> Result<Result<String, String>, PanicInfo> {
        if self.via_directive { e2::format(input) } else { e2::format_with(input, self.options) }
    }
    pub fn describe(&self) -> String {
        format!("{} {}{}", self.origin, self.options.describe(), if self.via_directive { " (directive)" } else { "" })
    }
}

/// Meaning-preserving trivia mutations: comments at random token gaps, re-spacing, extra blank lines.
pub fn trivia_mutation(text: &str, rng: &mut Rng) -> String {
    let tokens = scan::scan(text);
    if tokens.is_empty() {
        return text.to_string();
    }
    let mut inserts: Vec<(usize, String)> = Vec::new();
    let n = 1 + rng.below(4);
    for k in 0..n {
        let gap = rng.below(tokens.len() + 1);
        let kind = match rng.below(4) {
            | 0 => mutate::CommentKind::Line,
            | 1 => mutate::CommentKind::Block,
            | 2 => mutate::CommentKind::NestedBlock,
            | _ => mutate::CommentKind::Line,
        };
        // comments are not inserted inside an existing comment token: gaps are between scanner tokens
        // a third of the comments carry hostile payloads (Unicode white space at line starts, tabs, CR, several lines)
        let text = if rng.chance(1, 3) { e2::hostile::comment(rng, k + 10) } else { mutate::comment_text(kind, k) };
        inserts.push((gap, text));
    }
    let with_comments = mutate::with_gap_inserts(text, &tokens, &inserts);
    let spaced = match rng.below(4) {
        | 0 | 1 => mutate::respace_horizontal(&with_comments, rng),
        | 2 => e2::hostile::skip_character_spacing(&with_comments, rng),
        | _ => with_comments,
    };
    // vertical layout: lines broken and joined at random token gaps
    let broken = if rng.chance(1, 2) {
        let changes = 1 + rng.below(4);
        mutate::rebreak(&spaced, rng, changes)
    } else {
        spaced
    };
    // a redundant pair of parentheses, also with a line break inside; kept only if the desugared term is unchanged
    if rng.chance(1, 3) {
        let single_line = rng.chance(1, 3);
        if let Some(variant) = mutate::add_redundant_parens(&broken, rng, single_line) {
            if same_desugared(&broken, &variant) {
                return variant;
            }
        }
    }
    broken
}

/// Both texts parse and desugar to the same term.
pub fn same_desugared(a: &str, b: &str) -> bool {
    match (e2::desugared(a), e2::desugared(b)) {
        | (Ok(Ok(x)), Ok(Ok(y))) => x == y,
        | _ => false,
    }
}

/// A `@[format(verbatim)]` region with hand-made spacing (line breaks, runs of blanks, comments before closing
/// delimiters, string literals with raw line breaks) placed in a context: binding, argument, tuple component, arm body,
/// inside the payload of another directive (also a width-changing one, which pre-renders its payload), nested blocks.
pub fn verbatim_seed(rng: &mut Rng) -> String {
    let payload = {
        let mut g = e2::grammar::Gram::new(rng, 30);
        let depth = 1 + g_depth(&mut g);
        match g_pick(&mut g, 5) {
            | 0 => g.atom(depth),
            | 1 => format!("({},   {} /- c9 -/)", g.atom(depth), g.atom(1)),
            | 2 => format!("({}\n      , {}\n   -- c8\n )", g.atom(1), g.literal()),
            | 3 => format!("{{ {}   {} }}", g.atom(1), g.literal()),
            | _ => format!("(f   {}\n {})", g.literal(), g.atom(depth)),
        }
    };
    // One time in four the directive does not validate although it names the option (misspelt or repeated options, wrong
    // argument shapes, out-of-range numbers next to it): such a directive is inert, its payload is formatted like any
    // other term, and everything written inside it still has to come out.
    let bracket = if rng.chance(1, 4) {
        *rng.pick(&[
            "@[format(verbatim, width(0))]", "@[format(verbatim, indnet(4))]", "@[format(verbatim(true))]", "@[format(verbatim, verbatim)]", "@[format(verbatim, 100)]",
            "@[format(verbatim, width())]", "@[format(verbatim, width(10, 20))]", "@[format(width(\"80\"), verbatim)]", "@[format(Verbatim)]", "@[format(verbatim, layout(sideways))]",
            "@[format(verbatim(), width(40), width(50))]", "@[format(verbatim, indent(-1))]", "@[format(verbatim, \"verbatim\")]", "@[format(verbatim) /- c7 -/, format(verbatim)]",
        ])
    } else {
        *rng.pick(&["@[format(verbatim)]", "@[format(verbatim())]", "@[format(verbatim) /- c7 -/ ]", "@[format(verbatim,)]", "@[format( verbatim )]"])
    };
    let v = format!("{} {}", bracket, payload);
    let outer = *rng.pick(&["width(20)", "width(1)", "width(200)", "indent(4)", "indent(1)", "layout(preserve)", "layout(ignore)", "parentheses(preserve)", "layout(blank_lines), width(30)"]);
    match rng.below(10) {
        | 0 => format!("let x = {v} in x\n"),
        | 1 => format!("f ({v}) y\n"),
        | 2 => format!("({v}, z)\n"),
        | 3 => format!("@[format({outer})] g ({v}) x\n"),
        | 4 => format!("(a,\n  @[format({outer})] g ({v}) x)\n"),
        | 5 => format!("begin\n  let x = {v} that\n  x\nend\n"),
        | 6 => format!("match s\n| +A x => {v}\n| _ => y\nend\n"),
        | 7 => format!("@[format({outer})]\nlet t = {{ begin let u = ({v}) that ! k u end }} in\nret t\n"),
        | 8 => format!("let x = {v} in\nlet y = {v} in\n(x, y)\n"),
        | _ => format!("@[format({outer})]\nfn (a : A) =>\n  do b <- ! g ({v});\n  ret (a, b)\n"),
    }
}

/// `--|` text blocks attached to `@(literal)` (they are the string the splice denotes: every character of a line after the
/// marker's blank counts, trailing blanks included) and to `@[doc]`, in several contexts and under width-changing directives.
pub fn textblock_seed(rng: &mut Rng) -> String {
    const LINES: &[&str] = &[
        "plain", "key:   ", "ends with tab\t", "  indented", "", " ", "é λ 🙂", "\u{00A0}nbsp first", "trailing nbsp\u{00A0}", "-- dashes", "/- not a comment -/", "\"quoted\"",
        "back\\slash", "a  b   c", "very long line very long line very long line very long line very long line very long line",
    ];
    let block = |rng: &mut Rng, indent: &str| -> String {
        let n = 1 + rng.below(4);
        (0..n)
            .map(|_| {
                let l = *rng.pick(LINES);
                if l.is_empty() { format!("{indent}--|\n") } else { format!("{indent}--| {l}\n") }
            })
            .collect()
    };
    let outer = *rng.pick(&["width(72)", "width(20)", "width(1)", "width(200)", "indent(4)", "layout(ignore)", "layout(preserve)", "width(30), indent(1)"]);
    let directive = if rng.chance(2, 3) { format!("@[format({outer})]\n") } else { String::new() };
    match rng.below(7) {
        | 0 => format!("{directive}let message : String =\n{}    @(literal)\nin\n(message, f message)\n", block(rng, "    ")),
        | 1 => format!("{directive}begin\n  let m =\n{}    @(literal)\n  that\n  let n =\n{}    @(literal)\n  that\n  (m, n)\nend\n", block(rng, "    "), block(rng, "    ")),
        | 2 => format!("{directive}f (\n{}  @(literal)\n) y\n", block(rng, "  ")),
        | 3 => format!("{directive}(a,\n  @[format(width(24))] g (\n{}    @(literal)\n  ) x)\n", block(rng, "    ")),
        | 4 => format!("{directive}{}@[doc] let x = 1 in\n{}@[doc] let y = 2 in\n(x, y)\n", block(rng, ""), block(rng, "")),
        | 5 => format!("{directive}fn (a : A) =>\n  do s <- ret (\n{}    @(literal)\n  );\n  ! k s {{\n{}    @(literal) }}\n", block(rng, "    "), block(rng, "    ")),
        | _ => format!("{directive}let t = {{\n{}  @[doc] ret 1\n}} in\n{}@(literal)\n", block(rng, "  "), block(rng, "")),
    }
}

/// A multi-line block comment that opens after code on the same line, where the text before the opener contains
/// characters whose display width is not one column (wide CJK and full-width forms, emoji, combining marks, zero-width
/// joiners and spaces): the column at which the comment opens is measured when it is captured and again when it is
/// printed, and the continuation lines are placed relative to it.
pub fn wide_comment_seed(rng: &mut Rng) -> String {
    const WIDE: &[&str] = &["漢字", "🙂", "🙂🙂🙂", "ｗｉｄｅ", "e\u{301}", "a\u{300}\u{301}\u{302}", "👨\u{200d}👩\u{200d}👧", "x\u{200b}y", "한글 テキスト", "é", "\u{1F1E9}\u{1F1EA}", "plain"];
    let w = |rng: &mut Rng| (*rng.pick(WIDE)).to_string();
    let comment = |rng: &mut Rng| -> String {
        let n = 1 + rng.below(3);
        let mut c = format!("/- {}", rng.pick(&["note", "開く", "c1 🙂"]));
        for i in 0..n {
            c.push_str(&format!("\n{}{}", " ".repeat(rng.below(12)), rng.pick(&["more", "続き", "x"])));
            if i + 1 == n && rng.chance(1, 2) {
                c.push('\n');
            }
        }
        c.push_str(" -/");
        c
    };
    let (a, b, c) = (w(rng), w(rng), comment(rng));
    match rng.below(7) {
        | 0 => format!("let x = \"{a}\" {c} in\nx\n"),
        | 1 => format!("f \"{a}\" {c} y\n"),
        | 2 => format!("(a, \"{a}\" {c}, \"{b}\")\n"),
        | 3 => format!("begin\n  let s = \"{a}\" {c} that\n  let t = \"{b}\" that\n  (s, t)\nend\n"),
        | 4 => format!("match v\n| +A() => \"{a}\" {c}\n| +B() => \"{b}\"\nend\n"),
        | 5 => format!("/- {a} -/ let y = 1 {c} in\ny\n"),
        | _ => format!("@[format(width(30))]\nlet x = g \"{a}\" \"{b}\" {c} in\nx\n"),
    }
}

fn g_depth(g: &mut e2::grammar::Gram) -> usize {
    g.pick_below(2)
}
fn g_pick(g: &mut e2::grammar::Gram, n: usize) -> usize {
    g.pick_below(n)
}
