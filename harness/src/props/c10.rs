//! C10 — the front end is total: any input yields success or a diagnostic.

use crate::core::*;
use crate::e1;
use crate::e2::{self, mutate};
use crate::pipeline::{self, Sources, Verdict};
use crate::prelude::MiniPrelude;
use crate::util::panic::catch;
use crate::util::proc;
use crate::util::rng::Rng;
use crate::util::scratch::Scratch;
use serde_json::json;
use zydeco_cli::{CompileError, DiagnosticRenderer};
use zydeco_session::{AnalysisError, AnalysisOutcome};

pub fn def() -> PropertyDef {
    PropertyDef {
        id: "C10",
        title: "The front end is total: any input yields success or a diagnostic",
        generators,
        extra: no_extra,
        rule: "bytes: random bytes / random UTF-8; soup: token soups over the lexer vocabulary with extreme literals (nesting <= 64); \
               corpus: token- and byte-level mutations of every source under /repo/lib and /repo/docs/spell (with their import context); \
               grammar: grammar-directed parse-valid terms incl. every metadata form, with and without a Builtin prelude; e1: generated \
               programs with an injected sort/type/arity error; multifile: a mutated text as imported provider and as .zyi companion; trivia: readable programs decorated with hostile lexical \
               trivia (multi-line block comments whose continuation lines start with Unicode white space, tabs, form feeds, CR, BOM, \
               look-alike delimiters, missing final newline) with unchanged code tokens. Monitor: \
               catch_unwind around CompilerSession::analyze and the CLI's DiagnosticRenderer, span-in-file check of every report, and the real \
               `zydeco check` out of process for every suspicion plus a seeded sample (exit status in {0,1}, CPU budget). distinct = input hash; \
               non-trivial = has >= 2 tokens and is not byte-identical to a corpus file.",
        assumptions: &[
            "\"never loops\" is decided as a CPU-time budget: 60 s for an input <= 8 KB",
            "inputs are bounded in nesting depth (<= 64) as the property allows",
        ],
        floor: (5_000, 200_000),
        on_case_death,
    }
}

const GENS: &[&str] = &["bytes", "soup", "corpus", "grammar", "e1", "multifile", "trivia", "witness", "defgraphs"];

/// Inputs on which the front end once panicked, aborted or looped (found by the monitors or reported by independent
/// seeding agents and reproduced): each runs in every check, alone and behind the prelude.
const WITNESSES: &[&str] = &[
    "ret 9999999999999999999999999999999999999999",
    "@[foo(99999999999999999999)] _",
    "codata | .a .b : T end",
    "fix (f : Int64) => ret 1",
    "! _",
    "begin def D : D = data | +A : Unit end that ret 0 end",
    "fn (x : define A = _ in A) => x",
    "let f (x : define A = Int64 in A) : Int64 = x in f",
    "let fix (f : define A = Int64 in A) = 1 in f",
    "begin\n  define A : VType = A that\n  fn (x : A) => match x | (a, b) => ret a end\nend",
    "begin\n  define A : VType = B that\n  define B : VType = A that\n  let t : A = (1, 2) that\n  ret 0\nend",
    "ret 1e999",
    "ret 1\n/- unfinished",
    "ret 1 -/ garbage (((",
    " /- a\n\u{a0}b -/\nret ()",
    "  /- a\n \u{3000}b -/\nret ()",
    "begin let x = () that let y = () that let (x, y) = ((), ()) that ret () end",
    "(comatch | x => ret x | x y => ret y end : Int64 -> Int64 -> Ret Int64)",
    "begin def K : CType = codata | .open : codata | .right : Ret Int64 end end that (comatch | .open => ret 1 | .open .right => ret 2 end : K) end",
    "-- ééé\nfoo bar",
    "let s = \"ééééééééééééééééééééééééééééééééééééééé\" in zzz",
];

fn generators(cfg: &Cfg) -> Vec<Generator> {
    let corpus_len = e2::corpus().len() as u64;
    let k = cfg.tier.pick(3, 60);
    vec![
        Generator { name: "bytes", total: cfg.tier.pick(3_000, 150_000), run: run_bytes, case_cpu_limit_s: 60 },
        Generator { name: "soup", total: cfg.tier.pick(6_000, 400_000), run: run_soup, case_cpu_limit_s: 60 },
        Generator { name: "corpus", total: corpus_len * k, run: run_corpus, case_cpu_limit_s: 120 },
        Generator { name: "grammar", total: cfg.tier.pick(8_000, 500_000), run: run_grammar, case_cpu_limit_s: 60 },
        Generator { name: "e1", total: cfg.tier.pick(1_500, 60_000), run: run_e1, case_cpu_limit_s: 60 },
        Generator { name: "multifile", total: cfg.tier.pick(2_000, 100_000), run: run_multifile, case_cpu_limit_s: 60 },
        Generator { name: "trivia", total: cfg.tier.pick(4_000, 250_000), run: run_trivia, case_cpu_limit_s: 60 },
        Generator { name: "witness", total: 2 * WITNESSES.len() as u64, run: run_witness, case_cpu_limit_s: 60 },
        Generator { name: "defgraphs", total: cfg.tier.pick(1_200, 60_000), run: run_defgraphs, case_cpu_limit_s: 60 },
    ]
}

/// Regenerable input of one case: either overlay sources or a root path on disk (corpus mutations keep their
/// directory so that relative imports resolve).
enum Input {
    Overlay(Sources),
    /// (directory to copy, file inside it replaced by this text)
    InPlace { original: std::path::PathBuf, text: String },
}

fn make_input(generator: &str, cfg: &Cfg, index: u64) -> Input {
    let mut rng = Rng::for_case(cfg.seed, &format!("C10/{generator}"), index);
    match generator {
        | "bytes" => {
            let n = rng.below(200);
            let text = match rng.below(3) {
                | 0 => String::from_utf8_lossy(&(0..n).map(|_| rng.next() as u8).collect::<Vec<u8>>()).to_string(),
                | 1 => (0..n).map(|_| char::from_u32(rng.below(0x3000) as u32).unwrap_or('x')).collect(),
                | _ => (0..n).map(|_| (32 + rng.below(95) as u8) as char).collect(),
            };
            Input::Overlay(Sources::single(text))
        }
        | "soup" => {
            let soup = mutate::token_soup(&mut rng);
            // half of the soups sit behind a valid prelude so that later phases are reached
            let text = if rng.chance(1, 2) { format!("{}{}", MiniPrelude::core().text(), soup) } else { soup };
            Input::Overlay(Sources::single(text))
        }
        | "corpus" => {
            let corpus = e2::corpus();
            let (path, text) = &corpus[(index % corpus.len() as u64) as usize];
            let k = 1 + rng.below(3);
            let mutated = if rng.chance(4, 5) { mutate::mutate_tokens(text, &mut rng, k) } else { mutate::mutate_bytes(text, &mut rng, k) };
            Input::InPlace { original: path.clone(), text: mutated }
        }
        | "grammar" => {
            let mut g = e2::grammar::Gram::new(&mut rng, 60);
            g.imports = true;
            g.format_directives = true;
            let term = g.term(4);
            let text = match rng.below(3) {
                | 0 => term,
                | 1 => format!("{}{}", MiniPrelude::core().text(), term),
                | _ => format!("{}do q <- ret 1;\n{}", MiniPrelude::core().text(), term),
            };
            let mut files = vec![("root.zy".to_string(), text)];
            // something for `import("p.zy")` to find
            files.push(("p.zy".to_string(), "1".to_string()));
            Input::Overlay(Sources { files })
        }
        | "e1" => {
            let program = e1::generate::generate(cfg.seed, "C10", index);
            let style = e1::print::Style::plain();
            let (_, sites, _) = e1::print::program_text_mut(&program, &style, cfg.seed ^ index, None);
            let target = if sites > 0 { Some(rng.below(sites)) } else { None };
            let (text, _, _) = e1::print::program_text_mut(&program, &style, cfg.seed ^ index, target);
            // additionally a token-level mutation half of the time (well-formed syntax, ill-formed meaning vs. broken syntax)
            let text = if rng.chance(1, 2) { mutate::mutate_tokens(&text, &mut rng, 1) } else { text };
            Input::Overlay(Sources::single(text))
        }
        | "defgraphs" => {
            // A random graph of type definitions - sealed (`define`, `def`) and transparent (`let`) - in which every
            // definition is another definition, a type former over definitions, an application of a type function, or a
            // base type: chains, chains that lead into a cycle, cycles entered at a member, diamonds. One to three
            // judgments then have to look through some of them (tuple and constructor patterns, tuple and constructor
            // checks, annotations, applications). Whatever the graph, the answer is a verdict, not a crash or a loop.
            let n = 1 + rng.below(5);
            let names: Vec<String> = (0..n).map(|i| format!("N{i}")).collect();
            let mut text = String::from("begin\n");
            let data = rng.chance(1, 3);
            if data {
                text.push_str("  def Box (A : VType) : VType = data | +Box : A end that\n");
            }
            text.push_str(if rng.chance(1, 2) { "  def Id (A : VType) : VType = A that\n" } else { "  let Id (A : VType) : VType = A that\n" });
            let mut order: Vec<usize> = (0..n).collect();
            rng.shuffle(&mut order);
            for i in order {
                let pick = |rng: &mut Rng| names[rng.below(n)].clone();
                let body = match rng.below(10) {
                    | 0..=3 => pick(&mut rng),
                    | 4 => format!("{} * {}", pick(&mut rng), pick(&mut rng)),
                    | 5 => format!("Thk (Ret {})", pick(&mut rng)),
                    | 6 => "Int64 * Int64".to_string(),
                    | 7 if data => format!("Box {}", pick(&mut rng)),
                    | 7 => "Int64".to_string(),
                    | 8 => format!("Id {}", pick(&mut rng)),
                    | _ => format!("({} : VType)", pick(&mut rng)),
                };
                let keyword = *rng.pick(&["define", "define", "def", "let"]);
                let annotation = if rng.chance(2, 3) { " : VType" } else { "" };
                text.push_str(&format!("  {keyword} {}{annotation} = {body} that\n", names[i]));
            }
            let uses = 1 + rng.below(3);
            for u in 0..uses {
                let t = names[rng.below(n)].clone();
                match rng.below(8) {
                    | 0 => text.push_str(&format!("  let f{u} = {{ fn (x : {t}) => match x | (a, b) => ret a end }} that\n")),
                    | 1 => text.push_str(&format!("  let v{u} : {t} = (1, 2) that\n")),
                    | 2 => text.push_str(&format!("  let f{u} = {{ fn ((a, b) : {t}) => ret b }} that\n")),
                    | 3 if data => text.push_str(&format!("  let v{u} : {t} = +Box(1) that\n")),
                    | 3 => text.push_str(&format!("  let v{u} : {t} = 1 that\n")),
                    | 4 if data => text.push_str(&format!("  let f{u} = {{ fn (x : {t}) => match x | +Box(y) => ret y end }} that\n")),
                    | 4 => text.push_str(&format!("  let f{u} = {{ fn (x : {t}) => ret (x : Int64) }} that\n")),
                    | 5 => text.push_str(&format!("  let f{u} = {{ fn (x : {t}) => ! x }} that\n")),
                    | 6 => text.push_str(&format!("  let f{u} = {{ fn (x : {t}) (y : {}) => ret ((x : {}), y) }} that\n", names[rng.below(n)], names[rng.below(n)])),
                    | _ => text.push_str(&format!("  let f{u} = {{ fn (x : {t}) => do (a, b) <- ret x; ret a }} that\n")),
                }
            }
            text.push_str("  ! exit 0\nend\n");
            Input::Overlay(Sources::single(format!("{}{}", MiniPrelude::core().text(), text)))
        }
        | "witness" => {
            let w = WITNESSES[(index / 2) as usize];
            let text = if index % 2 == 0 { w.to_string() } else { format!("{}{}\n", MiniPrelude::core().text(), w) };
            Input::Overlay(Sources::single(text))
        }
        | "trivia" => {
            // a readable program (small repository source, grammar term, generated core program) decorated with hostile
            // lexical trivia: the code tokens are unchanged, so the later phases are reached with unusual comment and
            // white-space content in the capture, span and rendering paths
            let base = match rng.below(4) {
                | 0 => {
                    let small: Vec<(std::path::PathBuf, String)> = e2::corpus().into_iter().filter(|(_, t)| t.len() <= 4_000).collect();
                    small[rng.below(small.len())].1.clone()
                }
                | 1 => {
                    let directives = rng.chance(1, 2);
                    e2::grammar::source(&mut rng, directives)
                }
                | 2 => format!("{}{}", MiniPrelude::core().text(), e2::grammar::source(&mut rng, false)),
                | _ => {
                    let mut grng = Rng::for_case(cfg.seed, "C10/trivia/e1", index);
                    let mut gcfg = e1::generate::GenCfg::default_for(&mut grng);
                    gcfg.size = 40 + grng.below(80) as i64;
                    gcfg.statements = 1 + grng.below(3);
                    let program = e1::generate::Gen::new(grng, gcfg).gen_program();
                    e1::print::program_text(&program, &e1::print::Style::plain(), index)
                }
            };
            let n = 1 + rng.below(5);
            let mut text = e2::hostile::with_comments(&base, &mut rng, n);
            if rng.chance(1, 3) {
                text = e2::hostile::skip_character_spacing(&text, &mut rng);
            }
            if rng.chance(1, 4) {
                text = e2::hostile::decorate_file(&text, &mut rng);
            }
            // sometimes with a type error behind the trivia, so that diagnostics are rendered over it
            if rng.chance(1, 4) {
                text = mutate::mutate_tokens(&text, &mut rng, 1);
            }
            Input::Overlay(Sources::single(text))
        }
        | _ => {
            // multifile: provider / companion with mutated or generated content
            let provider = match rng.below(4) {
                | 0 => mutate::token_soup(&mut rng),
                | 1 => e2::grammar::source(&mut rng, false),
                | 2 => "begin let x = 1 that x end".to_string(),
                | _ => {
                    let k = 1 + rng.below(2);
                    mutate::mutate_tokens("begin def T : @(intrinsic(vtype)) = @(intrinsic(i64)) that (T, 5) end", &mut rng, k)
                }
            };
            let companion = match rng.below(4) {
                | 0 => None,
                | 1 => Some(mutate::token_soup(&mut rng)),
                | 2 => Some(e2::grammar::source(&mut rng, false)),
                | _ => Some("@(intrinsic(i64))".to_string()),
            };
            let root = match rng.below(4) {
                | 0 => "@(import(\"lib.zy\"))".to_string(),
                | 1 => format!("{}let l = @(import(\"lib.zy\")) in\n! exit 0\n", MiniPrelude::core().text()),
                | 2 => "let a = @(import(\"lib.zy\")) in let b = @(import(\"./lib.zy\")) in @(import(\"root.zy\"))".to_string(),
                | _ => "@(import(\"missing.zy\"))".to_string(),
            };
            let mut files = vec![("root.zy".to_string(), root), ("lib.zy".to_string(), provider)];
            if let Some(c) = companion {
                files.push(("lib.zyi".to_string(), c));
            }
            Input::Overlay(Sources { files })
        }
    }
}

/// The in-process monitor: analyse, render every diagnostic through the CLI's renderer, check locations.
/// Returns (class, problem) where problem describes a violation.
fn monitor(analyzed: &pipeline::Analyzed) -> (String, Option<String>) {
    let class = analyzed.verdict.class().to_string();
    if let Verdict::Panic(p) = &analyzed.verdict {
        return (class, Some(format!("panic {}", p.short())));
    }
    let Some(result) = &analyzed.result else { return (class, None) };
    // render exactly as the CLI does. The renderer re-materialises the typed arena through its own compiler, which
    // must see the same sources: only overlay roots under the virtual directory qualify here (a fresh compiler
    // cannot read them, so typed observations are skipped); in-place overlays of repository files would be
    // re-read from disk *without* the mutation and must not be rendered against this analysis.
    let virtual_root = analyzed.root.starts_with("/zv-virtual");
    let rendered = catch(|| {
        if !virtual_root {
            if let Ok(analysis) = result {
                DiagnosticRenderer::warnings(analysis);
            }
            return;
        }
        let compiler = zydeco_cli::CommandCompiler::default();
        match result {
            | Ok(analysis) => {
                DiagnosticRenderer::warnings(analysis);
                if let AnalysisOutcome::Rejected { .. } = analysis.outcome() {
                    DiagnosticRenderer::error(&CompileError::Rejected(analysis.clone()), &compiler);
                } else {
                    DiagnosticRenderer::observations(analysis, &compiler);
                }
            }
            | Err(e) => DiagnosticRenderer::error(&CompileError::Analysis(e.clone()), &compiler),
        }
    });
    if let Err(p) = rendered {
        return (class, Some(format!("panic while rendering diagnostics {}", p.short())));
    }
    // every location lies inside the file it names
    match result {
        | Ok(analysis) => {
            if let AnalysisOutcome::Rejected { reports } = analysis.outcome() {
                if reports.reports.is_empty() {
                    return (class, Some("rejected without any report".into()));
                }
                for span in reports.spans.iter().flatten() {
                    let (path, range, _) = span;
                    let text = analysis.sources().find(|(p, _)| *p == path.as_path().as_path()).map(|(_, t)| t);
                    match text {
                        | None => return (class, Some(format!("report names a file outside the source graph: {}", path.as_path().display()))),
                        | Some(t) => {
                            if !(range.start <= range.end && range.end <= t.len()) {
                                return (class, Some(format!("report span {:?} outside file of length {}", range, t.len())));
                            }
                            if !t.is_char_boundary(range.start) || !t.is_char_boundary(range.end) {
                                return (class, Some(format!("report span {:?} not on character boundaries", range)));
                            }
                        }
                    }
                }
            }
        }
        | Err(AnalysisError::Resolve { error, graph }) => {
            let report = error.to_report();
            let _ = report;
            let _ = graph;
        }
        | Err(_) => {}
    }
    (class, None)
}

fn confirm_out_of_process(sources: &Sources) -> (bool, String) {
    let scratch = Scratch::new("c10");
    let root = sources.write_to(scratch.path());
    let r = proc::run(&proc::zydeco_bin(), &["check", root.to_str().unwrap()], Some(scratch.path()), b"", 60, 300);
    let ok = !r.wall_timeout && r.signal.is_none() && matches!(r.code, Some(0) | Some(1));
    (ok, r.status_string())
}

fn run_case(generator: &'static str, cfg: &Cfg, index: u64, stats: &mut Stats) {
    let input = make_input(generator, cfg, index);
    let mut rng = Rng::for_case(cfg.seed, "C10/sample", index);
    let (analyzed, sources, scratch): (pipeline::Analyzed, Sources, Option<Scratch>) = match input {
        | Input::Overlay(sources) => (pipeline::analyze_overlay(&sources), sources, None),
        | Input::InPlace { original, text } => {
            // analyse the mutated text as an overlay at the original path, so that relative imports resolve
            let mut session = zydeco_session::CompilerSession::default();
            let _ = session.set_overlay(&original, text.clone());
            let analyzed = pipeline::analyze_in(session, original.clone());
            (analyzed, Sources { files: vec![(original.display().to_string(), text)] }, None)
        }
    };
    let _ = scratch;
    stats.evaluations += 1;
    let (class, mut problem) = monitor(&analyzed);
    // one case in five additionally takes the CLI's own path in process: sources on disk, CommandCompiler::analyze,
    // then the CLI's rendering of warnings, observations and errors with that compiler
    if problem.is_none() && !sources.files[0].0.starts_with('/') && rng.chance(1, 5) {
        let dir = Scratch::new("c10d");
        let root = sources.write_to(dir.path());
        let cli_path = catch(|| {
            let compiler = zydeco_cli::CommandCompiler::default();
            match compiler.analyze(&root) {
                | Ok(analysis) => {
                    DiagnosticRenderer::warnings(&analysis);
                    DiagnosticRenderer::observations(&analysis, &compiler);
                }
                | Err(e) => DiagnosticRenderer::error(&e, &compiler),
            }
        });
        stats.count("cli_path_in_process");
        if let Err(p) = cli_path {
            problem = Some(format!("panic {}", p.short()));
        }
    }
    stats.count(&format!("{generator}_{class}"));
    if let Some(Err(e)) = &analyzed.result {
        stats.cover("error_phases", pipeline::error_class(e));
    }
    let text = sources.root_text();
    let tokens = e2::scan::scan(text);
    if tokens.len() >= 2 {
        stats.nontrivial_hash(sources.hash());
    }
    if stats.samples.is_empty() {
        stats.sample(json!({"generator": generator, "input": text.chars().take(400).collect::<String>(), "class": class}));
    }
    let overlay_like = !sources.files[0].0.starts_with('/');
    // out of process: every suspicion, and a seeded 2 % sample of overlay inputs
    let mut out_of_process_problem = None;
    if overlay_like && (problem.is_some() || generator == "witness" || rng.chance(1, 50)) {
        let (ok, status) = confirm_out_of_process(&sources);
        stats.count("out_of_process_runs");
        stats.cover("cli_exit_status", &status);
        if !ok {
            out_of_process_problem = Some(format!("zydeco check ended with {}", status));
        }
    }
    if let Some(problem) = problem.or(out_of_process_problem) {
        let signature = signature_of(&problem);
        stats.violation(Violation {
            signature,
            tags: input_tags(text),
            generator: generator.into(),
            index,
            detail: json!({"problem": problem, "class": class, "sources": sources.to_json()}),
        });
    }
}

pub fn signature_of(problem: &str) -> String {
    // "panic <file:line> message" -> "front-end-panic <file:line>"
    if let Some(rest) = problem.strip_prefix("panic while rendering diagnostics ") {
        return format!("render-panic {}", rest.split_whitespace().next().unwrap_or(""));
    }
    if let Some(rest) = problem.strip_prefix("panic ") {
        return format!("front-end-panic {}", rest.split_whitespace().next().unwrap_or(""));
    }
    problem.split(':').next().unwrap_or(problem).chars().take(60).collect()
}

/// Input-side predicates used as known-finding triggers.
pub fn input_tags(text: &str) -> Vec<String> {
    let tokens = e2::scan::scan(text);
    let mut tags = Vec::new();
    let mut prev_kinds: Vec<(e2::scan::Kind, &str)> = Vec::new();
    for t in tokens.iter().filter(|t| t.is_code()) {
        let s = t.text(text);
        if t.kind == e2::scan::Kind::Int {
            let digits = s.trim_start_matches(['+', '-']);
            let v: Option<i128> = s.parse().ok();
            if v.is_none() && !tags.contains(&"int-literal-beyond-i128".to_string()) {
                tags.push("int-literal-beyond-i128".into());
            }
            let in_meta = prev_kinds.iter().rev().take(12).any(|(_, p)| *p == "@");
            if in_meta && s.parse::<i64>().is_err() && !tags.contains(&"meta-int-beyond-i64".to_string()) {
                tags.push("meta-int-beyond-i64".into());
            }
            let _ = digits;
        }
        prev_kinds.push((t.kind, s));
    }
    tags
}

fn run_bytes(cfg: &Cfg, index: u64, stats: &mut Stats) {
    run_case("bytes", cfg, index, stats)
}
fn run_soup(cfg: &Cfg, index: u64, stats: &mut Stats) {
    run_case("soup", cfg, index, stats)
}
fn run_corpus(cfg: &Cfg, index: u64, stats: &mut Stats) {
    run_case("corpus", cfg, index, stats)
}
fn run_grammar(cfg: &Cfg, index: u64, stats: &mut Stats) {
    run_case("grammar", cfg, index, stats)
}
fn run_e1(cfg: &Cfg, index: u64, stats: &mut Stats) {
    run_case("e1", cfg, index, stats)
}
fn run_multifile(cfg: &Cfg, index: u64, stats: &mut Stats) {
    run_case("multifile", cfg, index, stats)
}
fn run_trivia(cfg: &Cfg, index: u64, stats: &mut Stats) {
    run_case("trivia", cfg, index, stats)
}
fn run_witness(cfg: &Cfg, index: u64, stats: &mut Stats) {
    run_case("witness", cfg, index, stats)
}

fn run_defgraphs(cfg: &Cfg, index: u64, stats: &mut Stats) {
    run_case("defgraphs", cfg, index, stats)
}

/// A shard died or ran out of CPU on a case: decide by running the real CLI on the same input.
fn on_case_death(cfg: &Cfg, generator: &str, index: u64, death: &str) -> Death {
    let Some(g) = GENS.iter().find(|g| **g == generator) else { return Death::HarnessError };
    let sources = match make_input(g, cfg, index) {
        | Input::Overlay(s) => s,
        | Input::InPlace { original, text } => {
            // copy into a scratch dir is not possible without its import context; report with the in-process death only
            return Death::Violation(Violation {
                signature: format!("front-end-death {}", death),
                tags: input_tags(&text),
                generator: generator.into(),
                index,
                detail: json!({"problem": format!("in-process analysis died: {}", death), "file": original.display().to_string(), "text": text}),
            });
        }
    };
    let (ok, status) = confirm_out_of_process(&sources);
    if ok {
        // the CLI copes: the death was the harness's (e.g. its own stack) — no verdict from this case
        return Death::Inconclusive(format!("in-process analysis died ({death}) but zydeco check copes"));
    }
    Death::Violation(Violation {
        signature: format!("front-end-death {}", status),
        tags: input_tags(sources.root_text()),
        generator: generator.into(),
        index,
        detail: json!({"problem": format!("in-process: {}; zydeco check: {}", death, status), "sources": sources.to_json()}),
    })
}
