//! C17 — concurrent analyses on session snapshots are isolated and consistent.
//!
//! A storm: one owner thread edits an overlay-only file set one file at a time and hands tagged snapshots to a pool of
//! analysing threads without waiting for them; allocator threads create `IdAllocator`s and allocate identifiers; a
//! seeded pause policy (feature `verif-hooks`) widens the check-then-act windows of the session. Every call and
//! return is logged with one logical clock. Oracles are sequential: fresh-session answers per tagged revision.

use crate::core::*;
use crate::pipeline::virtual_dir;
use crate::prelude::MiniPrelude;
use crate::props::c15::{QUERIES, Query, raw_answer};
use crate::util::panic::catch;
use crate::util::rng::{Rng, hash64};
use serde_json::json;
use std::collections::{BTreeMap, BTreeSet, HashSet};
use std::panic::AssertUnwindSafe;
use std::path::{Path, PathBuf};
use std::sync::atomic::{AtomicBool, AtomicU64, Ordering};
use std::sync::mpsc::{Receiver, Sender, channel};
use std::sync::{Arc, Mutex};
use std::time::{Duration, Instant};
use zydeco_session::CompilerSession;
use zydeco_utils::arena::{Allocates, ArenaId, IdAllocator};

pub fn def() -> PropertyDef {
    PropertyDef {
        id: "C17",
        title: "Concurrent analyses on session snapshots are isolated and consistent",
        generators,
        extra,
        rule: "storm: per case one owner thread applies a seeded sequence of single-file overlay edits (new file names appear every few rounds, \
               companions appear and disappear) to one CompilerSession; after each edit it hands 1..8 snapshots tagged with the round to a pool of 8 \
               analysing threads (graph / analyze / reports / coverage / run / evict-then-run / normalized type, two roots) inside salsa::Cancelled::catch \
               and goes on to the next edit after a random delay without waiting; 2 threads create IdAllocators and allocate ids throughout; the \
               verif-hooks pause policy yields/sleeps inside source_input, set_overlay and load_optional. Oracles: a completed analysis equals the \
               fresh-session answer for the round its snapshot was tagged with (cancelled is acceptable; any other panic is a violation); at \
               quiescent points and after the storm the owner's own answers equal fresh-session answers; all identifiers issued by all allocators are \
               pairwise distinct and allocators have distinct key spaces; no logical-clock progress for 60 s is a violation. thorough adds the same \
               storm under ThreadSanitizer (-Zbuild-std) and the allocator part under Miri with many seeds. distinct = per-round event-order \
               signature; non-trivial = a round in which an analysis overlapped an owner edit.",
        assumptions: &[
            "schedules are sampled, not enumerated; the pause policy and thread over-subscription provide the variation",
            "analysing threads drop their snapshot before reporting and never wait for the owner (a salsa write waits for other handles)",
        ],
        floor: (300, 6_000),
        on_case_death,
    }
}

fn generators(cfg: &Cfg) -> Vec<Generator> {
    vec![
        Generator { name: "storm", total: cfg.tier.pick(48, 480), run: run_storm, case_cpu_limit_s: 900 },
        Generator { name: "allocators", total: cfg.tier.pick(8, 64), run: run_allocators, case_cpu_limit_s: 300 },
        Generator { name: "resolved", total: cfg.tier.pick(60, 1200), run: crate::props::c17_resolved::run_resolved, case_cpu_limit_s: 300 },
        Generator { name: "lsp", total: cfg.tier.pick(16, 160), run: crate::props::c17_lsp::run_lsp, case_cpu_limit_s: 900 },
    ]
}

/* ------------------------------------- event log and pause policy ------------------------------------- */

static CLOCK: AtomicU64 = AtomicU64::new(0);
static PAUSE_SEED: AtomicU64 = AtomicU64::new(0);
static PAUSE_ON: AtomicBool = AtomicBool::new(false);
/// true while owner, analysing and allocating threads run concurrently (the only phase the progress watchdog judges)
static CONCURRENT_PHASE: AtomicBool = AtomicBool::new(false);
static PAUSE_CALLS: AtomicU64 = AtomicU64::new(0);
static EVENTS: Mutex<Vec<(u64, u8, &'static str, u32)>> = Mutex::new(Vec::new());

thread_local! {
    static THREAD_TAG: std::cell::Cell<u8> = const { std::cell::Cell::new(255) };
    /// (round of the job this analysing thread works on if new file names appeared in it, else 0; lookups so far)
    static THREAD_JOB: std::cell::Cell<(u32, u32)> = const { std::cell::Cell::new((0, 0)) };
}
/// key of the analysing thread that waits at the lookup hook for its partner (0 = nobody)
static WAITING_AT_LOOKUP: AtomicU64 = AtomicU64::new(0);

fn log(kind: &'static str, round: u32) -> u64 {
    let t = CLOCK.fetch_add(1, Ordering::SeqCst);
    let tag = THREAD_TAG.with(|c| c.get());
    if let Ok(mut e) = EVENTS.lock() {
        e.push((t, tag, kind, round));
    }
    t
}

fn pause(point: &'static str) {
    if !PAUSE_ON.load(Ordering::Relaxed) {
        return;
    }
    let n = PAUSE_CALLS.fetch_add(1, Ordering::Relaxed);
    let h = hash64(format!("{}/{}/{}", PAUSE_SEED.load(Ordering::Relaxed), n, point).as_bytes());
    log(point, 0);
    let window = point.starts_with("set_overlay");
    // rendezvous: in a round in which new file names appeared, the analyses of the two roots look the same new paths up
    // in the same order (root, its companion, the provider, the provider's companion). The k-th lookup of one analysing
    // thread waits a moment for the k-th lookup of another one, and both go on together: random pauses pull threads
    // apart, and a check-then-act window between two *readers* of the shared file table is a few hundred nanoseconds.
    if point == "source_input:before-entry" {
        let (round, calls) = THREAD_JOB.with(|c| {
            let (r, n) = c.get();
            c.set((r, n + 1));
            (r, n)
        });
        if round != 0 && (2..8).contains(&calls) {
            let key = ((round as u64) << 8) | calls as u64;
            if WAITING_AT_LOOKUP.compare_exchange(key, 0, Ordering::SeqCst, Ordering::SeqCst).is_ok() {
                // the partner is waiting: it has just been released
                return;
            }
            if WAITING_AT_LOOKUP.compare_exchange(0, key, Ordering::SeqCst, Ordering::SeqCst).is_ok() {
                let started = Instant::now();
                while WAITING_AT_LOOKUP.load(Ordering::SeqCst) == key && started.elapsed() < Duration::from_micros(800) {
                    std::hint::spin_loop();
                }
                let _ = WAITING_AT_LOOKUP.compare_exchange(key, 0, Ordering::SeqCst, Ordering::SeqCst);
                return;
            }
        }
    }
    match h % 16 {
        | 0..=3 => std::thread::yield_now(),
        | 4 => std::thread::sleep(Duration::from_micros(50 + (h >> 8) % 500)),
        | 5..=9 if window => std::thread::sleep(Duration::from_micros(500 + (h >> 8) % 3000)),
        | _ => {}
    }
}

pub fn install_pause_policy() {
    let _ = zydeco_session::source::verif::PAUSE.set(pause);
}

/* --------------------------------------------- the world --------------------------------------------- */

type State = BTreeMap<String, String>;

fn root_text(epoch: u32, twice: bool, code: u32) -> String {
    let p = MiniPrelude::core().text();
    if twice {
        format!("{p}do x <- ! add (@(import(\"a{epoch}.zy\"))) (@(import(\"./a{epoch}.zy\")));\ndo s <- ! to_string x;\n! write_line s {{ ! exit {code} }}\n")
    } else {
        format!("{p}do s <- ! to_string (@(import(\"a{epoch}.zy\")));\n! write_line s {{ ! exit {code} }}\n")
    }
}

/// The second root: in one variant it imports the same provider as `root.zy`, so that analyses of the two roots on
/// different threads look the provider's companion up for the first time concurrently (reader against reader on the
/// shared file table; analyses of ONE root never do, because salsa runs a query once and lets the others wait).
fn other_text(epoch: u32, imports: bool, code: u32) -> String {
    let p = MiniPrelude::core().text();
    if imports {
        format!("{p}do s <- ! to_string (@(import(\"a{epoch}.zy\")));\n! write_line s {{ ! exit {code} }}\n")
    } else {
        format!("{p}! exit {code}\n")
    }
}

/// One edit: (file name, new overlay text or None = clear_overlay)
fn next_edit(rng: &mut Rng, round: u32, epoch: u32, state: &State) -> (String, Option<String>) {
    let p = MiniPrelude::core().text();
    let companion = format!("a{epoch}.zyi");
    match rng.below(10) {
        | 0..=2 => (format!("a{epoch}.zy"), Some(format!("{}", 1000 + round))),
        | 3..=6 => {
            // companion appears / changes / disappears
            if state.contains_key(&companion) && rng.chance(1, 2) {
                (companion, None)
            } else {
                (companion, Some((*rng.pick(&["@(intrinsic(i64))", "@(intrinsic(string))", "(@(intrinsic(i64))", "-- signature\n@(intrinsic(i64))\n"])).to_string()))
            }
        }
        | 7 => ("other.zy".into(), Some(other_text(epoch, rng.chance(2, 3), round % 200))),
        | 8 => ("a-unrelated.zy".into(), Some(format!("{}", round))),
        | _ => ("root.zy".into(), Some(root_text(epoch, rng.chance(1, 3), round % 200))),
    }
}

fn fresh_with(dir: &Path, state: &State) -> CompilerSession {
    let mut session = CompilerSession::default();
    for (name, text) in state {
        let _ = session.set_overlay(dir.join(name), text.clone());
    }
    session
}

struct Job {
    snapshot: CompilerSession,
    round: u32,
    query: Query,
    other_root: bool,
}

enum Outcome {
    Completed(String),
    Cancelled,
    Panicked(String),
}

struct Done {
    round: u32,
    query: Query,
    other_root: bool,
    outcome: Outcome,
    started: u64,
    ended: u64,
}

fn reader(tag: u8, dir: PathBuf, jobs: Arc<Mutex<Receiver<Job>>>, done: Sender<Done>) {
    THREAD_TAG.with(|c| c.set(tag));
    loop {
        let job = {
            let Ok(rx) = jobs.lock() else { return };
            match rx.recv() {
                | Ok(job) => job,
                | Err(_) => return,
            }
        };
        let Job { snapshot, round, query, other_root } = job;
        THREAD_JOB.with(|c| c.set((if round % 6 == 0 { round } else { 0 }, 0)));
        let (root, other) = if other_root { (dir.join("other.zy"), dir.join("root.zy")) } else { (dir.join("root.zy"), dir.join("other.zy")) };
        let started = log("analysis-start", round);
        let result = catch(|| salsa::Cancelled::catch(AssertUnwindSafe(|| raw_answer(&snapshot, &root, &other, query))));
        // the snapshot must be gone before anything else happens: a pending write waits for it
        drop(snapshot);
        let outcome = match result {
            | Ok(Ok(answer)) => Outcome::Completed(answer),
            | Ok(Err(_cancelled)) => Outcome::Cancelled,
            | Err(p) if p.message == "salsa::Cancelled" => Outcome::Cancelled,
            | Err(p) => Outcome::Panicked(p.short()),
        };
        let ended = log(
            match &outcome {
                | Outcome::Completed(_) => "analysis-completed",
                | Outcome::Cancelled => "analysis-cancelled",
                | Outcome::Panicked(_) => "analysis-panicked",
            },
            round,
        );
        if done.send(Done { round, query, other_root, outcome, started, ended }).is_err() {
            return;
        }
    }
}

zydeco_utils::new_key_type! {
    pub struct StormId;
}
pub enum StormScope {}
impl Allocates<StormId> for StormScope {}

fn allocator_thread(tag: u8, stop: Arc<AtomicBool>, out: Sender<Vec<(u64, u32)>>) {
    THREAD_TAG.with(|c| c.set(tag));
    let mut issued: Vec<(u64, u32)> = Vec::new();
    let mut n = 0u64;
    while !stop.load(Ordering::Relaxed) && issued.len() < 200_000 {
        let mut allocator = IdAllocator::<StormScope>::new();
        for _ in 0..(1 + n % 7) {
            let id: StormId = allocator.alloc();
            issued.push((id.key_space().as_u64(), id.raw().into_u32()));
        }
        n += 1;
        if n % 64 == 0 {
            log("allocator-batch", 0);
            std::thread::yield_now();
        }
    }
    let _ = out.send(issued);
}

struct StormReport {
    problems: Vec<(String, serde_json::Value)>,
    completed: u64,
    cancelled: u64,
    overlapped: u64,
    rounds: u32,
    round_signatures: Vec<u64>,
    overlapped_rounds: BTreeSet<u32>,
    ids: u64,
    key_spaces: u64,
    first_installs_raced: u64,
}

/// Body of one storm. Runs on its own thread; the caller is the progress watchdog.
fn storm(seed: u64, index: u64, rounds: u32) -> StormReport {
    let mut rng = Rng::for_case(seed, "C17/storm", index);
    THREAD_TAG.with(|c| c.set(0));
    if let Ok(mut e) = EVENTS.lock() {
        e.clear();
    }
    PAUSE_SEED.store(seed ^ index.wrapping_mul(0x9e37), Ordering::Relaxed);
    PAUSE_CALLS.store(0, Ordering::Relaxed);
    PAUSE_ON.store(true, Ordering::Relaxed);
    CONCURRENT_PHASE.store(true, Ordering::SeqCst);
    let dir = virtual_dir();
    let mut session = CompilerSession::default();
    let mut state: State = State::new();
    let mut history: Vec<(u32, String, Option<String>)> = Vec::new();
    let mut states_by_round: BTreeMap<u32, State> = BTreeMap::new();
    // pool
    let (job_tx, job_rx) = channel::<Job>();
    let job_rx = Arc::new(Mutex::new(job_rx));
    let (done_tx, done_rx) = channel::<Done>();
    let mut handles = Vec::new();
    for t in 0..8u8 {
        let (d, j, o) = (dir.clone(), job_rx.clone(), done_tx.clone());
        handles.push(std::thread::Builder::new().stack_size(48 << 20).spawn(move || reader(10 + t, d, j, o)).expect("HARNESS: cannot spawn an analysing thread"));
    }
    drop(done_tx);
    let stop = Arc::new(AtomicBool::new(false));
    let (ids_tx, ids_rx) = channel::<Vec<(u64, u32)>>();
    for t in 0..2u8 {
        let (s, o) = (stop.clone(), ids_tx.clone());
        handles.push(std::thread::spawn(move || allocator_thread(100 + t, s, o)));
    }
    drop(ids_tx);
    let mut problems: Vec<(String, serde_json::Value)> = Vec::new();
    let mut jobs_sent = 0u64;
    // initial contents
    for (name, text) in [("root.zy".to_string(), root_text(0, false, 0)), ("a0.zy".to_string(), "1000".to_string()), ("other.zy".to_string(), other_text(0, true, 0))] {
        let _ = session.set_overlay(dir.join(&name), text.clone());
        state.insert(name, text);
    }
    let mut epoch = 0u32;
    // right after new file names appeared the owner sometimes installs the new companion at once, while the
    // analyses of the previous round are still on their way to probing it for the first time
    let mut follow_up = false;
    let quiescent_check = |session: &CompilerSession, state: &State, round: u32, problems: &mut Vec<(String, serde_json::Value)>, history: &Vec<(u32, String, Option<String>)>| {
        let fresh = fresh_with(&dir, state);
        for q in QUERIES {
            for other_root in [false, true] {
                let (root, other) = if other_root { (dir.join("other.zy"), dir.join("root.zy")) } else { (dir.join("root.zy"), dir.join("other.zy")) };
                let own = catch(|| raw_answer(session, &root, &other, q)).unwrap_or_else(|p| format!("PANIC {}", p.short()));
                let want = catch(|| raw_answer(&fresh, &root, &other, q)).unwrap_or_else(|p| format!("PANIC {}", p.short()));
                if own != want {
                    problems.push((
                        format!("owner-answer-stale-after-concurrent-analyses {:?}", q),
                        json!({"round": round, "query": format!("{:?}", q), "root": if other_root { "other.zy" } else { "root.zy" },
                               "owner": own.chars().take(1500).collect::<String>(), "fresh": want.chars().take(1500).collect::<String>(),
                               "recent_edits": history.iter().rev().take(8).map(|(r, f, t)| format!("round {r}: {f} := {}", t.as_deref().map(|t| t.chars().rev().take(60).collect::<String>().chars().rev().collect::<String>()).unwrap_or("<cleared>".into()))).collect::<Vec<_>>()}),
                    ));
                    return;
                }
            }
        }
    };
    for round in 1..=rounds {
        if round % 6 == 0 {
            // a new epoch: new provider names; the root switches over
            epoch += 1;
            let name = format!("a{epoch}.zy");
            let text = format!("{}", 1000 + round);
            log("edit", round);
            let _ = session.set_overlay(dir.join(&name), text.clone());
            state.insert(name.clone(), text.clone());
            history.push((round, name, Some(text)));
            let text = root_text(epoch, false, round % 200);
            let _ = session.set_overlay(dir.join("root.zy"), text.clone());
            state.insert("root.zy".into(), text.clone());
            history.push((round, "root.zy".into(), Some(text)));
            if rng.chance(5, 6) {
                // the other root switches over as well: both will probe the new names for the first time
                let text = other_text(epoch, true, (round + 1) % 200);
                let _ = session.set_overlay(dir.join("other.zy"), text.clone());
                state.insert("other.zy".into(), text.clone());
                history.push((round, "other.zy".into(), Some(text)));
            }
            follow_up = rng.chance(1, 2);
        } else {
            let (name, text) = if follow_up {
                follow_up = false;
                (format!("a{epoch}.zyi"), Some((*rng.pick(&["@(intrinsic(string))", "(@(intrinsic(i64))", "@(intrinsic(i64))"])).to_string()))
            } else {
                next_edit(&mut rng, round, epoch, &state)
            };
            log("edit", round);
            match &text {
                | Some(t) => {
                    let _ = session.set_overlay(dir.join(&name), t.clone());
                    state.insert(name.clone(), t.clone());
                }
                | None => {
                    let _ = session.clear_overlay(dir.join(&name));
                    state.remove(&name);
                }
            }
            history.push((round, name, text));
        }
        log("edit-done", round);
        states_by_round.insert(round, state.clone());
        if round % 15 == 0 {
            // quiescent point: no snapshot is outstanding right after a write
            quiescent_check(&session, &state, round, &mut problems, &history);
        }
        // right after new names appeared, all eight analysing threads get work at once, the two roots alternating: both
        // look the new provider's companion up for the first time, on different threads
        let new_names = round % 6 == 0;
        let k = if new_names { 8 } else { 1 + rng.below(8) };
        for j in 0..k {
            let other_root = if new_names { j % 2 == 1 } else { rng.chance(2, 5) };
            let job = Job { snapshot: session.snapshot(), round, query: *rng.pick(&QUERIES), other_root };
            jobs_sent += 1;
            if job_tx.send(job).is_err() {
                break;
            }
        }
        log("snapshots-handed", round);
        // 0 .. ~2x one analysis
        let wait = if follow_up { 0 } else { rng.below(9_000) as u64 };
        if wait > 300 {
            std::thread::sleep(Duration::from_micros(wait));
        }
    }
    drop(job_tx);
    stop.store(true, Ordering::Relaxed);
    // collect
    let mut completed = 0u64;
    let mut cancelled = 0u64;
    let mut results: Vec<Done> = Vec::new();
    for d in done_rx.iter() {
        results.push(d);
    }
    for h in handles {
        let _ = h.join();
    }
    PAUSE_ON.store(false, Ordering::Relaxed);
    // from here on the driver is sequential (oracle computation): nothing can block on anything
    CONCURRENT_PHASE.store(false, Ordering::SeqCst);
    if results.len() as u64 != jobs_sent {
        problems.push(("analysis-lost".into(), json!({"jobs": jobs_sent, "results": results.len()})));
    }
    // oracle 1: sequential answers per tagged round
    let events = EVENTS.lock().map(|e| e.clone()).unwrap_or_default();
    let edit_times: Vec<u64> = events.iter().filter(|e| e.2 == "edit").map(|e| e.0).collect();
    let mut overlapped = 0u64;
    let mut overlapped_rounds = BTreeSet::new();
    let mut fresh_cache: BTreeMap<u32, CompilerSession> = BTreeMap::new();
    for d in &results {
        if edit_times.iter().any(|t| *t > d.started && *t < d.ended) {
            overlapped += 1;
            overlapped_rounds.insert(d.round);
        }
        match &d.outcome {
            | Outcome::Cancelled => cancelled += 1,
            | Outcome::Panicked(what) => problems.push((format!("analysis-panicked {}", what.split(' ').next().unwrap_or("")), json!({"round": d.round, "query": format!("{:?}", d.query), "panic": what}))),
            | Outcome::Completed(answer) => {
                completed += 1;
                let Some(st) = states_by_round.get(&d.round) else { continue };
                let fresh = fresh_cache.entry(d.round).or_insert_with(|| fresh_with(&dir, st));
                let (root, other) = if d.other_root { (dir.join("other.zy"), dir.join("root.zy")) } else { (dir.join("root.zy"), dir.join("other.zy")) };
                let want = catch(|| raw_answer(fresh, &root, &other, d.query)).unwrap_or_else(|p| format!("PANIC {}", p.short()));
                if *answer != want {
                    // does it match a neighbouring revision instead?
                    let mut matches_round = None;
                    for r in d.round.saturating_sub(3)..=(d.round + 3).min(rounds) {
                        if r != d.round {
                            if let Some(s2) = states_by_round.get(&r) {
                                let f2 = fresh_with(&dir, s2);
                                if catch(|| raw_answer(&f2, &root, &other, d.query)).ok().as_ref() == Some(answer) {
                                    matches_round = Some(r);
                                }
                            }
                        }
                    }
                    problems.push((
                        format!("snapshot-answer-not-of-its-revision {:?}", d.query),
                        json!({"round": d.round, "query": format!("{:?}", d.query), "root": if d.other_root { "other.zy" } else { "root.zy" },
                               "snapshot_answer": answer.chars().take(1500).collect::<String>(), "sequential_answer": want.chars().take(1500).collect::<String>(),
                               "equals_answer_of_round": matches_round,
                               "edits_up_to_round": history.iter().filter(|(r, _, _)| *r <= d.round).rev().take(8).map(|(r, f, t)| format!("round {r}: {f} := {}", t.as_deref().map(|t| t.chars().rev().take(60).collect::<String>().chars().rev().collect::<String>()).unwrap_or("<cleared>".into()))).collect::<Vec<_>>()}),
                    ));
                }
            }
        }
    }
    // oracle 2: the owner after the storm
    quiescent_check(&session, &state, rounds, &mut problems, &history);
    // oracle 3: identifiers
    let mut all_ids: HashSet<(u64, u32)> = HashSet::new();
    let mut key_spaces: HashSet<u64> = HashSet::new();
    let mut ids = 0u64;
    for batch in ids_rx.iter() {
        let mut last_space = 0u64;
        for (space, raw) in batch {
            ids += 1;
            if !all_ids.insert((space, raw)) {
                problems.push(("identifier-issued-twice".into(), json!({"key_space": space, "raw": raw})));
            }
            if raw == 0 {
                // a new allocator: its key space must be new
                if !key_spaces.insert(space) {
                    problems.push(("key-space-issued-twice".into(), json!({"key_space": space})));
                }
                last_space = space;
            } else if space != last_space {
                problems.push(("allocator-changed-key-space".into(), json!({"key_space": space})));
            }
        }
    }
    // per-round event-order signatures
    let mut per_round: BTreeMap<u32, Vec<(u8, &'static str)>> = BTreeMap::new();
    for (_, tag, kind, round) in &events {
        if *round > 0 {
            per_round.entry(*round).or_default().push((*tag, kind));
        }
    }
    let round_signatures: Vec<u64> = per_round.values().map(|v| hash64(format!("{:?}", v).as_bytes())).collect();
    let first_installs_raced = events.iter().filter(|e| e.2 == "set_overlay:between-lookup-and-insert").count() as u64;
    StormReport { problems, completed, cancelled, overlapped, rounds, round_signatures, overlapped_rounds, ids, key_spaces: key_spaces.len() as u64, first_installs_raced }
}

fn run_storm(cfg: &Cfg, index: u64, stats: &mut Stats) {
    install_pause_policy();
    let rounds: u32 = 150;
    let seed = cfg.seed;
    let (tx, rx) = channel::<Result<StormReport, crate::util::panic::PanicInfo>>();
    let handle = std::thread::Builder::new().stack_size(64 << 20).spawn(move || {
        let report = catch(|| storm(seed, index, rounds));
        let _ = tx.send(report);
    });
    let Ok(_handle) = handle else {
        stats.harness_error("cannot spawn the storm thread".into());
        return;
    };
    // progress watchdog on the logical clock
    let mut last = CLOCK.load(Ordering::SeqCst);
    let mut last_change = Instant::now();
    let report = loop {
        match rx.recv_timeout(Duration::from_millis(500)) {
            | Ok(r) => break Some(r),
            | Err(std::sync::mpsc::RecvTimeoutError::Disconnected) => break None,
            | Err(std::sync::mpsc::RecvTimeoutError::Timeout) => {
                let now = CLOCK.load(Ordering::SeqCst);
                if now != last || !CONCURRENT_PHASE.load(Ordering::SeqCst) {
                    last = now;
                    last_change = Instant::now();
                } else if last_change.elapsed() > Duration::from_secs(60) {
                    let tail: Vec<String> = EVENTS.lock().map(|e| e.iter().rev().take(30).map(|(t, tag, k, r)| format!("t={t} thread={tag} {k} round={r}")).collect()).unwrap_or_default();
                    stats.violation(Violation {
                        signature: "no-progress-for-60s".into(),
                        tags: vec![],
                        generator: "storm".into(),
                        index,
                        detail: json!({"problem": "the logical clock did not advance for 60 s: owner and analysing threads are blocked", "last_events": tail}),
                    });
                    // the blocked threads cannot be reclaimed: end this shard process after reporting
                    stats.count("storms_blocked");
                    return;
                }
            }
        }
    };
    let report = match report {
        | Some(Ok(report)) => report,
        | Some(Err(p)) if p.file.starts_with("/repo/") || p.file.contains("salsa") || p.file.contains("dashmap") => {
            // the owner's own calls (set_overlay, clear_overlay, snapshot, quiescent queries) panicked in the product
            stats.violation(Violation {
                signature: format!("owner-panicked {}", p.site()),
                tags: vec![],
                generator: "storm".into(),
                index,
                detail: json!({"problem": format!("the editing owner panicked: {}", p.short())}),
            });
            return;
        }
        | Some(Err(p)) => {
            stats.harness_error(format!("storm #{index}: the driver itself panicked: {}", p.short()));
            return;
        }
        | None => {
            stats.harness_error(format!("storm #{index}: the driver thread vanished"));
            return;
        }
    };
    stats.evaluations += report.completed + report.cancelled;
    stats.add("analyses_completed", report.completed);
    stats.add("analyses_cancelled", report.cancelled);
    stats.add("analyses_overlapping_an_edit", report.overlapped);
    stats.add("rounds", report.rounds as u64);
    stats.add("identifiers_issued", report.ids);
    stats.add("allocators_created", report.key_spaces);
    stats.add("first_installs_through_pause_window", report.first_installs_raced);
    for (k, sig) in report.round_signatures.iter().enumerate() {
        if report.overlapped_rounds.contains(&(k as u32 + 1)) {
            stats.nontrivial_hash(*sig);
        }
    }
    stats.add("distinct_round_orders_seen", report.round_signatures.iter().collect::<BTreeSet<_>>().len() as u64);
    if report.completed == 0 || report.overlapped == 0 {
        stats.inconclusive("a storm without both completed and overlapped analyses");
    }
    if index == 0 {
        stats.sample(json!({"storm": {"rounds": report.rounds, "completed": report.completed, "cancelled": report.cancelled, "overlapping_an_edit": report.overlapped, "identifiers": report.ids, "allocators": report.key_spaces}}));
    }
    let mut seen = BTreeSet::new();
    for (signature, detail) in report.problems {
        if seen.insert(signature.clone()) {
            stats.violation(Violation { signature, tags: vec![], generator: "storm".into(), index, detail });
        }
    }
}

/// Allocator identity alone, many threads starting together.
fn run_allocators(_cfg: &Cfg, index: u64, stats: &mut Stats) {
    let threads = 4 + (index % 13) as usize;
    let barrier = Arc::new(std::sync::Barrier::new(threads));
    let mut handles = Vec::new();
    for _ in 0..threads {
        let b = barrier.clone();
        handles.push(std::thread::spawn(move || {
            b.wait();
            let mut out: Vec<(u64, u32)> = Vec::new();
            for n in 0..400u32 {
                let mut a = IdAllocator::<StormScope>::new();
                for _ in 0..(1 + n % 5) {
                    let id: StormId = a.alloc();
                    out.push((id.key_space().as_u64(), id.raw().into_u32()));
                }
            }
            out
        }));
    }
    let mut all: HashSet<(u64, u32)> = HashSet::new();
    let mut spaces: HashSet<u64> = HashSet::new();
    let mut problems = Vec::new();
    for h in handles {
        let Ok(batch) = h.join() else {
            problems.push("an allocator thread panicked".to_string());
            continue;
        };
        for (space, raw) in batch {
            stats.evaluations += 1;
            if !all.insert((space, raw)) {
                problems.push(format!("identifier ({space}, {raw}) issued twice"));
            }
            if raw == 0 && !spaces.insert(space) {
                problems.push(format!("key space {space} given to two allocators"));
            }
        }
    }
    stats.add("identifiers_issued", all.len() as u64);
    stats.add("allocators_created", spaces.len() as u64);
    stats.nontrivial(format!("allocators/{index}/{threads}").as_bytes());
    if let Some(p) = problems.first() {
        stats.violation(Violation { signature: "identifier-collision".into(), tags: vec![], generator: "allocators".into(), index, detail: json!({"threads": threads, "problems": problems.len(), "first": p}) });
    }
}

fn on_case_death(_cfg: &Cfg, generator: &str, index: u64, death: &str) -> Death {
    if death.contains("timeout") {
        return Death::Inconclusive(format!("{generator}#{index} exceeded its budget ({death})"));
    }
    Death::Violation(Violation {
        signature: format!("process-death-under-concurrency {}", death),
        tags: vec![],
        generator: generator.into(),
        index,
        detail: json!({"problem": format!("the process died during a concurrent storm: {death}")}),
    })
}

/* ------------------------------------------ sanitizer extras ------------------------------------------ */

fn extra(cfg: &Cfg, stats: &mut Stats) {
    // quick: the allocator-identity race under Miri at four scheduler seeds; thorough: sixteen seeds and the storm under
    // ThreadSanitizer
    crate::props::c17_san::run(cfg, stats);
}

/// Entry for the stand-alone stress binary mode (`zv storm <seed> <cases> <rounds>`), used under ThreadSanitizer.
pub fn storm_main(seed: u64, cases: u64, rounds: u32) -> i32 {
    install_pause_policy();
    let mut bad = 0;
    for index in 0..cases {
        let report = storm(seed, index, rounds);
        println!(
            "storm {index}: completed={} cancelled={} overlapped={} ids={} problems={}",
            report.completed,
            report.cancelled,
            report.overlapped,
            report.ids,
            report.problems.len()
        );
        for (sig, detail) in &report.problems {
            println!("PROBLEM {sig} {}", detail.to_string().chars().take(400).collect::<String>());
            bad += 1;
        }
    }
    if bad > 0 { 1 } else { 0 }
}
