//! C03 — the checker decides exactly the declared typing rules on the core language.
//!
//! must-accept: E1 programs (well-typed by construction, carrying the annotations checking needs) in every style.
//! must-reject: the same programs with one definite, localised type error injected at a checked position.

use crate::core::*;
use crate::e1::{self, print::Style};
use crate::pipeline::{self, Sources, Verdict};
use crate::props::c02::styles_for;
use crate::util::rng::Rng;
use serde_json::json;

pub fn def() -> PropertyDef {
    PropertyDef {
        id: "C03",
        title: "The checker decides exactly the declared typing rules on the core language",
        generators,
        extra: no_extra,
        rule: "accept: E1 type-directed programs (well-typed by construction) printed in 4-5 styles incl. fully annotated and minimally \
               annotated, each must be Checked; reject: for each program several injection sites (value of a definitely different closed type \
               at a checked position, unknown constructor/destructor/field, force of a non-thunk, do on a non-returner, match on a non-data, \
               destructor on a function, missing/extra argument, branch/continuation/annotation/parameter type mismatch, type or computation \
               where a value is expected, term or kind where a type is expected), each must be rejected through the normal error path; \
               catalogue: hand-written sealing / existential-escape / generativity cases in both polarities. distinct = (program text hash); \
               non-trivial accept = >=5 formers; non-trivial reject = the injected error kind was actually applied.",
        assumptions: &[
            "E1 construction invariant: generated programs are well-typed in the documented CBPV/F-omega rules",
            "an injected error is definite: the expected type at a checked position is closed and differs in its head former",
        ],
        floor: (1_000, 30_000),
        on_case_death: death_is_harness_error,
    }
}

fn generators(cfg: &Cfg) -> Vec<Generator> {
    vec![
        Generator { name: "accept", total: cfg.tier.pick(1_200, 40_000), run: run_accept, case_cpu_limit_s: 120 },
        Generator { name: "reject", total: cfg.tier.pick(1_200, 40_000), run: run_reject, case_cpu_limit_s: 120 },
        Generator { name: "catalogue", total: crate::props::catalogue::cases().len() as u64, run: run_catalogue, case_cpu_limit_s: 120 },
    ]
}

fn run_accept(cfg: &Cfg, index: u64, stats: &mut Stats) {
    let program = e1::generate::generate(cfg.seed, "C03", index);
    for f in &program.features {
        stats.cover("formers", f);
    }
    for style in styles_for(index) {
        let text = e1::print::program_text(&program, &style, cfg.seed ^ index);
        let sources = Sources::single(text);
        let analyzed = pipeline::analyze_overlay(&sources);
        stats.evaluations += 1;
        stats.count(&format!("accept_class_{}", analyzed.verdict.class()));
        if program.features.len() >= 5 {
            stats.nontrivial(sources.root_text().as_bytes());
        }
        if index == 0 && style.describe() == "Distinct+ann+parens" {
            stats.sample(json!({"must_accept_program_fully_annotated": sources.root_text()}));
        }
        if !analyzed.verdict.is_accept() {
            let first = analyzed.verdict.brief().lines().next().unwrap_or("").chars().take(60).collect::<String>();
            let signature = match &analyzed.verdict {
                | Verdict::Panic(p) => format!("checker-panic {}", p.site()),
                | _ => format!("must-accept-rejected {}", first.trim_start_matches("rejected: Error: ").trim()),
            };
            stats.violation(Violation {
                signature,
                tags: program.features.iter().map(|f| f.to_string()).collect(),
                generator: "accept".into(),
                index,
                detail: json!({"style": style.describe(), "verdict": analyzed.verdict.brief(), "sources": sources.to_json()}),
            });
        }
    }
}

fn run_reject(cfg: &Cfg, index: u64, stats: &mut Stats) {
    let program = e1::generate::generate(cfg.seed, "C03", index);
    let mut rng = Rng::for_case(cfg.seed, "C03/reject", index);
    let styles = styles_for(index);
    // count sites under the first style (site numbering does not depend on the style)
    let (_, sites, _) = e1::print::program_text_mut(&program, &styles[0], cfg.seed ^ index, None);
    if sites == 0 {
        return;
    }
    let tries = cfg.tier.pick(6, 10).min(sites);
    for t in 0..tries {
        let target = (rng.below(sites) + t * sites / tries) % sites;
        let style: &Style = &styles[rng.below(styles.len())];
        let (text, _, applied) = e1::print::program_text_mut(&program, style, cfg.seed ^ index ^ (t as u64) << 20, Some(target));
        let Some(kind) = applied else {
            stats.inconclusive("injection site not reached under this style");
            continue;
        };
        let sources = Sources::single(text);
        let analyzed = pipeline::analyze_overlay(&sources);
        stats.evaluations += 1;
        stats.cover("injected_error_kinds", &kind);
        stats.count(&format!("reject_class_{}", analyzed.verdict.class()));
        stats.nontrivial(sources.root_text().as_bytes());
        if let Verdict::Rejected { messages } = &analyzed.verdict {
            let first = messages.first().map(|m| m.lines().next().unwrap_or("").to_string()).unwrap_or_default();
            stats.cover("diagnostics", first.trim_start_matches("Error: ").split(':').next().unwrap_or("").trim());
        }
        if index < 3 && t == 0 {
            stats.sample(json!({"must_reject": {"injected": kind, "site": target, "verdict": analyzed.verdict.brief().lines().next()}}));
        }
        // typed term holes are accepted by design (the checker reports their types): not an error kind here; what
        // must never happen to such a program is execution (C01)
        if kind == "term-hole" && analyzed.verdict.is_accept() {
            stats.count("term_hole_programs_accepted_by_design");
            continue;
        }
        if !analyzed.verdict.is_reject() {
            let signature = match &analyzed.verdict {
                | Verdict::Panic(p) => format!("checker-panic {}", p.site()),
                | _ => format!("must-reject-accepted {}", kind),
            };
            stats.violation(Violation {
                signature,
                tags: vec![kind.clone()],
                generator: "reject".into(),
                index,
                detail: json!({"injected": kind, "site": target, "style": style.describe(), "verdict": analyzed.verdict.brief(), "sources": sources.to_json()}),
            });
        }
    }
}

fn run_catalogue(_cfg: &Cfg, index: u64, stats: &mut Stats) {
    let cases = crate::props::catalogue::cases();
    let case = &cases[index as usize];
    let sources = case.sources();
    let analyzed = pipeline::analyze_overlay(&sources);
    stats.evaluations += 1;
    stats.nontrivial(format!("catalogue/{}", case.name).as_bytes());
    stats.count(&format!("catalogue_class_{}", analyzed.verdict.class()));
    stats.cover("catalogue", &case.name);
    let ok = match case.expect {
        | crate::props::catalogue::Expect::Accept => analyzed.verdict.is_accept(),
        | crate::props::catalogue::Expect::Reject => analyzed.verdict.is_reject(),
        | crate::props::catalogue::Expect::Either => !matches!(analyzed.verdict, Verdict::Panic(_)),
    };
    if !ok {
        stats.violation(Violation {
            signature: format!("catalogue-{} {}", if case.expect == crate::props::catalogue::Expect::Accept { "must-accept-rejected" } else { "must-reject-accepted" }, case.name),
            tags: vec![case.name.clone()],
            generator: "catalogue".into(),
            index,
            detail: json!({"case": case.name, "verdict": analyzed.verdict.brief(), "sources": sources.to_json()}),
        });
    }
}
