//! C03 — the checker decides exactly the declared typing rules on the core language.
//!
//! must-accept: E1 programs (well-typed by construction, carrying the annotations checking needs) in every style.
//! must-reject: the same programs with one definite, localised type error injected at a checked position.

use crate::core::*;
use crate::e1::{self, print::Style};
use crate::pipeline::{self, Sources, Verdict};
use crate::props::c02::styles_for;
use crate::util::rng::Rng;
use serde_json::json;

pub fn def() -> PropertyDef {
    PropertyDef {
        id: "C03",
        title: "The checker decides exactly the declared typing rules on the core language",
        generators,
        extra: no_extra,
        rule: "accept: E1 type-directed programs (well-typed by construction) printed in 4-5 styles incl. fully annotated and minimally \
               annotated, each must be Checked; reject: for each program several injection sites (value of a definitely different closed type \
               at a checked position, unknown constructor/destructor/field, force of a non-thunk, do on a non-returner, match on a non-data, \
               destructor on a function, missing/extra argument, branch/continuation/annotation/parameter type mismatch, type or computation \
               where a value is expected, term or kind where a type is expected), each must be rejected through the normal error path; \
               catalogue: hand-written sealing / existential-escape / generativity cases in both polarities. distinct = (program text hash); \
               non-trivial accept = >=5 formers; non-trivial reject = the injected error kind was actually applied.",
        assumptions: &[
            "E1 construction invariant: generated programs are well-typed in the documented CBPV/F-omega rules",
            "an injected error is definite: the expected type at a checked position is closed and differs in its head former",
        ],
        floor: (1_000, 30_000),
        on_case_death: death_is_harness_error,
    }
}

fn generators(cfg: &Cfg) -> Vec<Generator> {
    vec![
        Generator { name: "accept", total: cfg.tier.pick(1_200, 40_000), run: run_accept, case_cpu_limit_s: 120 },
        Generator { name: "reject", total: cfg.tier.pick(1_200, 40_000), run: run_reject, case_cpu_limit_s: 120 },
        Generator { name: "catalogue", total: crate::props::catalogue::cases().len() as u64, run: run_catalogue, case_cpu_limit_s: 120 },
        Generator { name: "escapes", total: cfg.tier.pick(160, 4_000), run: run_escape, case_cpu_limit_s: 120 },
    ]
}

fn run_accept(cfg: &Cfg, index: u64, stats: &mut Stats) {
    let program = e1::generate::generate(cfg.seed, "C03", index);
    for f in &program.features {
        stats.cover("formers", f);
    }
    for style in styles_for(index) {
        let text = e1::print::program_text(&program, &style, cfg.seed ^ index);
        let sources = Sources::single(text);
        let analyzed = pipeline::analyze_overlay(&sources);
        stats.evaluations += 1;
        stats.count(&format!("accept_class_{}", analyzed.verdict.class()));
        if program.features.len() >= 5 {
            stats.nontrivial(sources.root_text().as_bytes());
        }
        if index == 0 && style.describe() == "Distinct+ann+parens" {
            stats.sample(json!({"must_accept_program_fully_annotated": sources.root_text()}));
        }
        if !analyzed.verdict.is_accept() {
            let first = analyzed.verdict.brief().lines().next().unwrap_or("").chars().take(60).collect::<String>();
            let signature = match &analyzed.verdict {
                | Verdict::Panic(p) => format!("checker-panic {}", p.site()),
                | _ => format!("must-accept-rejected {}", first.trim_start_matches("rejected: Error: ").trim()),
            };
            stats.violation(Violation {
                signature,
                tags: program.features.iter().map(|f| f.to_string()).collect(),
                generator: "accept".into(),
                index,
                detail: json!({"style": style.describe(), "verdict": analyzed.verdict.brief(), "sources": sources.to_json()}),
            });
        }
    }
}

fn run_reject(cfg: &Cfg, index: u64, stats: &mut Stats) {
    let program = e1::generate::generate(cfg.seed, "C03", index);
    let mut rng = Rng::for_case(cfg.seed, "C03/reject", index);
    let styles = styles_for(index);
    // count sites under the first style (site numbering does not depend on the style)
    let (_, sites, _) = e1::print::program_text_mut(&program, &styles[0], cfg.seed ^ index, None);
    if sites == 0 {
        return;
    }
    let tries = cfg.tier.pick(6, 10).min(sites);
    for t in 0..tries {
        let target = (rng.below(sites) + t * sites / tries) % sites;
        let style: &Style = &styles[rng.below(styles.len())];
        let (text, _, applied) = e1::print::program_text_mut(&program, style, cfg.seed ^ index ^ (t as u64) << 20, Some(target));
        let Some(kind) = applied else {
            stats.inconclusive("injection site not reached under this style");
            continue;
        };
        let sources = Sources::single(text);
        let analyzed = pipeline::analyze_overlay(&sources);
        stats.evaluations += 1;
        stats.cover("injected_error_kinds", &kind);
        stats.count(&format!("reject_class_{}", analyzed.verdict.class()));
        stats.nontrivial(sources.root_text().as_bytes());
        if let Verdict::Rejected { messages } = &analyzed.verdict {
            let first = messages.first().map(|m| m.lines().next().unwrap_or("").to_string()).unwrap_or_default();
            stats.cover("diagnostics", first.trim_start_matches("Error: ").split(':').next().unwrap_or("").trim());
        }
        if index < 3 && t == 0 {
            stats.sample(json!({"must_reject": {"injected": kind, "site": target, "verdict": analyzed.verdict.brief().lines().next()}}));
        }
        // typed term holes are accepted by design (the checker reports their types): not an error kind here; what
        // must never happen to such a program is execution (C01)
        if kind == "term-hole" && analyzed.verdict.is_accept() {
            stats.count("term_hole_programs_accepted_by_design");
            continue;
        }
        if !analyzed.verdict.is_reject() {
            let signature = match &analyzed.verdict {
                | Verdict::Panic(p) => format!("checker-panic {}", p.site()),
                | _ => format!("must-reject-accepted {}", kind),
            };
            stats.violation(Violation {
                signature,
                tags: vec![kind.clone()],
                generator: "reject".into(),
                index,
                detail: json!({"injected": kind, "site": target, "style": style.describe(), "verdict": analyzed.verdict.brief(), "sources": sources.to_json()}),
            });
        }
    }
}

fn run_catalogue(_cfg: &Cfg, index: u64, stats: &mut Stats) {
    let cases = crate::props::catalogue::cases();
    let case = &cases[index as usize];
    let sources = case.sources();
    let analyzed = pipeline::analyze_overlay(&sources);
    stats.evaluations += 1;
    stats.nontrivial(format!("catalogue/{}", case.name).as_bytes());
    stats.count(&format!("catalogue_class_{}", analyzed.verdict.class()));
    stats.cover("catalogue", &case.name);
    let ok = match case.expect {
        | crate::props::catalogue::Expect::Accept => analyzed.verdict.is_accept(),
        | crate::props::catalogue::Expect::Reject => analyzed.verdict.is_reject(),
        | crate::props::catalogue::Expect::Either => !matches!(analyzed.verdict, Verdict::Panic(_)),
    };
    if !ok {
        stats.violation(Violation {
            signature: format!("catalogue-{} {}", if case.expect == crate::props::catalogue::Expect::Accept { "must-accept-rejected" } else { "must-reject-accepted" }, case.name),
            tags: vec![case.name.clone()],
            generator: "catalogue".into(),
            index,
            detail: json!({"case": case.name, "verdict": analyzed.verdict.brief(), "sources": sources.to_json()}),
        });
    }
}

/* ------------------------------------------------------------------------------------------------------------
 * Where a package is opened must not matter for the scope of its witness: the package pattern `(X, v, g)` sits at a
 * random position of a random tuple pattern (first, middle, last component; one level down), in a value-level `let` or
 * an abstraction binder of a pure function. The escaping variant returns `(v, g)`, whose type mentions X - it must be
 * rejected (and if it is accepted, the program applies the Int64 function of one package to the unit of another); the
 * well-scoped variant returns `g v : Int64` and must be accepted and exit with 7.
 * ------------------------------------------------------------------------------------------------------------ */

fn run_escape(cfg: &Cfg, index: u64, stats: &mut Stats) {
    let mut rng = Rng::for_case(cfg.seed, "C03/escapes", index);
    let k = 1 + rng.below(4); // components of the tuple around the package (1 = the package alone)
    let position = rng.below(k);
    let nested = k > 1 && rng.chance(1, 3);
    let binder = rng.below(2); // 0 = value-level let, 1 = abstraction binder
    let escaping = index % 2 == 0;
    let package_pattern = "(X, v, g)";
    let component = |i: usize, package: &str, other: &str| -> String {
        if i == position {
            if nested { format!("({other}, {package})") } else { package.to_string() }
        } else {
            other.to_string()
        }
    };
    let tuple = |package: &str, other: &str| -> String {
        if k == 1 {
            component(0, package, other)
        } else {
            format!("({})", (0..k).map(|i| component(i, package, other)).collect::<Vec<_>>().join(", "))
        }
    };
    let pattern = tuple(package_pattern, "_");
    let value = tuple("b", "()");
    let ty = tuple("Box", "Unit").replace(", ", " * ");
    let result = if escaping { "(v, g)" } else { "g v" };
    let open = match binder {
        | 0 => format!("let open = fn (b : Box) => let {pattern} = {value} in {result} that\n"),
        | _ => format!("let open = fn (b : Box) => (fn ({pattern} : {ty}) => {result}) {value} that\n"),
    };
    let tail = if escaping {
        "let (v1, g1) = open units that\nlet (v2, g2) = open ints that\nlet n = g2 v1 that\n! exit n\n"
    } else {
        "let n = open ints that\n! exit n\n"
    };
    let body = format!(
        "begin\nlet Box = exists (X : VType) . X * (X -> Int64) that\ndef ints : Box = (Int64, 7, fn (x : Int64) => x) that\ndef units : Box = (Unit, (), fn (_ : Unit) => 0) that\n{open}{tail}end\n"
    );
    let sources = Sources::single(format!("{}{}", crate::prelude::MiniPrelude::core().text(), body));
    let result = pipeline::check_and_run(&sources, b"", &[], 100_000);
    stats.evaluations += 1;
    let shape = format!("{} of {k}{} in {}", position, if nested { " nested" } else { "" }, if binder == 0 { "let" } else { "abstraction" });
    stats.cover("escape_shapes", &shape);
    stats.nontrivial(format!("{shape} {escaping}").as_bytes());
    let ok = if escaping {
        result.verdict.is_reject()
    } else if binder == 1 {
        // the documented rules reject an opened witness below an abstraction binder even when it stays in scope
        // ("package witness arity"): only the value-level let has a well-scoped variant that must be accepted
        !matches!(result.verdict, Verdict::Panic(_)) && (result.verdict.is_reject() || matches!(result.run.as_ref().map(|r| &r.end), Some(pipeline::End::Exit(7))))
    } else {
        matches!((&result.verdict, result.run.as_ref().map(|r| &r.end)), (Verdict::Checked, Some(pipeline::End::Exit(7))))
    };
    stats.count(if escaping { "escapes_rejected_as_required" } else { "scoped_uses_accepted_as_required" });
    if !ok {
        stats.violation(Violation {
            signature: if escaping { "witness-escape-accepted".into() } else { "well-scoped-package-use-rejected".into() },
            tags: vec![shape.clone()],
            generator: "escapes".into(),
            index,
            detail: json!({"package_pattern_at": shape, "escaping": escaping, "verdict": result.verdict.brief(), "end": result.run.as_ref().map(|r| format!("{:?}", r.end)), "sources": sources.to_json()}),
        });
    }
}
