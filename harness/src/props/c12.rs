//! C12 — formatting is total and preserves the meaning of the program.

use crate::core::*;
use crate::e2;
use crate::pipeline::{self, Sources};
use crate::props::fmtwork;
use crate::util::proc;
use crate::util::scratch::Scratch;
use serde_json::json;

pub fn def() -> PropertyDef {
    PropertyDef {
        id: "C12",
        title: "Formatting is total and preserves the meaning of the program",
        generators,
        extra,
        rule: "workload: every repository source, the same with comments inserted at random token gaps and re-spaced, grammar-generated \
               terms with nested @[format(..)] directives, generated core programs in several styles; each under 3 (quick) / 10 (thorough) \
               option tuples from width {1,2,3,5,8,13,21,40,80,100,200} x indent {1,2,4,8} x layout {preserve, blank_lines, ignore} x \
               parentheses {minimal, preserve}, given as API options or as a wrapping directive. Oracle: no panic; output parses; the desugared \
               term of the output renders identically to that of the input; for runnable programs the check verdict and run behaviour are \
               unchanged; unparseable files are left untouched by `zydeco fmt` (exit 1). distinct = (source hash, options); non-trivial = \
               >= 10 code tokens and the source parses.",
        assumptions: &["the repository's one-line rendering of the desugared term (bitter::fmt) distinguishes different desugared structures"],
        floor: (1_000, 30_000),
        on_case_death,
    }
}

fn generators(cfg: &Cfg) -> Vec<Generator> {
    vec![Generator { name: "format", total: fmtwork::total(cfg), run: run_format, case_cpu_limit_s: fmtwork::CPU_BUDGET_S }]
}

fn on_case_death(cfg: &Cfg, _generator: &str, index: u64, death: &str) -> Death {
    let case = fmtwork::case(cfg, index);
    let input = case.input();
    let signature = match death {
        | "cpu-timeout" => "formatter-exceeds-cpu-budget".to_string(),
        // the shard's address space is capped: an allocation failure aborts it
        | "signal 6" | "signal 9" => "formatter-out-of-memory".to_string(),
        | other => format!("formatter-death {}", other),
    };
    Death::Violation(Violation {
        signature,
        tags: tags_for(&input),
        generator: "format".into(),
        index,
        detail: json!({"case": case.describe(), "nesting": case.nesting, "input": input, "problem": format!("the formatting shard died: {}", death)}),
    })
}

fn run_format(cfg: &Cfg, index: u64, stats: &mut Stats) {
    let case = fmtwork::case(cfg, index);
    let input = case.input();
    stats.evaluations += 1;
    if case.deep() {
        // triggered partition of the known exponential-cost finding: judged out of process under a CPU budget
        stats.count("deep_nesting_partition");
        if stats.get("deep_nesting_partition") <= cfg.tier.pick(2, 6) {
            deep_case_out_of_process(&case, &input, index, stats);
        }
        return;
    }
    let parses = matches!(e2::parse(&input), Ok(Ok(_)));
    if !parses {
        stats.count("input_not_parseable");
        return;
    }
    let tokens = e2::scan::scan(&input);
    if tokens.iter().filter(|t| t.is_code()).count() >= 10 {
        stats.nontrivial(format!("{}/{}", crate::util::rng::hash64(input.as_bytes()), case.options.describe()).as_bytes());
    }
    stats.cover("origins", case.origin.split(':').next().unwrap_or(""));
    stats.cover("options", &case.options.describe());
    let fail = |stats: &mut Stats, signature: String, problem: String, output: Option<&str>| {
        stats.violation(Violation {
            signature,
            tags: tags_for(&input),
            generator: "format".into(),
            index,
            detail: json!({"case": case.describe(), "problem": problem, "input": input, "output": output}),
        });
    };
    let output = match case.format(&input) {
        | Err(p) => {
            fail(stats, format!("formatter-panic {}", p.site()), format!("panic {}", p.short()), None);
            return;
        }
        | Ok(Err(e)) => {
            fail(stats, "formatter-refused-parseable-input".into(), e, None);
            return;
        }
        | Ok(Ok(o)) => o,
    };
    stats.count("formatted");
    if stats.samples.is_empty() {
        stats.sample(json!({"case": case.describe(), "input_excerpt": input.chars().take(300).collect::<String>(), "output_excerpt": output.chars().take(300).collect::<String>()}));
    }
    // (2) output parses
    if !matches!(e2::parse(&output), Ok(Ok(_))) {
        let why = match e2::parse(&output) {
            | Ok(Err(e)) => e,
            | Err(p) => p.short(),
            | _ => String::new(),
        };
        fail(stats, "formatted-output-does-not-parse".into(), why, Some(&output));
        return;
    }
    // (2b) the text a `@(literal)` splice denotes is not visible in the desugared term (it prints as `literal_`): the
    // `--|` lines themselves must come out character for character
    let (before, after) = (crate::props::c13::text_lines(&input), crate::props::c13::text_lines(&output));
    if before != after {
        let at = before.iter().zip(after.iter()).position(|(a, b)| a != b).unwrap_or(before.len().min(after.len()));
        fail(stats, "text-block-content-changed".into(), format!("{} text lines in, {} out; first difference at #{}: {:?} vs {:?}", before.len(), after.len(), at, before.get(at), after.get(at)), Some(&output));
        return;
    }
    // (3) structural identity after desugaring
    match (e2::desugared(&input), e2::desugared(&output)) {
        | (Ok(Ok(a)), Ok(Ok(b))) => {
            stats.count("desugared_compared");
            stats.count(&format!("desugared_compared_{}", case.origin.split(':').next().unwrap_or("")));
            if a != b {
                let at = a.bytes().zip(b.bytes()).position(|(x, y)| x != y).unwrap_or(a.len().min(b.len()));
                let from = at.saturating_sub(60);
                let excerpt = |s: &str| s.chars().skip(from).take(160).collect::<String>();
                fail(stats, "desugared-structure-changed".into(), format!("first difference at {}: input …{}… output …{}…", at, excerpt(&a), excerpt(&b)), Some(&output));
                return;
            }
        }
        | (Ok(Err(a)), Ok(Err(b))) => {
            stats.count("both_fail_to_desugar");
            stats.count(&format!("both_fail_to_desugar_{}", case.origin.split(':').next().unwrap_or("")));
            let _ = (a, b);
        }
        | (Ok(Ok(_)), Ok(Err(e))) | (Ok(Err(e)), Ok(Ok(_))) => {
            fail(stats, "desugaring-outcome-changed".into(), e, Some(&output));
            return;
        }
        | _ => stats.inconclusive("desugarer panicked"),
    }
    // (4) semantic identity on runnable inputs
    if case.runnable {
        let before = pipeline::check_and_run(&Sources::single(input.clone()), b"", &[], 400_000);
        let after = pipeline::check_and_run(&Sources::single(output.clone()), b"", &[], 400_000);
        stats.count("semantic_compared");
        let same = before.verdict.class() == after.verdict.class()
            && before.run.as_ref().map(|r| (&r.stdout, &r.end)) == after.run.as_ref().map(|r| (&r.stdout, &r.end));
        if !same {
            fail(
                stats,
                "behaviour-changed-by-formatting".into(),
                format!("before: {} {:?}; after: {} {:?}", before.verdict.brief(), before.run.as_ref().map(|r| &r.end), after.verdict.brief(), after.run.as_ref().map(|r| &r.end)),
                Some(&output),
            );
        }
    }
}

/// Run `zydeco fmt --check` on a deeply nested source with a CPU budget: a crash is a violation of its own,
/// exceeding the budget is the known finding.
fn deep_case_out_of_process(case: &fmtwork::FmtCase, input: &str, index: u64, stats: &mut Stats) {
    let scratch = Scratch::new("c12deep");
    let path = scratch.write("deep.zy", input.as_bytes());
    let r = proc::run(&proc::zydeco_bin(), &["fmt", "--check", path.to_str().unwrap()], Some(scratch.path()), b"", 3, 60);
    stats.count("deep_nesting_out_of_process");
    let over_budget = r.signal == Some(libc::SIGXCPU) || r.signal == Some(libc::SIGKILL) || r.wall_timeout;
    let signature = if over_budget {
        Some("formatter-exceeds-cpu-budget".to_string())
    } else if r.signal.is_some() || !matches!(r.code, Some(0) | Some(1)) {
        Some(format!("formatter-death {}", r.status_string()))
    } else {
        None
    };
    if let Some(signature) = signature {
        stats.violation(Violation {
            signature,
            tags: vec![format!("delimiter-nesting>={}", fmtwork::COSTLY_NESTING)],
            generator: "format".into(),
            index,
            detail: json!({"case": case.describe(), "nesting": case.nesting, "status": r.status_string(), "cpu_budget_s": 3, "input": input}),
        });
    }
}

pub fn tags_for(input: &str) -> Vec<String> {
    let tokens = e2::scan::scan(input);
    let mut tags = Vec::new();
    if fmtwork::delimiter_nesting(input) >= fmtwork::COSTLY_NESTING {
        tags.push(format!("delimiter-nesting>={}", fmtwork::COSTLY_NESTING));
    }
    // a quantifier whose parameter list contains a destructor (parses, but is rejected by desugaring)
    {
        let code: Vec<&e2::scan::Token> = tokens.iter().filter(|t| t.is_code()).collect();
        let mut k = 0;
        while k < code.len() {
            if matches!(code[k].text(input), "forall" | "pi" | "sigma") {
                let mut j = k + 1;
                while j < code.len() && code[j].text(input) != "." {
                    if code[j].kind == e2::scan::Kind::Dtor && !tags.contains(&"quantifier-with-destructor-parameter".to_string()) {
                        tags.push("quantifier-with-destructor-parameter".into());
                    }
                    j += 1;
                }
            }
            k += 1;
        }
    }
    // a manifest binder in its own parentheses: `((p) as D ..)`
    {
        let code: Vec<&e2::scan::Token> = tokens.iter().filter(|t| t.is_code()).collect();
        for k in 0..code.len().saturating_sub(1) {
            if code[k].text(input) == "(" && code[k + 1].text(input) == "(" {
                let mut depth = 0i32;
                for j in k + 1..code.len() {
                    match code[j].text(input) {
                        | "(" => depth += 1,
                        | ")" => {
                            depth -= 1;
                            if depth == 0 {
                                if code.get(j + 1).map(|t| t.text(input)) == Some("as") && !tags.contains(&"parenthesized-manifest-binder".to_string()) {
                                    tags.push("parenthesized-manifest-binder".into());
                                }
                                break;
                            }
                        }
                        | _ => {}
                    }
                }
            }
        }
    }
    for (i, t) in tokens.iter().enumerate() {
        if t.kind == e2::scan::Kind::BlockComment {
            // a block comment followed on the same line by more code
            if let Some(next) = tokens.get(i + 1) {
                if !input[t.end..next.start].contains('\n') && !tags.contains(&"block-comment-then-code-on-same-line".to_string()) {
                    tags.push("block-comment-then-code-on-same-line".into());
                }
            }
            if !tags.contains(&"block-comment".to_string()) {
                tags.push("block-comment".into());
            }
        }
        if t.kind == e2::scan::Kind::LineComment && !tags.contains(&"line-comment".to_string()) {
            tags.push("line-comment".into());
        }
    }
    tags
}

/// (5) CLI: unparseable files are left byte-identical and `zydeco fmt` exits 1; parseable ones are rewritten to the
/// same text the in-process formatter produces.
fn extra(cfg: &Cfg, stats: &mut Stats) {
    let scratch = Scratch::new("c12cli");
    let bin = proc::zydeco_bin();
    let n = cfg.tier.pick(24, 200);
    for i in 0..n {
        let case = fmtwork::case(cfg, (i * 37) % fmtwork::total(cfg));
        let good = case.text.clone();
        // unparseable variants: junk at the end, and a token-level mutation somewhere inside (kept only if it really does
        // not parse)
        let bad = format!("{} )))", good);
        let mut mrng = crate::util::rng::Rng::for_case(cfg.seed, "C12/cli-mutation", i);
        let mutated = (0..8).map(|_| e2::mutate::mutate_tokens(&good, &mut mrng, 1)).find(|t| matches!(e2::parse(t), Ok(Err(_))));
        let mut variants = vec![("parseable", good), ("unparseable", bad)];
        if let Some(m) = mutated {
            variants.push(("unparseable-mutated", m));
        }
        for (label, text) in variants {
            let path = scratch.write(&format!("f{}_{}.zy", i, label), text.as_bytes());
            let r = proc::run(&bin, &["fmt", path.to_str().unwrap()], Some(scratch.path()), b"", 60, 300);
            let after = std::fs::read(&path).unwrap_or_default();
            stats.evaluations += 1;
            stats.count(&format!("cli_fmt_{}", label));
            let parses = matches!(e2::parse(&text), Ok(Ok(_)));
            let problem = if r.signal.is_some() || r.wall_timeout || !matches!(r.code, Some(0) | Some(1)) {
                Some(format!("zydeco fmt ended with {}", r.status_string()))
            } else if !parses && (r.code != Some(1) || after != text.as_bytes()) {
                Some(format!("unparseable file: exit {:?}, file {}", r.code, if after == text.as_bytes() { "unchanged" } else { "CHANGED" }))
            } else if parses {
                match e2::format(&text) {
                    | Ok(Ok(expected)) if r.code == Some(0) && after == expected.as_bytes() => None,
                    | Ok(Ok(_)) => Some(format!("zydeco fmt wrote different text than the library formatter (exit {:?})", r.code)),
                    | _ => None, // in-process failure is judged by the generator above
                }
            } else {
                None
            };
            if let Some(problem) = problem {
                stats.violation(Violation {
                    signature: "cli-fmt-misbehaves".into(),
                    tags: tags_for(&text),
                    generator: "cli".into(),
                    index: i,
                    detail: json!({"label": label, "problem": problem, "text": text, "stderr": String::from_utf8_lossy(&r.stderr).chars().take(400).collect::<String>()}),
                });
            }
        }
    }
}
