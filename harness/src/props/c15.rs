//! C15 — incremental answers equal from-scratch answers after any edit history.
//!
//! One long-lived `CompilerSession` over a scratch directory is driven through a seeded history of overlay installs,
//! overlay removals, disk writes/deletes followed by `refresh_disk`, and queries. After every query the same query is
//! asked of a fresh session built on the same directory with the same overlays; the normalised answers must be equal.

use crate::core::*;
use crate::pipeline::{self, End};
use crate::prelude::MiniPrelude;
use crate::util::panic::catch;
use crate::util::rng::Rng;
use crate::util::scratch::Scratch;
use serde_json::json;
use std::collections::BTreeMap;
use std::path::{Path, PathBuf};
use zydeco_session::CompilerSession;

pub fn def() -> PropertyDef {
    PropertyDef {
        id: "C15",
        title: "Incremental answers equal from-scratch answers after any edit history",
        generators,
        extra: no_extra,
        rule: "histories of 6..16 operations over {root.zy, a.zy, a.zyi, b.zy, other.zy} in a scratch directory; content variants per file: \
               valid (several behaviours), syntax error, type error, import added / dropped / doubled, import cycle, non-exhaustive match, absent; \
               operations: set_overlay, clear_overlay, write+refresh_disk, delete+refresh_disk, overlay equal to disk, and the queries graph, analyze, \
               reports, coverage, run (analyze + executable_program + link + run), evict-then-run (analyze(root), analyze(other), executable_program(root)), \
               analyze on a snapshot, normalized_type of the root. After every query the same query on a fresh CompilerSession (same directory, same \
               overlays) must give the same normalised answer (paths kept, arena identities masked). The history grammar forces: a file looked up \
               while absent and created later, a companion appearing and disappearing on disk and as overlay, an overlay reverting to the disk text. \
               distinct = hash of (history, answers); non-trivial = at least one edit between two queries whose answers differ.",
        assumptions: &[
            "every disk change is followed by refresh_disk for that path (the statement quantifies over refreshes)",
            "arena identities (key-space numbers) are masked; everything else in an answer is compared verbatim",
        ],
        floor: (800, 30_000),
        on_case_death: death_is_harness_error,
    }
}

fn generators(cfg: &Cfg) -> Vec<Generator> {
    vec![
        Generator { name: "histories", total: cfg.tier.pick(1_200, 50_000), run: run_history, case_cpu_limit_s: 300 },
        Generator { name: "scripted", total: SCRIPTS.len() as u64, run: run_scripted, case_cpu_limit_s: 300 },
    ]
}

const FILES: [&str; 5] = ["root.zy", "a.zy", "a.zyi", "b.zy", "other.zy"];

/// Marker of content variants that exist on disk only: bytes that are not UTF-8, a directory at the path, a symbolic link.
const SPECIAL: &str = "\u{1}disk-only:";

fn remove_path(path: &Path) {
    match std::fs::symlink_metadata(path) {
        | Ok(meta) if meta.is_dir() => {
            let _ = std::fs::remove_dir_all(path);
        }
        | Ok(_) => {
            let _ = std::fs::remove_file(path);
        }
        | Err(_) => {}
    }
}

/// Put a content variant at a path on disk.
fn write_variant(dir: &Path, file: &str, text: &str) {
    let path = dir.join(file);
    remove_path(&path);
    match text.strip_prefix(SPECIAL) {
        | None => std::fs::write(&path, text).unwrap(),
        | Some("invalid-utf8") => std::fs::write(&path, [0xffu8, 0xfe, 0xfd, b'1']).unwrap(),
        | Some("directory") => std::fs::create_dir_all(&path).unwrap(),
        | Some(link) => {
            let target = link.strip_prefix("symlink:").unwrap_or("b.zy");
            let _ = std::os::unix::fs::symlink(dir.join(target), &path);
        }
    }
}

fn variants(file: &str) -> Vec<(&'static str, String)> {
    let p = MiniPrelude::core().text();
    match file {
        | "root.zy" => vec![
            ("uses-a", format!("{p}do s <- ! to_string (@(import(\"a.zy\")));\n! write_line s {{ ! exit 1 }}\n")),
            ("uses-a-b", format!("{p}do x <- ! add (@(import(\"a.zy\"))) (@(import(\"b.zy\")));\ndo s <- ! to_string x;\n! write_line s {{ ! exit 2 }}\n")),
            ("no-import", format!("{p}! write_line \"solo\" {{ ! exit 3 }}\n")),
            ("syntax-error", format!("{p}do s <- ! to_string (\n")),
            ("type-error", format!("{p}! write_line 5 {{ ! exit 4 }}\n")),
            (
                "non-exhaustive",
                format!("{p}begin\ndef D : VType = data | +A : Unit | +B : Int64 end that\nmatch (+B(@(import(\"a.zy\"))) : D)\n| +A(_) => ! exit 5\nend\nend\n"),
            ),
            ("a-twice", format!("{p}do x <- ! add (@(import(\"a.zy\"))) (@(import(\"./a.zy\")));\ndo s <- ! to_string x;\n! write_line s {{ ! exit 6 }}\n")),
        ],
        | "a.zy" => vec![
            ("41", "41".into()),
            ("42", "42\n-- forty-two\n".into()),
            ("string", "\"text\"".into()),
            ("syntax-error", "(41".into()),
            ("imports-b", "@(import(\"b.zy\"))".into()),
            ("imports-root", "@(import(\"root.zy\"))".into()),
            ("imports-itself", "@(import(\"a.zy\"))".into()),
            ("thunk", "{ ret 1 }".into()),
            // disk-only states (see `SPECIAL`): not text at all, not a file, a link to another file
            ("invalid-utf8", format!("{SPECIAL}invalid-utf8")),
            ("directory", format!("{SPECIAL}directory")),
            ("symlink-to-b", format!("{SPECIAL}symlink:b.zy")),
        ],
        | "a.zyi" => vec![
            ("int64", "@(intrinsic(i64))".into()),
            ("string", "@(intrinsic(string))".into()),
            ("syntax-error", "(@(intrinsic(i64))".into()),
            ("imports-b", "@(import(\"b.zy\"))".into()),
        ],
        | "b.zy" => vec![("7", "7".into()), ("8", "8".into()), ("imports-a", "@(import(\"a.zy\"))".into()), ("pair", "(7, 8)".into()), ("invalid-utf8", format!("{SPECIAL}invalid-utf8"))],
        | _ => vec![
            ("uses-b", format!("{p}do s <- ! to_string (@(import(\"b.zy\")));\n! write_line s {{ ! exit 9 }}\n")),
            ("no-import", format!("{p}! exit 10\n")),
            ("syntax-error", format!("{p}! exit (\n")),
        ],
    }
}

#[derive(Clone, Debug)]
enum Op {
    SetOverlay(usize, usize),
    /// overlay with exactly the current disk text
    OverlayEqualDisk(usize),
    ClearOverlay(usize),
    WriteDisk(usize, usize),
    DeleteDisk(usize),
    Query(Query, usize),
}

#[derive(Clone, Copy, Debug, PartialEq, Eq)]
pub enum Query {
    Graph,
    Analyze,
    Reports,
    Coverage,
    Run,
    EvictThenRun,
    SnapshotAnalyze,
    RootType,
    /// per-node facts: annotation / type definition of every definition and annotation of every variable occurrence,
    /// keyed by source location
    Facts,
}

pub const QUERIES: [Query; 9] =
    [Query::Graph, Query::Analyze, Query::Reports, Query::Coverage, Query::Run, Query::EvictThenRun, Query::SnapshotAnalyze, Query::RootType, Query::Facts];

fn describe(op: &Op) -> String {
    match op {
        | Op::SetOverlay(f, v) => format!("set_overlay {} := {}", FILES[*f], variants(FILES[*f])[*v].0),
        | Op::OverlayEqualDisk(f) => format!("set_overlay {} := <its disk text>", FILES[*f]),
        | Op::ClearOverlay(f) => format!("clear_overlay {}", FILES[*f]),
        | Op::WriteDisk(f, v) => format!("write {} := {}; refresh_disk", FILES[*f], variants(FILES[*f])[*v].0),
        | Op::DeleteDisk(f) => format!("delete {}; refresh_disk", FILES[*f]),
        | Op::Query(q, r) => format!("{:?}({})", q, FILES[*r]),
    }
}

/// mask arena identities: any run of >= 6 digits
fn mask(s: &str) -> String {
    let mut out = String::with_capacity(s.len());
    let mut run = String::new();
    for c in s.chars() {
        if c.is_ascii_digit() {
            run.push(c);
        } else {
            if run.len() >= 6 {
                out.push('#');
            } else {
                out.push_str(&run);
            }
            run.clear();
            out.push(c);
        }
    }
    if run.len() >= 6 {
        out.push('#');
    } else {
        out.push_str(&run);
    }
    out
}

fn answer(session: &CompilerSession, dir: &Path, query: Query, root: usize) -> String {
    let root_path = dir.join(FILES[root]);
    let other_path = dir.join(if FILES[root] == "other.zy" { "root.zy" } else { "other.zy" });
    match catch(|| raw_answer(session, &root_path, &other_path, query)) {
        | Ok(s) => s,
        | Err(p) => format!("PANIC {}", p.short()),
    }
}

/// The normalised answer of one query; panics (including salsa cancellation) propagate to the caller.
pub fn raw_answer(session: &CompilerSession, root_path: &Path, other_path: &Path, query: Query) -> String {
    let result: String = (|| match query {
        | Query::Graph => match session.graph(&root_path) {
            | Ok(graph) => {
                let mut s = String::new();
                let mut files: Vec<String> = Vec::new();
                for (id, file) in graph.sources.iter() {
                    let imports: Vec<String> = file.imports.iter().map(|i| graph.sources[&graph.imports[i].imported].path.display().to_string()).collect();
                    let sig = file.signature.map(|s| graph.sources[&s].path.display().to_string());
                    let _ = id;
                    files.push(format!("{} imports {:?} signature {:?} text {:?}", file.path.display(), imports, sig, file.source));
                }
                files.sort();
                s.push_str(&files.join("\n"));
                let order: Vec<String> = graph.provider_order().iter().map(|id| graph.sources[id].path.display().to_string()).collect();
                s.push_str(&format!("\norder {:?}", order));
                s
            }
            | Err(e) => format!("error: {e}"),
        },
        | Query::Analyze => pipeline::classify(&session.analyze(&root_path)).brief(),
        | Query::SnapshotAnalyze => {
            let snapshot = session.snapshot();
            pipeline::classify(&snapshot.analyze(&root_path)).brief()
        }
        | Query::Reports => match session.reports(&root_path) {
            | Ok(Some(reports)) => format!("{} reports: {:?}", reports.reports.len(), reports.spans),
            | Ok(None) => "no reports".into(),
            | Err(e) => format!("error: {e}"),
        },
        | Query::Coverage => match session.coverage(&root_path) {
            | Ok(errors) => errors.iter().map(|e| e.to_string()).collect::<Vec<_>>().join(" | "),
            | Err(e) => format!("error: {e}"),
        },
        | Query::Run | Query::EvictThenRun => match session.analyze(&root_path) {
            | Ok(analysis) => {
                if query == Query::EvictThenRun {
                    // the check memo keeps one root: analysing another root evicts this one
                    let _ = session.analyze(&other_path);
                }
                match session.executable_program(&analysis) {
                    | Ok(exe) => {
                        let run = pipeline::run_executable(exe, b"", &[], 100_000);
                        let end = match &run.end {
                            | End::Panic(class, _) => format!("Panic({:?})", class),
                            | other => format!("{:?}", other),
                        };
                        format!("{} stdout={:?}", end, String::from_utf8_lossy(&run.stdout))
                    }
                    | Err(e) => format!("not executable: {e}"),
                }
            }
            | Err(e) => format!("error: {e}"),
        },
        | Query::RootType => match session.analyze(&root_path) {
            | Ok(analysis) => match analysis.outcome().root() {
                | Some(zydeco_statics::syntax::TermAnnId::Compu(_, ty)) | Some(zydeco_statics::syntax::TermAnnId::Value(_, ty)) => match session.normalized_type(&root_path, ty) {
                    | Ok(t) => format!("{:?}", t),
                    | Err(e) => format!("error: {e}"),
                },
                | other => format!("root {:?}", other.map(|_| "non-term")),
            },
            | Err(e) => format!("error: {e}"),
        },
        | Query::Facts => match session.analyze(&root_path) {
            | Ok(analysis) => facts(session, root_path, &analysis),
            | Err(e) => format!("error: {e}"),
        },
    })();
    mask(&result)
}

/// Per-node facts of one analysis as the language server asks for them (`annotation_of_def`, `type_definition_of_def`,
/// `annotation_of_term`), rendered with the repository's own type formatter and keyed by source location, so that the
/// listing does not depend on the arena identities of the session that produced it.
fn facts(session: &CompilerSession, root_path: &Path, analysis: &zydeco_session::source::ProgramAnalysis) -> String {
    use zydeco_statics::fmt::{Formatter, Pretty};
    use zydeco_statics::syntax::{AnnId, TermAnnId};
    use zydeco_surface::scoped::syntax::Term;
    let statics = match session.materialize_arena(analysis) {
        | Ok(statics) => statics,
        | Err(e) => return format!("facts: materialize error: {e}"),
    };
    let scoped = analysis.scoped();
    let formatter = Formatter::new(scoped, &statics);
    let place = |span: &zydeco_utils::span::Span| {
        let (a, b) = span.get_cursor1();
        format!("{}@{}..{}", span.get_path().map(|p| p.display().to_string()).unwrap_or_default(), a, b)
    };
    let show_ann = |ann: AnnId| {
        let mut s = String::new();
        let _ = ann.pretty(&formatter).render_fmt(100, &mut s);
        s
    };
    let mut lines: Vec<String> = Vec::new();
    for (def, name) in scoped.defs.iter() {
        let Some(entity) = scoped.origins.source(&(*def).into()) else { continue };
        let at = place(&analysis.spans()[&entity]);
        let ann = match session.annotation_of_def(root_path, *def) {
            | Ok(Some(ann)) => show_ann(ann),
            | Ok(None) => "<none>".into(),
            | Err(e) => format!("error: {e}"),
        };
        let tdef = match session.type_definition_of_def(root_path, *def) {
            | Ok(Some(ty)) => {
                let mut s = String::new();
                let _ = ty.pretty(&formatter).render_fmt(100, &mut s);
                s
            }
            | Ok(None) => "<none>".into(),
            | Err(e) => format!("error: {e}"),
        };
        lines.push(format!("def {at} {} : {ann} := {tdef}", name.0));
    }
    for (term, body) in scoped.terms.iter() {
        let Term::Var(_) = body else { continue };
        let Some(entity) = scoped.origins.source(&term.into()) else { continue };
        let at = place(&analysis.spans()[&entity]);
        let ann = match session.annotation_of_term(root_path, term) {
            | Ok(Some(TermAnnId::Value(_, ty))) | Ok(Some(TermAnnId::Compu(_, ty))) => format!("term : {}", show_ann(AnnId::Type(ty))),
            | Ok(Some(TermAnnId::Type(_, kd))) => format!("type : {}", show_ann(AnnId::Kind(kd))),
            | Ok(Some(TermAnnId::Kind(_))) => "kind".into(),
            | Ok(Some(TermAnnId::Hole(_))) => "hole".into(),
            | Ok(None) => "<none>".into(),
            | Err(e) => format!("error: {e}"),
        };
        lines.push(format!("use {at} {ann}"));
    }
    lines.sort();
    format!("{} facts\n{}", lines.len(), lines.join("\n"))
}

struct World {
    _scratch: Scratch,
    dir: PathBuf,
    disk: BTreeMap<usize, String>,
    overlays: BTreeMap<usize, String>,
    session: CompilerSession,
}

impl World {
    fn new(initial: &[(usize, usize)]) -> Self {
        let scratch = Scratch::new("c15");
        let dir = scratch.path().canonicalize().unwrap();
        let mut disk = BTreeMap::new();
        for (f, v) in initial {
            let text = variants(FILES[*f])[*v].1.clone();
            write_variant(&dir, FILES[*f], &text);
            disk.insert(*f, text);
        }
        World { _scratch: scratch, dir, disk, overlays: BTreeMap::new(), session: CompilerSession::default() }
    }
    fn apply(&mut self, op: &Op) {
        match op {
            | Op::SetOverlay(f, v) => {
                let text = variants(FILES[*f])[*v].1.clone();
                // disk-only states cannot be overlays
                let text = if text.starts_with(SPECIAL) { variants(FILES[*f])[0].1.clone() } else { text };
                let _ = self.session.set_overlay(self.dir.join(FILES[*f]), text.clone());
                self.overlays.insert(*f, text);
            }
            | Op::OverlayEqualDisk(f) => {
                if let Some(text) = self.disk.get(f).cloned().filter(|t| !t.starts_with(SPECIAL)) {
                    let _ = self.session.set_overlay(self.dir.join(FILES[*f]), text.clone());
                    self.overlays.insert(*f, text);
                }
            }
            | Op::ClearOverlay(f) => {
                let _ = self.session.clear_overlay(self.dir.join(FILES[*f]));
                self.overlays.remove(f);
            }
            | Op::WriteDisk(f, v) => {
                let text = variants(FILES[*f])[*v].1.clone();
                write_variant(&self.dir, FILES[*f], &text);
                let _ = self.session.refresh_disk(self.dir.join(FILES[*f]));
                self.disk.insert(*f, text);
            }
            | Op::DeleteDisk(f) => {
                remove_path(&self.dir.join(FILES[*f]));
                let _ = self.session.refresh_disk(self.dir.join(FILES[*f]));
                self.disk.remove(f);
            }
            | Op::Query(..) => {}
        }
    }
    fn fresh(&self) -> CompilerSession {
        let mut session = CompilerSession::default();
        for (f, text) in &self.overlays {
            let _ = session.set_overlay(self.dir.join(FILES[*f]), text.clone());
        }
        session
    }
}

/// Run a history; returns (answers, first divergence)
fn execute(initial: &[(usize, usize)], ops: &[Op], stats: &mut Stats) -> (Vec<String>, Option<(usize, String, String)>) {
    let mut world = World::new(initial);
    let mut answers = Vec::new();
    for (k, op) in ops.iter().enumerate() {
        world.apply(op);
        if let Op::Query(q, root) = op {
            let incremental = answer(&world.session, &world.dir, *q, *root);
            let fresh_session = world.fresh();
            let fresh = answer(&fresh_session, &world.dir, *q, *root);
            stats.evaluations += 1;
            stats.cover("queries", &format!("{:?}", q));
            let strip = |s: &str| s.replace(&world.dir.display().to_string(), "<dir>");
            let class: String = strip(&fresh).chars().take_while(|c| *c != ':' && *c != ' ' && *c != '\n').collect();
            let class = if *q == Query::Graph && class.starts_with("<dir>") { "loaded".to_string() } else { class };
            stats.cover("answer_classes", &format!("{:?}/{}", q, class.chars().take(24).collect::<String>()));
            answers.push(strip(&fresh));
            if incremental != fresh {
                return (answers, Some((k, strip(&incremental), strip(&fresh))));
            }
        } else {
            stats.cover("edits", describe(op).split(' ').next().unwrap_or(""));
        }
    }
    (answers, None)
}

fn report(stats: &mut Stats, generator: &str, index: u64, initial: &[(usize, usize)], ops: &[Op], at: usize, incremental: String, fresh: String) {
    let Op::Query(q, _) = &ops[at] else { unreachable!() };
    let mut tags: Vec<String> = Vec::new();
    for op in &ops[..=at] {
        let d = describe(op);
        for (needle, tag) in [("invalid-utf8", "history-has-unreadable-file"), ("directory", "history-has-unreadable-file"), ("symlink-to-b", "history-has-symlink-appearing")] {
            if d.contains(needle) && !tags.contains(&tag.to_string()) {
                tags.push(tag.to_string());
            }
        }
    }
    for (f, v) in initial {
        let name = variants(FILES[*f])[*v].0;
        if matches!(name, "invalid-utf8" | "directory") && !tags.contains(&"history-has-unreadable-file".to_string()) {
            tags.push("history-has-unreadable-file".to_string());
        }
        if name == "symlink-to-b" && !tags.contains(&"history-has-symlink-appearing".to_string()) {
            tags.push("history-has-symlink-appearing".to_string());
        }
    }
    stats.violation(Violation {
        signature: format!("incremental-answer-differs {:?}", q),
        tags,
        generator: generator.into(),
        index,
        detail: json!({
            "initial_disk": initial.iter().map(|(f, v)| format!("{} := {}", FILES[*f], variants(FILES[*f])[*v].0)).collect::<Vec<_>>(),
            "history": ops[..=at].iter().map(describe).collect::<Vec<_>>(),
            "diverging_query": describe(&ops[at]),
            "long_lived_session": incremental.chars().take(3000).collect::<String>(),
            "fresh_session": fresh.chars().take(3000).collect::<String>(),
        }),
    });
}

fn run_history(cfg: &Cfg, index: u64, stats: &mut Stats) {
    let mut rng = Rng::for_case(cfg.seed, "C15/histories", index);
    // initial disk: root and other mostly present, providers sometimes absent
    let mut initial: Vec<(usize, usize)> = Vec::new();
    for f in 0..FILES.len() {
        let present = match FILES[f] {
            | "root.zy" | "other.zy" => rng.chance(5, 6),
            | "a.zyi" => rng.chance(1, 4),
            | _ => rng.chance(2, 3),
        };
        if present {
            // start from mostly-valid variants
            let all_variants = variants(FILES[f]);
            let n = if index % 5 == 0 { all_variants.len() } else { all_variants.iter().filter(|(_, t)| !t.starts_with(SPECIAL)).count() };
            let v = if rng.chance(2, 3) { rng.below(2.min(n)) } else { rng.below(n) };
            initial.push((f, v));
        }
    }
    let len = 6 + rng.below(11);
    let mut ops: Vec<Op> = Vec::new();
    // the session looks at the world first, so that later edits hit populated memo tables
    ops.push(Op::Query(*rng.pick(&QUERIES), if rng.chance(3, 4) { 0 } else { 4 }));
    for _ in 0..len {
        let f = match rng.below(10) {
            | 0..=2 => 1, // a.zy
            | 3..=4 => 2, // a.zyi
            | 5..=6 => 3, // b.zy
            | 7..=8 => 0,
            | _ => 4,
        };
        // disk-only states (unreadable file, directory, symbolic link) only in every fifth history: they trigger two
        // recorded findings, and the other histories must be clean without any tolerance
        let all_variants = variants(FILES[f]);
        let plain = all_variants.iter().filter(|(_, t)| !t.starts_with(SPECIAL)).count();
        let nv = if index % 5 == 0 { all_variants.len() } else { plain };
        let op = match rng.below(20) {
            | 0..=2 => Op::SetOverlay(f, rng.below(nv)),
            | 3 => Op::OverlayEqualDisk(f),
            | 4..=5 => Op::ClearOverlay(f),
            | 6..=8 => Op::WriteDisk(f, rng.below(nv)),
            | 9 => Op::DeleteDisk(f),
            | _ => {
                let root = match rng.below(8) {
                    | 0 => 4,
                    | 1 => 1,
                    | _ => 0,
                };
                Op::Query(*rng.pick(&QUERIES), root)
            }
        };
        ops.push(op);
    }
    ops.push(Op::Query(*rng.pick(&QUERIES), 0));
    let (answers, divergence) = execute(&initial, &ops, stats);
    // non-trivial: some edit changed an answer
    let distinct_answers: std::collections::BTreeSet<&String> = answers.iter().collect();
    if distinct_answers.len() >= 2 {
        let key = format!("{:?}/{:?}/{:?}", initial, ops.iter().map(describe).collect::<Vec<_>>(), answers.iter().map(|a| crate::util::rng::hash64(a.as_bytes())).collect::<Vec<_>>());
        stats.nontrivial(key.as_bytes());
    }
    stats.add("answers_compared", answers.len() as u64);
    if index == 0 {
        stats.sample(json!({"history": ops.iter().map(describe).collect::<Vec<_>>(), "answers": answers.iter().map(|a| a.chars().take(120).collect::<String>()).collect::<Vec<_>>()}));
    }
    if let Some((at, inc, fresh)) = divergence {
        report(stats, "histories", index, &initial, &ops, at, inc, fresh);
    }
}

/* ---- scripted histories: the orders the property names ---- */

type Script = (&'static str, &'static [(usize, usize)], &'static [ScriptOp]);

#[derive(Clone, Copy)]
enum ScriptOp {
    Set(usize, usize),
    SetDisk(usize),
    Clear(usize),
    Write(usize, usize),
    Delete(usize),
    Q(Query, usize),
    /// every query kind on this root
    All(usize),
}

use ScriptOp::*;

const SCRIPTS: &[Script] = &[
    // a provider that is absent when first looked up and created later on disk
    ("provider-created-later", &[(0, 0)], &[All(0), Write(1, 0), All(0), Write(1, 1), All(0), Delete(1), All(0)]),
    // … and as an overlay
    ("provider-overlay-created-later", &[(0, 0)], &[All(0), Set(1, 0), All(0), Clear(1), All(0)]),
    // a companion appearing and disappearing on disk
    ("companion-on-disk", &[(0, 0), (1, 0)], &[All(0), Write(2, 1), All(0), Write(2, 0), All(0), Delete(2), All(0)]),
    // … and as an overlay
    ("companion-as-overlay", &[(0, 0), (1, 0)], &[All(0), Set(2, 1), All(0), Set(2, 0), All(0), Clear(2), All(0)]),
    // an overlay reverting to the disk text, and an overlay identical to the disk text
    ("overlay-reverts", &[(0, 0), (1, 0)], &[All(0), Set(1, 1), All(0), Set(1, 0), All(0), SetDisk(1), All(0), Clear(1), All(0)]),
    // eviction between analyze and executable_program
    ("evict", &[(0, 1), (1, 0), (3, 0), (4, 0)], &[Q(Query::EvictThenRun, 0), Write(3, 1), Q(Query::EvictThenRun, 0), Q(Query::EvictThenRun, 4), Set(1, 1), Q(Query::EvictThenRun, 0)]),
    // a cycle appearing and disappearing
    ("cycle", &[(0, 0), (1, 0)], &[All(0), Write(1, 5), All(0), Set(1, 6), All(0), Clear(1), All(0), Write(1, 1), All(0)]),
    // an import edge added and removed in the middle of a chain
    ("chain", &[(0, 0), (1, 4), (3, 0)], &[All(0), Write(3, 1), All(0), Delete(3), All(0), Write(3, 0), All(0), Write(1, 0), All(0), Write(3, 1), All(0)]),
    // a disk change hidden by an overlay, then revealed
    ("hidden-disk-change", &[(0, 0), (1, 0)], &[Set(1, 1), All(0), Write(1, 2), All(0), Clear(1), All(0)]),
    // a provider that is unreadable (not merely missing) when first looked up, then repaired
    ("provider-unreadable-then-repaired", &[(0, 0), (1, 8)], &[All(0), Write(1, 0), All(0), Write(1, 9), All(0), Write(1, 1), All(0)]),
    // a provider that is missing when first looked up and appears as a symbolic link
    ("provider-appears-as-symlink", &[(0, 0), (3, 0)], &[All(0), Write(1, 10), All(0), Write(3, 1), All(0), Delete(1), All(0)]),
    // syntax error and recovery of the root
    ("root-syntax", &[(0, 0), (1, 0)], &[All(0), Set(0, 3), All(0), Set(0, 0), All(0), Clear(0), All(0), Write(0, 5), All(0)]),
];

fn run_scripted(_cfg: &Cfg, index: u64, stats: &mut Stats) {
    let (name, initial, script) = &SCRIPTS[index as usize];
    let mut ops: Vec<Op> = Vec::new();
    for s in script.iter() {
        match *s {
            | Set(f, v) => ops.push(Op::SetOverlay(f, v)),
            | SetDisk(f) => ops.push(Op::OverlayEqualDisk(f)),
            | Clear(f) => ops.push(Op::ClearOverlay(f)),
            | Write(f, v) => ops.push(Op::WriteDisk(f, v)),
            | Delete(f) => ops.push(Op::DeleteDisk(f)),
            | Q(q, r) => ops.push(Op::Query(q, r)),
            | All(r) => ops.extend(QUERIES.iter().map(|q| Op::Query(*q, r))),
        }
    }
    let (answers, divergence) = execute(initial, &ops, stats);
    stats.cover("scripts", name);
    stats.nontrivial(format!("script/{name}").as_bytes());
    stats.add("answers_compared", answers.len() as u64);
    if let Some((at, inc, fresh)) = divergence {
        report(stats, "scripted", index, initial, &ops, at, inc, fresh);
    }
}
