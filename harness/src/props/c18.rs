//! C18 — every accepted executable lowers to native code text with valid IR.

use crate::core::*;
use crate::e1;
use crate::pipeline::{self, Sources};
use crate::props::c02::styles_for;
use crate::util::panic::catch;
use crate::util::rng::Rng;
use serde_json::json;
use std::collections::{BTreeMap, BTreeSet, HashSet};
use zydeco_assembly::syntax as sa;
use zydeco_cli::{BackendProgram, CompileError, TargetArchitecture, TargetOs};
use zydeco_stackir::sps_low::syntax as sl;

pub fn def() -> PropertyDef {
    PropertyDef {
        id: "C18",
        title: "Every accepted executable lowers to native code text with valid IR",
        generators,
        extra: no_extra,
        rule: "programs: E1 generated programs that check accepts (all formers incl. closures capturing every type, fix, alias / nested \
               patterns, products, polymorphism, codata); fixtures: every executable fixture under /repo/lib/tests that check accepts. Each \
               is lowered with BackendProgram::lower and rendered/emitted for zir, zasm, AMD64 (ELF, Mach-O) and LLVM (4 triples) under \
               catch_unwind; the produced SPS-low and assembly arenas are re-validated by independent traversals (closed root, blocks capture \
               nothing but their label, unique labels, no shared nodes, guarded coproduct matches, product layouts; every jump/branch \
               target, symbol and deps edge names an existing program) and the AMD64 text is checked for label/extern consistency, LLVM \
               text with llvm-as-14. distinct = program text hash; non-trivial = accepted, lowers, >= 5 formers.",
        assumptions: &["an Err value from the back end (BuiltinLower, LlvmUnsupportedLocal) is a defined outcome, a panic is not"],
        floor: (300, 10_000),
        on_case_death: death_is_harness_error,
    }
}

fn generators(cfg: &Cfg) -> Vec<Generator> {
    vec![
        Generator { name: "programs", total: cfg.tier.pick(1_200, 60_000), run: run_program, case_cpu_limit_s: 120 },
        Generator { name: "fixtures", total: fixtures().len() as u64, run: run_fixture, case_cpu_limit_s: 300 },
        Generator { name: "shapes", total: shapes().len() as u64, run: run_shape, case_cpu_limit_s: 120 },
        Generator { name: "fixture-mutants", total: cfg.tier.pick(900, 24_000), run: run_fixture_mutant, case_cpu_limit_s: 300 },
    ]
}

fn fixtures() -> Vec<std::path::PathBuf> {
    let mut v = Vec::new();
    for dir in ["compile", "compile-more", "exec", "builtin", "std", "effects", "monadic", "stack", "pack", "oopsla", "delimcc"] {
        if let Ok(entries) = std::fs::read_dir(std::path::Path::new("/repo/lib/tests").join(dir)) {
            for e in entries.flatten() {
                let p = e.path();
                if matches!(p.extension().and_then(|e| e.to_str()), Some("zy" | "zydeco")) {
                    v.push(p);
                }
            }
        }
    }
    v.sort();
    v
}

/// Input-side trigger tags for known back-end limitations.
pub fn trigger_tags(program: &e1::ast::Program) -> Vec<String> {
    let mut tags: Vec<String> = program.features.iter().map(|f| f.to_string()).collect();
    fn comp(c: &e1::ast::Comp, tags: &mut Vec<String>) {
        use e1::ast::Comp::*;
        let mut tag = |t: &str| {
            if !tags.iter().any(|x| x == t) {
                tags.push(t.to_string());
            }
        };
        match c {
            | Match { arms, scrut, .. } => {
                // a constructor pattern below the top level of an arm, or a top-level non-constructor structured pattern
                for (p, _) in arms {
                    if let e1::ast::Pat::Ctor(_, _, inner) = p {
                        if inner.has_ctor() {
                            tag("nested-ctor-pattern");
                        }
                    }
                }
                val(scrut, tags);
                for (_, b) in arms {
                    comp(b, tags);
                }
            }
            | Ret(v) | Force(v) | Exit(v) => val(v, tags),
            | Do { bindee, tail, .. } => {
                comp(bindee, tags);
                comp(tail, tags);
            }
            | Let { val: v, tail, .. } => {
                val(v, tags);
                comp(tail, tags);
            }
            | Fn { body, .. } | Fix { body, .. } | TyFn { body, .. } => comp(body, tags),
            | App { fun, arg, .. } => {
                comp(fun, tags);
                val(arg, tags);
            }
            | Comatch { arms, .. } => arms.iter().for_each(|(_, b)| comp(b, tags)),
            | Dtor { head, .. } => comp(head, tags),
            | TyAppV { fun, .. } | TyAppC { fun, .. } => comp(fun, tags),
            | Prim(_, args) => args.iter().for_each(|a| val(a, tags)),
            | If { a, b, then, els, .. } => {
                val(a, tags);
                val(b, tags);
                comp(then, tags);
                comp(els, tags);
            }
            | WriteLine(v, k) => {
                val(v, tags);
                comp(k, tags);
            }
            | Monadic { body, args, .. } => {
                comp(body, tags);
                args.iter().for_each(|(a, _)| val(a, tags));
            }
        }
    }
    fn val(v: &e1::ast::Val, tags: &mut Vec<String>) {
        use e1::ast::Val::*;
        match v {
            | Tuple(items) => items.iter().for_each(|i| val(i, tags)),
            | Rec(items) => items.iter().for_each(|(_, i)| val(i, tags)),
            | Ctor { arg, .. } => val(arg, tags),
            | Thunk(c, _) => comp(c, tags),
            | Proj(h, ..) => val(h, tags),
            | _ => {}
        }
    }
    comp(&program.body, &mut tags);
    tags
}

/* ------------------------------ independent validators ------------------------------ */

pub fn validate_sps_low(program: &zydeco_stackir::SpsLowProgram) -> Result<u64, String> {
    let arena = program.arena();
    let mut seen_values: HashSet<sl::ValueId> = HashSet::new();
    let mut seen_compus: HashSet<sl::CompuId> = HashSet::new();
    let mut seen_stacks: HashSet<sl::StackId> = HashSet::new();
    let mut labels: HashSet<sl::DefId> = HashSet::new();
    let mut nodes = 0u64;
    struct V<'a> {
        arena: &'a sl::SpsLowArena,
        seen_values: &'a mut HashSet<sl::ValueId>,
        seen_compus: &'a mut HashSet<sl::CompuId>,
        seen_stacks: &'a mut HashSet<sl::StackId>,
        labels: &'a mut HashSet<sl::DefId>,
        nodes: &'a mut u64,
    }
    type Scope = im::HashSet<sl::DefId>;
    impl<'a> V<'a> {
        fn pat(&mut self, p: sl::VPatId, scope: &mut Scope) -> Result<(), String> {
            *self.nodes += 1;
            match &self.arena.inner.vpats[&p] {
                | sl::ValuePattern::Hole(_) | sl::ValuePattern::Triv(_) => {}
                | sl::ValuePattern::Var(d) => {
                    scope.insert(*d);
                }
                | sl::ValuePattern::Ctor(sl::Ctor(_, inner)) => self.pat(*inner, scope)?,
                | sl::ValuePattern::Alias(sl::Alias(ps)) => {
                    for q in ps.iter() {
                        self.pat(*q, scope)?;
                    }
                }
                | sl::ValuePattern::VCons(sl::VCons { items, layout }) => {
                    if items.len() == 0 || items.len() > layout.arity || layout.fields.len() != layout.arity {
                        return Err(format!("product pattern with {} items, arity {}, {} field classes", items.len(), layout.arity, layout.fields.len()));
                    }
                    for q in items.iter() {
                        self.pat(*q, scope)?;
                    }
                }
            }
            Ok(())
        }
        fn value(&mut self, v: sl::ValueId, scope: &Scope) -> Result<(), String> {
            *self.nodes += 1;
            if !self.seen_values.insert(v) {
                return Err(format!("value node {:?} is shared", v));
            }
            match &self.arena.inner.values[&v] {
                | sl::Value::Hole(_) | sl::Value::Triv(_) | sl::Value::Literal(_) => {}
                | sl::Value::Var(d) => {
                    if !scope.contains(d) {
                        return Err(format!("variable {:?} is free (implicit capture or open root)", d));
                    }
                }
                | sl::Value::Block(sl::Block { label, body }) => {
                    if !self.labels.insert(*label) {
                        return Err(format!("block label {:?} is not unique", label));
                    }
                    // first-order: the body may mention only its own label
                    let inner: Scope = im::HashSet::unit(*label);
                    self.compu(*body, &inner, false)?;
                }
                | sl::Value::ClosurePackage(sl::ClosurePackage { environment, code }) => {
                    self.value(*environment, scope)?;
                    self.value(*code, scope)?;
                }
                | sl::Value::Ctor(sl::Ctor(_, body)) => self.value(*body, scope)?,
                | sl::Value::VCons(sl::VCons { items, layout }) => {
                    if items.len() == 0 || items.len() > layout.arity || layout.fields.len() != layout.arity {
                        return Err(format!("product value with {} items, arity {}, {} field classes", items.len(), layout.arity, layout.fields.len()));
                    }
                    for i in items.iter() {
                        self.value(*i, scope)?;
                    }
                }
                | sl::Value::Complex(c) => {
                    for o in &c.operands {
                        self.value(*o, scope)?;
                    }
                }
            }
            Ok(())
        }
        fn stack(&mut self, s: sl::StackId, scope: &Scope) -> Result<(), String> {
            *self.nodes += 1;
            if !self.seen_stacks.insert(s) {
                return Err(format!("stack node {:?} is shared", s));
            }
            match &self.arena.inner.stacks[&s] {
                | sl::Stack::Var(_) => {}
                | sl::Stack::Arg(sl::Cons(v, rest)) => {
                    self.value(*v, scope)?;
                    self.stack(*rest, scope)?;
                }
                | sl::Stack::Tag(sl::Cons(_, rest)) => self.stack(*rest, scope)?,
                | sl::Stack::ContinuationPackage(sl::ContinuationPackage { code, residual }) => {
                    self.value(*code, scope)?;
                    self.stack(*residual, scope)?;
                }
            }
            Ok(())
        }
        /// `guarded`: the parent is a LetStack (required directly around a coproduct match)
        fn compu(&mut self, c: sl::CompuId, scope: &Scope, guarded: bool) -> Result<(), String> {
            *self.nodes += 1;
            if !self.seen_compus.insert(c) {
                return Err(format!("computation node {:?} is shared", c));
            }
            match &self.arena.inner.compus[&c] {
                | sl::Computation::Hole(sl::SHole(s)) => self.stack(*s, scope)?,
                | sl::Computation::Jump(sl::Jump { target, stack }) => {
                    self.value(*target, scope)?;
                    self.stack(*stack, scope)?;
                }
                | sl::Computation::ProductMatch(sl::SProductMatch { scrut, binder, body }) => {
                    self.value(*scrut, scope)?;
                    let mut inner = scope.clone();
                    self.pat(*binder, &mut inner)?;
                    self.compu(*body, &inner, false)?;
                }
                | sl::Computation::CoprodMatch(sl::SCoprodMatch { scrut, arms }) => {
                    if !guarded {
                        return Err(format!("coproduct match {:?} is not directly guarded by a stack let", c));
                    }
                    self.value(*scrut, scope)?;
                    for sl::Matcher { binder, tail } in arms {
                        let mut inner = scope.clone();
                        self.pat(*binder, &mut inner)?;
                        self.compu(*tail, &inner, false)?;
                    }
                }
                | sl::Computation::LetValue(sl::LetValue { binder, bindee, body }) => {
                    self.value(*bindee, scope)?;
                    let mut inner = scope.clone();
                    self.pat(*binder, &mut inner)?;
                    self.compu(*body, &inner, false)?;
                }
                | sl::Computation::LetStack(sl::LetStack { bindee, body }) => {
                    self.stack(*bindee, scope)?;
                    if !matches!(self.arena.inner.compus[body], sl::Computation::CoprodMatch(_)) {
                        return Err(format!("stack let {:?} does not directly guard a coproduct match", c));
                    }
                    self.compu(*body, scope, true)?;
                }
                | sl::Computation::LetArg(sl::LetArg { binder, bindee, body }) => {
                    self.stack(*bindee, scope)?;
                    let mut inner = scope.clone();
                    self.pat(*binder, &mut inner)?;
                    self.compu(*body, &inner, false)?;
                }
                | sl::Computation::CoCase(sl::SCoMatch { scrut, arms }) => {
                    self.stack(*scrut, scope)?;
                    for sl::CoMatcher { tail, .. } in arms {
                        self.compu(*tail, scope, false)?;
                    }
                }
                | sl::Computation::OpenClosure(sl::OpenClosure { package, environment, code, body }) => {
                    self.value(*package, scope)?;
                    let mut inner = scope.clone();
                    self.pat(*environment, &mut inner)?;
                    self.pat(*code, &mut inner)?;
                    self.compu(*body, &inner, false)?;
                }
                | sl::Computation::OpenContinuation(sl::OpenContinuation { package, code, body }) => {
                    self.stack(*package, scope)?;
                    let mut inner = scope.clone();
                    self.pat(*code, &mut inner)?;
                    self.compu(*body, &inner, false)?;
                }
                | sl::Computation::ExternCall(sl::ExternCall { function, stack }) => {
                    if !self.arena.admin.builtins.contains_key(function) {
                        return Err(format!("extern {} is not in the builtin table", function));
                    }
                    self.stack(*stack, scope)?;
                }
            }
            Ok(())
        }
    }
    let mut v = V { arena, seen_values: &mut seen_values, seen_compus: &mut seen_compus, seen_stacks: &mut seen_stacks, labels: &mut labels, nodes: &mut nodes };
    v.compu(program.root(), &im::HashSet::new(), false)?;
    Ok(nodes)
}

pub fn validate_assembly(program: &sa::AssemblyProgram) -> Result<u64, String> {
    let arena = &program.arena;
    let exists = |p: &sa::ProgId| arena.programs.iter().any(|(q, _)| q == p);
    let progs: HashSet<sa::ProgId> = arena.programs.iter().map(|(p, _)| *p).collect();
    let vars: HashSet<sa::VarId> = arena.variables.iter().map(|(v, _)| *v).collect();
    let syms: HashSet<sa::SymId> = arena.symbols.iter().map(|(s, _)| *s).collect();
    let _ = exists;
    if !progs.contains(&program.root) {
        return Err("assembly root is not a program".into());
    }
    let mut checked = 0u64;
    for (id, prog) in arena.programs.iter() {
        checked += 1;
        let layout_check = |l: &sa::ProductLayout| -> Result<(), String> {
            if l.elements == 0 || l.elements > l.arity || l.fields.len() != l.arity {
                Err(format!("product layout elements {} arity {} fields {} at {:?}", l.elements, l.arity, l.fields.len(), id))
            } else {
                Ok(())
            }
        };
        match prog {
            | sa::Program::Terminator(t) => match t {
                | sa::Terminator::Jump(sa::Jump(target)) => {
                    if !progs.contains(target) {
                        return Err(format!("jump at {:?} to a missing program {:?}", id, target));
                    }
                }
                | sa::Terminator::PopBranch(sa::PopBranch(arms)) => {
                    for (_, target) in arms {
                        if !progs.contains(target) {
                            return Err(format!("branch at {:?} to a missing program {:?}", id, target));
                        }
                    }
                }
                | sa::Terminator::PopJump(_) | sa::Terminator::Abort(_) | sa::Terminator::Extern(_) => {}
            },
            | sa::Program::Instruction(instr, next) => {
                if !progs.contains(next) {
                    return Err(format!("instruction at {:?} continues to a missing program {:?}", id, next));
                }
                match instr {
                    | sa::Instruction::PackProduct(sa::Pack(l)) | sa::Instruction::UnpackProduct(sa::Unpack(l)) => layout_check(l)?,
                    | sa::Instruction::PushArg(sa::Push(atom)) => match atom {
                        | sa::Atom::Var(v) if !vars.contains(v) => return Err(format!("push of a missing variable {:?} at {:?}", v, id)),
                        | sa::Atom::Sym(s) if !syms.contains(s) => return Err(format!("push of a missing symbol {:?} at {:?}", s, id)),
                        | _ => {}
                    },
                    | sa::Instruction::PopArg(sa::Pop(v)) => {
                        if !vars.contains(v) {
                            return Err(format!("pop into a missing variable {:?} at {:?}", v, id));
                        }
                    }
                    | _ => {}
                }
            }
        }
    }
    for (_, sym) in arena.symbols.iter() {
        if let sa::Symbol::Prog(p) = &sym.inner {
            if !progs.contains(p) {
                return Err(format!("symbol {} names a missing program {:?}", sym.name, p));
            }
        }
    }
    Ok(checked)
}

/// AMD64 text: every referenced label is defined exactly once or declared extern; externs declared once.
pub fn validate_amd64_text(text: &str) -> Result<u64, String> {
    let mut defined: BTreeMap<String, u32> = BTreeMap::new();
    let mut externs: BTreeMap<String, u32> = BTreeMap::new();
    let mut referenced: BTreeSet<String> = BTreeSet::new();
    let is_ident = |s: &str| !s.is_empty() && s.chars().all(|c| c.is_ascii_alphanumeric() || matches!(c, '_' | '.' | '$')) && !s.chars().next().unwrap().is_ascii_digit();
    const REGS: &[&str] = &["rax", "rbx", "rcx", "rdx", "rsi", "rdi", "rbp", "rsp", "r8", "r9", "r10", "r11", "r12", "r13", "r14", "r15", "al", "cl", "eax", "ecx", "edx"];
    for line in text.lines() {
        let l = line.trim();
        if l.is_empty() || l.starts_with(";") {
            continue;
        }
        if !line.starts_with(char::is_whitespace) && l.ends_with(':') {
            *defined.entry(l.trim_end_matches(':').to_string()).or_insert(0) += 1;
            continue;
        }
        if let Some(rest) = l.strip_prefix("extern ") {
            *externs.entry(rest.trim().to_string()).or_insert(0) += 1;
            continue;
        }
        // `[rel NAME]`
        let mut rest = l;
        while let Some(pos) = rest.find("[rel ") {
            let tail = &rest[pos + 5..];
            let end = tail.find(']').unwrap_or(tail.len());
            let name = tail[..end].trim();
            if is_ident(name) {
                referenced.insert(name.to_string());
            }
            rest = &tail[end..];
        }
        // direct control transfers
        let mut words = l.split_whitespace();
        if let Some(op) = words.next() {
            if matches!(op, "jmp" | "call" | "je" | "jne" | "jz" | "jnz" | "jl" | "jg" | "jle" | "jge" | "ja" | "jb" | "jae" | "jbe") {
                if let Some(target) = words.next() {
                    if is_ident(target) && !REGS.contains(&target) {
                        referenced.insert(target.to_string());
                    }
                }
            }
            if matches!(op, "dq" | "dd") {
                for w in l[op.len()..].split(',') {
                    let w = w.trim();
                    let w = w.split(['-', '+']).next().unwrap_or("").trim();
                    if is_ident(w) && !REGS.contains(&w) {
                        referenced.insert(w.to_string());
                    }
                }
            }
        }
    }
    for (name, n) in &defined {
        if *n > 1 {
            return Err(format!("label {} is defined {} times", name, n));
        }
        if externs.contains_key(name) {
            return Err(format!("label {} is both defined and declared extern", name));
        }
    }
    for (name, n) in &externs {
        if *n > 1 {
            return Err(format!("extern {} is declared {} times", name, n));
        }
    }
    for r in &referenced {
        if !defined.contains_key(r) && !externs.contains_key(r) {
            return Err(format!("referenced symbol {} is neither defined nor declared extern", r));
        }
    }
    Ok(referenced.len() as u64)
}

pub fn validate_llvm_text(text: &str) -> Result<(), String> {
    use std::io::Write;
    let mut child = std::process::Command::new("llvm-as-14")
        .args(["-o", "/dev/null", "-"])
        .stdin(std::process::Stdio::piped())
        .stdout(std::process::Stdio::null())
        .stderr(std::process::Stdio::piped())
        .spawn()
        .map_err(|e| format!("HARNESS cannot start llvm-as-14: {e}"))?;
    child.stdin.take().unwrap().write_all(text.as_bytes()).map_err(|e| format!("HARNESS {e}"))?;
    let out = child.wait_with_output().map_err(|e| format!("HARNESS {e}"))?;
    if out.status.success() { Ok(()) } else { Err(String::from_utf8_lossy(&out.stderr).chars().take(400).collect()) }
}

/* ----------------------------------- the monitor ----------------------------------- */

pub enum Lowered {
    Ok(BackendProgram),
    DefinedError(String),
    Panic(crate::util::panic::PanicInfo),
}

pub fn lower(exe: zydeco_session::ExecutableProgram) -> Lowered {
    match catch(|| BackendProgram::lower(exe)) {
        | Ok(Ok(b)) => Lowered::Ok(b),
        | Ok(Err(e)) => Lowered::DefinedError(e.to_string()),
        | Err(p) => Lowered::Panic(p),
    }
}

/// Lower, render, emit and validate. Returns true if the program lowered (non-trivial for C18).
pub fn monitor(stats: &mut Stats, generator: &str, index: u64, sources: &Sources, exe: zydeco_session::ExecutableProgram, tags: Vec<String>) -> bool {
    let mut fail = |stats: &mut Stats, signature: String, problem: String| {
        stats.violation(Violation {
            signature,
            tags: tags.clone(),
            generator: generator.into(),
            index,
            detail: json!({"problem": problem, "sources": sources.to_json()}),
        });
    };
    let backend = match lower(exe) {
        | Lowered::Ok(b) => b,
        | Lowered::DefinedError(e) => {
            stats.count("lowering_defined_error");
            stats.cover("defined_errors", &e.chars().take(50).collect::<String>());
            return false;
        }
        | Lowered::Panic(p) => {
            stats.cover("panic_sites", &p.site());
            fail(stats, format!("backend-panic {}", p.site()), format!("BackendProgram::lower panicked: {}", p.short()));
            return false;
        }
    };
    stats.count("lowered");
    match validate_sps_low(&backend.sps_low) {
        | Ok(n) => stats.add("sps_low_nodes_validated", n),
        | Err(e) => fail(stats, format!("sps-low-invariant {}", e.split_whitespace().take(3).collect::<Vec<_>>().join(" ")), e),
    }
    match validate_assembly(&backend.assembly) {
        | Ok(n) => stats.add("assembly_programs_validated", n),
        | Err(e) => fail(stats, format!("assembly-invariant {}", e.split_whitespace().take(3).collect::<Vec<_>>().join(" ")), e),
    }
    for (what, r) in [("render_sps_low", catch(|| backend.render_sps_low())), ("render_assembly", catch(|| backend.render_assembly()))] {
        match r {
            | Ok(text) => stats.add("rendered_bytes", text.len() as u64),
            | Err(p) => fail(stats, format!("backend-panic {}", p.site()), format!("{} panicked: {}", what, p.short())),
        }
    }
    for os in [TargetOs::Linux, TargetOs::Macos] {
        match catch(|| backend.emit_amd64(os)) {
            | Ok(text) => {
                stats.count("amd64_emitted");
                match validate_amd64_text(&text) {
                    | Ok(n) => stats.add("amd64_references_checked", n),
                    | Err(e) => fail(stats, format!("amd64-text-invalid {}", e.split_whitespace().take(2).collect::<Vec<_>>().join(" ")), e),
                }
            }
            | Err(p) => fail(stats, format!("backend-panic {}", p.site()), format!("emit_amd64 panicked: {}", p.short())),
        }
    }
    for (arch, os) in [
        (TargetArchitecture::X86_64, TargetOs::Linux),
        (TargetArchitecture::X86_64, TargetOs::Macos),
        (TargetArchitecture::Aarch64, TargetOs::Linux),
        (TargetArchitecture::Aarch64, TargetOs::Macos),
    ] {
        match catch(|| backend.emit_llvm(arch, os)) {
            | Ok(Ok(text)) => {
                stats.count("llvm_emitted");
                if arch == TargetArchitecture::X86_64 && os == TargetOs::Linux {
                    match validate_llvm_text(&text) {
                        | Ok(()) => stats.count("llvm_as_accepted"),
                        | Err(e) if e.starts_with("HARNESS") => stats.inconclusive("llvm-as-14 could not be run"),
                        | Err(e) => fail(stats, "llvm-as-rejects-module".into(), e),
                    }
                }
            }
            | Ok(Err(CompileError::LlvmUnsupportedLocal { .. })) => stats.count("llvm_unsupported_local"),
            | Ok(Err(e)) => stats.cover("defined_errors", &e.to_string().chars().take(50).collect::<String>()),
            | Err(p) => fail(stats, format!("backend-panic {}", p.site()), format!("emit_llvm panicked: {}", p.short())),
        }
    }
    true
}

fn run_program(cfg: &Cfg, index: u64, stats: &mut Stats) {
    let program = e1::generate::generate(cfg.seed, "C18", index);
    let mut rng = Rng::for_case(cfg.seed, "C18/style", index);
    let styles = styles_for(index);
    let style = &styles[rng.below(styles.len().min(4))];
    let sources = Sources::single(e1::print::program_text(&program, style, cfg.seed ^ index));
    let analyzed = pipeline::analyze_overlay(&sources);
    stats.evaluations += 1;
    if !analyzed.verdict.is_accept() {
        stats.inconclusive("generated program not accepted");
        return;
    }
    let Ok(exe) = analyzed.executable() else {
        stats.inconclusive("accepted but not executable");
        return;
    };
    for f in &program.features {
        stats.cover("formers", f);
    }
    let tags = trigger_tags(&program);
    if monitor(stats, "programs", index, &sources, exe, tags) && program.features.len() >= 5 {
        stats.nontrivial(sources.root_text().as_bytes());
    }
    if stats.samples.is_empty() {
        stats.sample(json!({"lowered_program_excerpt": sources.root_text().chars().rev().take(500).collect::<String>().chars().rev().collect::<String>()}));
    }
}

fn run_fixture(_cfg: &Cfg, index: u64, stats: &mut Stats) {
    let path = fixtures()[index as usize].clone();
    let analyzed = pipeline::analyze_disk(&path);
    stats.evaluations += 1;
    if !analyzed.verdict.is_accept() {
        stats.count("fixture_not_accepted");
        return;
    }
    let Ok(exe) = analyzed.executable() else {
        stats.count("fixture_not_executable");
        return;
    };
    let sources = Sources { files: vec![(path.display().to_string(), std::fs::read_to_string(&path).unwrap_or_default())] };
    if monitor(stats, "fixtures", index, &sources, exe, vec!["fixture".into()]) {
        stats.nontrivial(path.display().to_string().as_bytes());
    }
}

/* ------------------------------------------------------------------------------------------------------------
 * Binder and scrutinee shapes over the repository's own standard library (absolute import), one small accepted and
 * runnable program per shape: the places in which a pattern or a value that is not a plain variable can be written.
 * The generated core language writes constructor patterns in match arms only and binds `fix` to a variable; these
 * are the remaining positions. Each program is run by the interpreter first (it has to exit with 0: the shape is
 * part of the language), then lowered under the same monitors as the generated programs. Tag = shape name.
 * ------------------------------------------------------------------------------------------------------------ */

const SHAPE_HEADER: &str = "begin\n  param (\n    (/core; /representations; /numeric; /system) :\n    @(import(\"/repo/lib/std/builtin.zy\"))\n  ) that\n  let (/VType; /CType; /Thk; /Ret; /Unit) = core that\n  let (/Scalar = Int64) = representations/i64 that\n  let (/OS; /process) = system that\n  def Box = data | +Box : Int64 end that\n  def Opt = data | +None : Unit | +Some : Int64 end that\n  def OptBox = data | +Nothing : Unit | +Just : Box end that\n  def Bool = data | +False : Unit | +True : Unit end that\n  let Flags = (verbose :: Bool) * (code :: Int64) that\n";

fn shapes() -> Vec<(&'static str, &'static str)> {
    vec![
        // control: everything through variables
        ("control/variable-scrutinee", "  let b : Opt = +Some(0) in\n  match b | +Some(n) => ! (process/exit) n | +None() => ! (process/exit) 1 end\n"),
        // constructor patterns outside the top of a match arm
        ("ctor-pattern/let", "  let b : Box = +Box(0) in\n  let +Box(n) = b in\n  ! (process/exit) n\n"),
        ("ctor-pattern/do", "  do +Box(n) <- ret (+Box(0) : Box);\n  ! (process/exit) n\n"),
        ("ctor-pattern/fn-parameter", "  do b <- ret (+Box(0) : Box);\n  ! { fn (+Box(n) : Box) => ! (process/exit) n } b\n"),
        ("ctor-pattern/that", "  let +Box(n) = (+Box(0) : Box) that\n  ! (process/exit) n\n"),
        ("ctor-pattern/nested-in-ctor", "  let b : OptBox = +Just(+Box(0)) in\n  match b | +Just(+Box(n)) => ! (process/exit) n | +Nothing() => ! (process/exit) 1 end\n"),
        ("ctor-pattern/under-product-single-arm", "  let b : Int64 * Box = (1, +Box(0)) in\n  match b | (_, +Box(n)) => ! (process/exit) n end\n"),
        ("ctor-pattern/under-product-two-arms", "  let b : Int64 * Opt = (1, +Some(0)) in\n  match b | (_, +Some(n)) => ! (process/exit) n | (_, +None()) => ! (process/exit) 1 end\n"),
        ("ctor-pattern/under-alias", "  let b : Box = +Box(0) in\n  let (whole; +Box(n)) = b in\n  ! (process/exit) n\n"),
        // arms that are not constructor arms
        ("arms/wildcard-after-ctor", "  let b : Opt = +Some(0) in\n  match b | +Some(n) => ! (process/exit) n | _ => ! (process/exit) 1 end\n"),
        ("arms/variable-after-ctor", "  let b : Opt = +Some(0) in\n  match b | +Some(n) => ! (process/exit) n | other => ! (process/exit) 1 end\n"),
        ("arms/two-irrefutable", "  let p : Int64 * Int64 = (0, 1) in\n  match p | (a, b) => ! (process/exit) a | q => ! (process/exit) 1 end\n"),
        ("arms/single-variable", "  let p : Int64 = 0 in\n  match p | q => ! (process/exit) q end\n"),
        ("arms/single-wildcard", "  let p : Int64 = 0 in\n  match p | _ => ! (process/exit) 0 end\n"),
        // fix binders that are not a variable
        ("fix-binder/hole", "  ! {\n    fix (_ : Thk (Int64 -> OS)) => fn n => ! (process/exit) n\n  } 0\n"),
        ("fix-binder/alias", "  ! {\n    fix ((loop; again) : Thk (Int64 -> OS)) => fn n => ! (process/exit) n\n  } 0\n"),
        ("fix-binder/variable", "  ! {\n    fix (loop : Thk (Int64 -> OS)) => fn n => ! (process/exit) n\n  } 0\n"),
        // scrutinees and arguments that are not plain values
        ("scrutinee/field-projection", "  def flags : Flags = (verbose = +False(), code = 0) that\n  match flags/verbose\n  | +True() => ! (process/exit) 1\n  | +False() => ! (process/exit) flags/code\n  end\n"),
        ("scrutinee/pure-application", "  let second : Bool -> Bool -> Bool = fn _ chosen => chosen that\n  match second +True() +False()\n  | +True() => ! (process/exit) 1\n  | +False() => ! (process/exit) 0\n  end\n"),
        ("scrutinee/annotated-constructor", "  match (+Some(0) : Opt) | +Some(n) => ! (process/exit) n | +None() => ! (process/exit) 1 end\n"),
        ("scrutinee/projection-under-constructor", "  def flags : Flags = (verbose = +False(), code = 0) that\n  match (+Some(flags/code) : Opt) | +Some(n) => ! (process/exit) n | +None() => ! (process/exit) 1 end\n"),
        ("scrutinee/product-of-projection", "  def flags : Flags = (verbose = +False(), code = 0) that\n  match (flags/code, flags/verbose) | (n, _) => ! (process/exit) n end\n"),
        ("argument/pure-application", "  let twice : (Int64 -> Int64) -> Int64 -> Int64 = fn f x => f (f x) that\n  let same : Int64 -> Int64 = fn x => x that\n  ! (process/exit) (twice same 0)\n"),
        ("argument/field-projection-of-pure-application", "  let mk : Int64 -> Flags = fn c => (verbose = +False(), code = c) that\n  ! (process/exit) (mk 0)/code\n"),
    ]
}

fn run_shape(_cfg: &Cfg, index: u64, stats: &mut Stats) {
    let (name, body) = shapes()[index as usize];
    stats.cover("shapes", name);
    let sources = Sources::single(format!("{SHAPE_HEADER}{body}end\n"));
    let result = pipeline::check_and_run(&sources, b"", &[], 200_000);
    stats.evaluations += 1;
    let ran = matches!((&result.verdict, &result.run), (pipeline::Verdict::Checked, Some(run)) if run.end == pipeline::End::Exit(0));
    if !ran {
        // not part of the accepted, runnable language (or the shape is misspelt): nothing for C18 to decide
        stats.cover("shapes_not_accepted_or_not_exiting_0", name);
        stats.inconclusive("shape program is not accepted and run to exit 0 by the interpreter");
        return;
    }
    let analyzed = pipeline::analyze_overlay(&sources);
    let Ok(exe) = analyzed.executable() else {
        stats.inconclusive("accepted but not executable");
        return;
    };
    // known-finding triggers are the classes of shapes, not the single programs
    let class = match name {
        | n if n.starts_with("fix-binder/") => "fix-binder-not-a-variable",
        | n if n.starts_with("arms/") || n == "ctor-pattern/under-product-two-arms" => "match-arms-not-one-per-constructor",
        | n if n.starts_with("ctor-pattern/") => "constructor-pattern-outside-the-top-of-a-match-arm",
        | n if n.starts_with("scrutinee/") => "scrutinee-not-a-plain-value",
        | n if n.starts_with("argument/") => "argument-not-a-plain-value",
        | _ => "control",
    };
    if monitor(stats, "shapes", index, &sources, exe, vec![class.to_string(), name.to_string()]) {
        stats.nontrivial(name.as_bytes());
    }
}

/* ------------------------------------------------------------------------------------------------------------
 * Mutations of the repository's compile fixtures that `check` still accepts (the second half of the property's
 * quantifier). A mutant is the fixture's text with one or two token-level changes, installed as an overlay at the
 * fixture's own path so that its relative imports keep working: arms of a match / comatch swapped or duplicated,
 * the last arm's pattern replaced by a catch-all, a literal or an identifier replaced by another one of the file, a
 * use wrapped into a value-level `let`. What is accepted as an executable goes through the same monitors.
 * ------------------------------------------------------------------------------------------------------------ */

fn mutant_fixtures() -> Vec<std::path::PathBuf> {
    let mut v = Vec::new();
    for dir in ["compile", "compile-more", "exec"] {
        if let Ok(entries) = std::fs::read_dir(std::path::Path::new("/repo/lib/tests").join(dir)) {
            for e in entries.flatten() {
                let p = e.path();
                if matches!(p.extension().and_then(|e| e.to_str()), Some("zy" | "zydeco")) {
                    v.push(p);
                }
            }
        }
    }
    v.sort();
    v
}

/// Token ranges of the arms of the match / comatch that opens at token `open`: (first token, one past the last).
fn arms_of(src: &str, tokens: &[crate::e2::scan::Token], open: usize) -> Option<(Vec<(usize, usize)>, usize)> {
    use crate::e2::scan::Kind;
    let text = |i: usize| &src[tokens[i].start..tokens[i].end];
    let mut depth = 0i32; // nested `end`-closed constructs
    let mut paren = 0i32;
    let mut starts: Vec<usize> = Vec::new();
    let mut i = open + 1;
    while i < tokens.len() {
        let t = text(i);
        match tokens[i].kind {
            | Kind::Keyword if matches!(t, "match" | "comatch" | "data" | "codata" | "begin") => depth += 1,
            | Kind::Keyword if t == "end" => {
                if depth == 0 {
                    if starts.is_empty() {
                        return None;
                    }
                    let mut arms = Vec::new();
                    for (k, st) in starts.iter().enumerate() {
                        let en = if k + 1 < starts.len() { starts[k + 1] } else { i };
                        arms.push((*st, en));
                    }
                    return Some((arms, i));
                }
                depth -= 1;
            }
            | Kind::Punct if matches!(t, "(" | "{" | "[") => paren += 1,
            | Kind::Punct if matches!(t, ")" | "}" | "]") => paren -= 1,
            | Kind::Punct if t == "|" && depth == 0 && paren == 0 => starts.push(i),
            | _ => {}
        }
        i += 1;
    }
    None
}

fn run_fixture_mutant(cfg: &Cfg, index: u64, stats: &mut Stats) {
    use crate::e2::scan::{self, Kind};
    let fixtures = mutant_fixtures();
    if fixtures.is_empty() {
        stats.harness_error("no compile fixtures found under /repo/lib/tests".into());
        return;
    }
    let mut rng = Rng::for_case(cfg.seed, "C18/fixture-mutants", index);
    let path = fixtures[(index as usize) % fixtures.len()].clone();
    let Ok(src) = std::fs::read_to_string(&path) else { return };
    let tokens: Vec<scan::Token> = scan::scan(&src).into_iter().filter(|t| t.is_code()).collect();
    if tokens.len() < 8 {
        return;
    }
    let text = |i: usize| &src[tokens[i].start..tokens[i].end];
    let span = |a: usize, b: usize| &src[tokens[a].start..tokens[b - 1].end];
    let mut out = src.clone();
    let mut tags: Vec<String> = vec!["fixture-mutant".into()];
    let opens: Vec<usize> = (0..tokens.len()).filter(|i| tokens[*i].kind == Kind::Keyword && matches!(text(*i), "match" | "comatch")).collect();
    let op = rng.below(8);
    let mut operator = "none";
    match op {
        | 0 | 1 | 2 | 3 if !opens.is_empty() => {
            let open = *rng.pick(&opens);
            let is_match = text(open) == "match";
            if let Some((arms, end)) = arms_of(&src, &tokens, open) {
                let a = rng.below(arms.len());
                match op {
                    | 0 if arms.len() >= 2 => {
                        // swap two arms
                        let mut b = rng.below(arms.len());
                        if a == b {
                            b = (a + 1) % arms.len();
                        }
                        let (x, y) = if a < b { (arms[a], arms[b]) } else { (arms[b], arms[a]) };
                        out = format!("{}{}{}{}{}", &src[..tokens[x.0].start], span(y.0, y.1), &src[tokens[x.1 - 1].end..tokens[y.0].start], span(x.0, x.1), &src[tokens[y.1 - 1].end..]);
                        operator = "swap-arms";
                    }
                    | 1 => {
                        // the arm once more, at the end: it can never be taken
                        out = format!("{} {} {}", &src[..tokens[end].start], span(arms[a].0, arms[a].1), &src[tokens[end].start..]);
                        operator = "duplicate-arm";
                        tags.push(if is_match { "match-arms-not-one-per-constructor" } else { "comatch-arm-duplicated" }.into());
                    }
                    | 2 if is_match => {
                        // the last arm's pattern becomes a catch-all
                        let last = arms[arms.len() - 1];
                        if let Some(arrow) = (last.0..last.1).find(|i| text(*i) == "=>") {
                            out = format!("{}| _ {}", &src[..tokens[last.0].start], &src[tokens[arrow].start..]);
                            operator = "last-arm-catch-all";
                            tags.push("match-arms-not-one-per-constructor".into());
                        }
                    }
                    | _ if is_match => {
                        // a catch-all arm after all others
                        if let Some(arrow) = (arms[a].0..arms[a].1).find(|i| text(*i) == "=>") {
                            out = format!("{} | _ {} {}", &src[..tokens[end].start], span(arrow, arms[a].1), &src[tokens[end].start..]);
                            operator = "extra-catch-all-arm";
                            tags.push("match-arms-not-one-per-constructor".into());
                        }
                    }
                    | _ => {}
                }
            }
        }
        | 4 => {
            // an integer literal becomes another small one
            let ints: Vec<usize> = (0..tokens.len()).filter(|i| tokens[*i].kind == Kind::Int).collect();
            if !ints.is_empty() {
                let i = *rng.pick(&ints);
                out = format!("{}{}{}", &src[..tokens[i].start], rng.below(200), &src[tokens[i].end..]);
                operator = "literal";
            }
        }
        | 5 | 6 => {
            // a lower-case identifier becomes another one of the file
            let ids: Vec<usize> = (0..tokens.len()).filter(|i| tokens[*i].kind == Kind::Lower).collect();
            if ids.len() >= 2 {
                let i = *rng.pick(&ids);
                let j = *rng.pick(&ids);
                if text(i) != text(j) {
                    out = format!("{}{}{}", &src[..tokens[i].start], text(j), &src[tokens[i].end..]);
                    operator = "identifier";
                }
            }
        }
        | _ => {
            // a use wrapped into a value-level let: `x` becomes `(let q_ = x in q_)`
            let ids: Vec<usize> = (1..tokens.len() - 1).filter(|i| tokens[*i].kind == Kind::Lower && !matches!(text(*i + 1), "=" | ":" | "<-" | "::") && !matches!(text(*i - 1), "/" | "." | "let" | "def" | "fn" | "fix" | "|" | "do")).collect();
            if !ids.is_empty() {
                let i = *rng.pick(&ids);
                out = format!("{}(let q_ = {} in q_){}", &src[..tokens[i].start], text(i), &src[tokens[i].end..]);
                operator = "value-level-let";
                tags.push("scrutinee-or-argument-not-a-plain-value".into());
            }
        }
    }
    if operator == "none" || out == src {
        return;
    }
    stats.evaluations += 1;
    stats.count("fixture_mutants_made");
    let mut session = zydeco_session::CompilerSession::default();
    let _ = session.set_overlay(&path, out.clone());
    let analyzed = pipeline::analyze_in(session, path.clone());
    if !analyzed.verdict.is_accept() {
        stats.count("fixture_mutants_rejected");
        return;
    }
    let Ok(exe) = analyzed.executable() else {
        stats.count("fixture_mutants_not_executable");
        return;
    };
    stats.count("fixture_mutants_accepted");
    stats.cover("fixture_mutant_operators_accepted", operator);
    tags.push(operator.to_string());
    let sources = Sources { files: vec![(path.display().to_string(), out.clone())] };
    if monitor(stats, "fixture-mutants", index, &sources, exe, tags) {
        stats.nontrivial(out.as_bytes());
    }
}
