use crate::core::PropertyDef;

pub mod c01;
pub mod c02;
pub mod c03;
pub mod c20;
pub mod catalogue;
pub mod c04;
pub mod c05;
pub mod c06;
pub mod c07;
pub mod c08;
pub mod c10;
pub mod c11;
pub mod c12;
pub mod c13;
pub mod c14;
pub mod c15;
pub mod c16;
pub mod c17;
pub mod c17_san;
pub mod c17_lsp;
pub mod c17_resolved;
pub mod c18;
pub mod c19;
pub mod fmtwork;
pub mod c08_lang;
pub mod c09;
pub mod c09_splice;

pub fn all() -> Vec<PropertyDef> {
    vec![c01::def(), c02::def(), c03::def(), c04::def(), c05::def(), c06::def(), c07::def(), c08::def(), c09::def(), c10::def(), c11::def(), c12::def(), c13::def(), c14::def(), c15::def(), c16::def(), c17::def(), c18::def(), c19::def(), c20::def()]
}

pub fn lookup(id: &str) -> Option<PropertyDef> {
    all().into_iter().find(|d| d.id == id)
}
