use crate::core::PropertyDef;

pub mod c05;

pub fn all() -> Vec<PropertyDef> {
    vec![c05::def()]
}

pub fn lookup(id: &str) -> Option<PropertyDef> {
    all().into_iter().find(|d| d.id == id)
}
