//! C20 — monadic blocks instantiated at the identity monad compute the same result.
//!
//! Generated programs contain statements `do x <- (closed function run as an @[monadic] block at Ret) args; show x`.
//! The same program is printed twice — with the blocks annotated and instantiated at the identity monad, and with the
//! annotation erased — and both are compared with each other and with the reference evaluator under the C01 step monitor.

use crate::core::*;
use crate::e1::{self, eval::RefEnd, print::{Printer, Style, decl_texts}};
use crate::pipeline::{self, End, Sources};
use crate::util::rng::Rng;
use serde_json::json;

pub fn def() -> PropertyDef {
    PropertyDef {
        id: "C20",
        title: "Monadic blocks instantiated at the identity monad compute the same result",
        generators,
        extra: no_extra,
        rule: "each generated program runs 1..3 closed functions (ret, do, let, functions and beta redexes, thunks and forces, transparent data types and \
               matches with nested patterns, products and named products, host arithmetic / text operations taken as block parameters, 0..3 own \
               parameters of value, data and thunk types) as `@[monadic] begin .. end` blocks instantiated with `Ret { ! ret_monad }` (return = ret, \
               bind = run then continue) and shows every result; the twin program erases the annotation and the monad arguments. Oracle: if the \
               annotated program is accepted, its output and exit code equal the twin's and the reference evaluator's, and the run never goes wrong \
               (no stuck state / undefined-state panic); bind order is observable because every literal is unique and sub / append are not commutative. \
               distinct = program text hash; non-trivial = accepted program with at least one block containing a bind.",
        assumptions: &[
            "the harness reference evaluator is a faithful reading of call-by-push-value for the generated core",
            "blocks are closed: the translation rejects references to non-inlinable outer values, so host operations are block parameters as in lib/tests/effects",
        ],
        floor: (400, 10_000),
        on_case_death: death_is_harness_error,
    }
}

fn generators(cfg: &Cfg) -> Vec<Generator> {
    vec![Generator { name: "blocks", total: cfg.tier.pick(1_600, 40_000), run: run_blocks, case_cpu_limit_s: 300 }]
}

const PRELUDE: &str = r#"let monadic_basis = @(import("/repo/lib/std/control/monad.zy")) in
param (
  (/core; /representations; /numeric; /text; /system; builtin) :
  @(import("/repo/lib/std/builtin.zy"))
) in
let (/VType; /CType; /Thk; /Ret; /Unit) = core in
let (/Scalar = Int64) = representations/i64 in
let (/Scalar = String) = representations/string in
let (/OS; /process; /stdio) = system in
let exit = process/exit in
let write_line = stdio/write_line in
let (Scalar = NumericInt64, int64) = numeric/int64 in
let add = int64/add in
let sub = int64/sub in
let mul = int64/mul in
let int_eq = int64/eq in
let int_lt = int64/lt in
let to_string = int64/to_string in
let append = text/string/append in
let str_eq = text/string/eq in
let (= Monad, = Algebra, ()) = monadic_basis builtin in
"#;

const RET_MONAD: &str = "def ! ret_monad : Monad Ret =\n  comatch\n  | .return A value => ret value\n  | .bind A B computation function =>\n    do value <- ! computation;\n    ! function value\n  end\nthat\n";

fn program_text(program: &e1::ast::Program, style: &Style, seed: u64) -> String {
    let mut p = Printer::new(&program.decls, style, seed);
    let mut text = PRELUDE.to_string();
    text.push_str("begin\n");
    for d in decl_texts(&mut p, &program.decls) {
        text.push_str(&d);
        text.push_str(" that\n");
    }
    text.push_str(RET_MONAD);
    text.push_str(&p.comp(&program.body, &e1::ast::CTy::OS, false, &Vec::new()));
    text.push_str("\nend\n");
    text
}

fn has_bind(c: &e1::ast::Comp) -> bool {
    use e1::ast::Comp::*;
    fn in_val(v: &e1::ast::Val) -> bool {
        use e1::ast::Val::*;
        match v {
            | Thunk(c, _) => has_bind(c),
            | Tuple(items) => items.iter().any(in_val),
            | Rec(items) => items.iter().any(|(_, v)| in_val(v)),
            | Ctor { arg, .. } => in_val(arg),
            | Proj(h, ..) => in_val(h),
            | _ => false,
        }
    }
    match c {
        | Do { .. } => true,
        | Let { val, tail, .. } => in_val(val) || has_bind(tail),
        | Fn { body, .. } => has_bind(body),
        | App { fun, arg, .. } => has_bind(fun) || in_val(arg),
        | Match { arms, .. } => arms.iter().any(|(_, c)| has_bind(c)),
        | Force(v) | Ret(v) => in_val(v),
        | _ => false,
    }
}

fn blocks(c: &e1::ast::Comp, out: &mut Vec<bool>) {
    use e1::ast::Comp::*;
    match c {
        | Monadic { body, .. } => out.push(has_bind(body)),
        | Do { bindee, tail, .. } => {
            blocks(bindee, out);
            blocks(tail, out);
        }
        | Let { tail, .. } | WriteLine(_, tail) => blocks(tail, out),
        | _ => {}
    }
}

fn run_blocks(cfg: &Cfg, index: u64, stats: &mut Stats) {
    let mut rng = Rng::for_case(cfg.seed, "C20/style", index);
    let program = e1::generate::generate_monadic(cfg.seed, "C20", index);
    let mut found = Vec::new();
    blocks(&program.body, &mut found);
    if found.is_empty() {
        stats.count("programs_without_block");
        return;
    }
    let reference = e1::eval::run(&program, 400_000);
    let expected = match &reference.end {
        | RefEnd::Exit(c) => End::Exit(*c),
        | RefEnd::Ret(s) => End::Ret(s.clone()),
        | RefEnd::FuelOut => {
            stats.inconclusive("reference fuel exhausted");
            return;
        }
        | RefEnd::Stuck(why) => {
            stats.harness_error(format!("reference evaluator stuck on generated program #{index}: {why}"));
            return;
        }
    };
    let mut style = Style::plain();
    style.transparent_types = true;
    style.telescopes = rng.chance(1, 2);
    style.annotate_all = rng.chance(1, 4);
    let seed = cfg.seed ^ index;
    let monadic_text = program_text(&program, &style, seed);
    let mut erased = style.clone();
    erased.erase_monadic = true;
    let plain_text = program_text(&program, &erased, seed);
    let monadic = pipeline::check_and_run(&Sources::single(monadic_text.clone()), b"", &[], 2_000_000);
    let plain = pipeline::check_and_run(&Sources::single(plain_text.clone()), b"", &[], 2_000_000);
    stats.evaluations += 2;
    stats.add("monadic_blocks", found.len() as u64);
    for f in &program.features {
        stats.cover("features", f);
    }
    let fail = |stats: &mut Stats, signature: String, problem: String| {
        stats.violation(Violation {
            signature,
            tags: program.features.iter().map(|f| f.to_string()).collect(),
            generator: "blocks".into(),
            index,
            detail: json!({
                "problem": problem, "monadic_program": monadic_text, "plain_program": plain_text,
                "expected_stdout": String::from_utf8_lossy(&reference.stdout), "expected_end": format!("{:?}", expected),
                "monadic_verdict": monadic.verdict.brief().chars().take(1500).collect::<String>(),
                "plain_verdict": plain.verdict.brief().chars().take(600).collect::<String>(),
            }),
        });
    };
    if let pipeline::Verdict::Panic(p) = &monadic.verdict {
        fail(stats, format!("front-end-panic {}", p.site()), "the checker panicked on a program with a monadic block".into());
        return;
    }
    // the plain twin is ordinary core language: it must be accepted and agree with the reference (C01/C02 territory, a guard here)
    let plain_ok = plain.verdict.is_accept() && plain.run.as_ref().map(|r| r.end == expected && r.stdout == reference.stdout).unwrap_or(false);
    if !plain_ok {
        stats.count("plain_twin_disagrees_with_reference");
        stats.harness_error(format!(
            "C20 #{index}: the erased twin is not accepted or differs from the reference: {} / {:?}",
            plain.verdict.brief().chars().take(300).collect::<String>(),
            plain.run.as_ref().map(|r| format!("{:?}", r.end))
        ));
        return;
    }
    if !monadic.verdict.is_accept() {
        // the statement quantifies over accepted blocks; a rejection is recorded, not judged
        stats.count("blocks_rejected_by_the_translation");
        let head: String = monadic.verdict.brief().lines().next().unwrap_or("").chars().take(60).collect();
        stats.cover("rejection_reasons", &head);
        return;
    }
    stats.count("programs_accepted");
    let Some(run) = &monadic.run else {
        fail(stats, "translated-program-not-executable".into(), format!("{:?}", monadic.not_executable));
        return;
    };
    if found.iter().any(|b| *b) {
        stats.nontrivial(monadic_text.as_bytes());
    }
    // never goes wrong (C01 monitor)
    crate::props::c01::judge_run(stats, "blocks", index, &Sources::single(monadic_text.clone()), run, vec!["monadic-block".into()], "translated block at the identity monad");
    if run.end != expected || run.stdout != reference.stdout {
        let signature = match &run.end {
            | End::Panic(_, p) => format!("translated-block-goes-wrong {}", p.site()),
            | _ => "identity-monad-instance-differs".to_string(),
        };
        fail(stats, signature, format!("observed end {:?} stdout {:?}", run.end, String::from_utf8_lossy(&run.stdout)));
    }
    if index < 3 {
        stats.sample(json!({"program": monadic_text, "stdout": String::from_utf8_lossy(&reference.stdout), "blocks": found.len()}));
    }
}
