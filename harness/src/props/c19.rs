//! C19 — compilation to first-order stack-passing form preserves behaviour.

use crate::core::*;
use crate::e1::{self, eval::RefEnd};
use crate::pipeline::{self, End, Sources};
use crate::props::c02::styles_for;
use crate::props::c18::{Lowered, lower, trigger_tags};
use crate::spsm::{self, MEnd};
use crate::util::rng::Rng;
use serde_json::json;

pub fn def() -> PropertyDef {
    PropertyDef {
        id: "C19",
        title: "Compilation to first-order stack-passing form preserves behaviour",
        generators,
        extra: no_extra,
        rule: "programs: E1 generated programs that check accepts and that lower (closures capturing values of every type, nested \
               continuations, recursive data, codata dispatch, fix, tuples of every arity, named fields, polymorphism); tagcases: hand-written \
               constructor/destructor order cases (use in non-declaration order, structurally equal transparent types with permuted \
               constructor order used interchangeably). Each is run three ways — the harness CBPV reference evaluator, the repository \
               interpreter, and the harness's first-order SPS machine on BackendProgram.sps_low with the harness host model (dispatch by \
               numeric constructor/destructor index) — and stdout + exit code are compared. distinct = program text hash; non-trivial = all \
               three ran to an exit, >= 5 formers, the SPS run used >= 6 machine forms.",
        assumptions: &[
            "the harness SPS machine is a faithful reading of sps_low (jump, let-arg, co-case, open-closure/continuation, extern Returning/Control conventions as in the AMD64 emitter)",
            "native execution below SPS-low (assembly, AMD64) is covered structurally by C18 only: nasm and the runtime crate are not available offline",
        ],
        floor: (300, 10_000),
        on_case_death: death_is_harness_error,
    }
}

fn generators(cfg: &Cfg) -> Vec<Generator> {
    vec![
        Generator { name: "programs", total: cfg.tier.pick(1_500, 60_000), run: run_program, case_cpu_limit_s: 120 },
        Generator { name: "tagcases", total: tag_cases().len() as u64, run: run_tagcase, case_cpu_limit_s: 120 },
        Generator { name: "layouts", total: cfg.tier.pick(200, 6_000), run: run_layout, case_cpu_limit_s: 120 },
    ]
}

/// Compare interpreter and SPS machine (and the reference if given) on one accepted source.
fn compare(stats: &mut Stats, generator: &str, index: u64, sources: &Sources, reference: Option<(&[u8], i32)>, tags: Vec<String>, formers: usize) {
    let analyzed = pipeline::analyze_overlay(sources);
    if !analyzed.verdict.is_accept() {
        stats.inconclusive("program not accepted");
        return;
    }
    let (Ok(exe1), Ok(exe2)) = (analyzed.executable(), analyzed.executable()) else {
        stats.inconclusive("accepted but not executable");
        return;
    };
    let interp = pipeline::run_executable(exe1, b"", &[], 2_000_000);
    // Only the stages up to the first-order stack-passing program: the assembly stage behind it does not take every
    // accepted match (C18's known findings), and this property is about the program in front of it.
    let sps_low = match crate::util::panic::catch(|| lower_to_sps_low(exe2)) {
        | Ok(Ok(p)) => p,
        | Ok(Err(_)) => {
            stats.inconclusive("lowering reported a defined error");
            return;
        }
        | Err(_) => {
            // C18's subject (known findings live there)
            stats.inconclusive("lowering panicked (C18)");
            return;
        }
    };
    let machine = spsm::run(&sps_low, b"", 4_000_000);
    stats.count("three_way_runs");
    stats.add("sps_machine_steps", machine.steps);
    for f in &machine.forms {
        stats.cover("sps_forms", f);
    }
    let interp_end = match &interp.end {
        | End::Exit(c) => Some(*c),
        | End::FuelOut => {
            stats.inconclusive("interpreter fuel exhausted");
            return;
        }
        | _ => None,
    };
    let machine_end = match &machine.end {
        | MEnd::Exit(c) => Some(*c),
        | MEnd::FuelOut => {
            stats.inconclusive("SPS machine fuel exhausted");
            return;
        }
        | MEnd::Unsupported(why) => {
            stats.inconclusive(&format!("SPS machine: {}", why.chars().take(50).collect::<String>()));
            return;
        }
        | MEnd::Stuck(_) => None,
    };
    let agree = interp_end.is_some() && interp_end == machine_end && interp.stdout == machine.stdout;
    let agree_ref = reference.map_or(true, |(out, code)| interp_end == Some(code) && interp.stdout == out);
    if agree && agree_ref && formers >= 5 && machine.forms.len() >= 6 {
        stats.nontrivial(sources.root_text().as_bytes());
    }
    if !agree {
        let signature = match &machine.end {
            | MEnd::Stuck(why) => format!("sps-machine-stuck {}", why.split_whitespace().take(3).collect::<Vec<_>>().join(" ")),
            | _ => "lowered-behaviour-differs-from-interpreter".to_string(),
        };
        stats.violation(Violation {
            signature,
            tags,
            generator: generator.into(),
            index,
            detail: json!({
                "sources": sources.to_json(),
                "interpreter_end": format!("{:?}", interp.end), "interpreter_stdout": String::from_utf8_lossy(&interp.stdout),
                "sps_machine_end": format!("{:?}", machine.end), "sps_machine_stdout": String::from_utf8_lossy(&machine.stdout),
                "reference": reference.map(|(o, c)| json!({"stdout": String::from_utf8_lossy(o), "exit": c})),
            }),
        });
    } else if !agree_ref {
        // interpreter vs reference is C02's subject; here it only means the three-way check is not conclusive
        stats.inconclusive("interpreter differs from the CBPV reference (C02)");
    }
}

/// The lowering of `BackendProgram::lower` up to `SpsLowProgram`, through the same public passes.
fn lower_to_sps_low(executable: zydeco_session::ExecutableProgram) -> Result<zydeco_stackir::SpsLowProgram, String> {
    use zydeco_utils::pass::CompilerPass;
    let zydeco_session::ExecutableProgram { spans, scoped, statics, root, signature } = executable;
    let mut lowering_scoped = zydeco_surface::scoped::arena::ScopedArena::default();
    lowering_scoped.defs = statics.scoped_definitions(&scoped);
    let stackir = zydeco_stackir::BuiltinRootLowerer::new(&spans, &mut lowering_scoped, &statics, root, signature).run().map_err(|e| format!("{e:?}"))?;
    Ok(zydeco_stackir::SpsLowPipeline::new(&mut lowering_scoped).run(stackir))
}

/// Input-side trigger of the open product-layout finding, for generated programs: some product type in the program ends
/// in a type variable (the polymorphic side lays the value out with the variable as ONE field) and some type argument
/// (of a type application, of a parametric data type, or the witness of a package) is itself a product, so that the
/// other side lays it out flat. Computed from the program's types only.
pub fn layout_trigger(program: &e1::ast::Program) -> bool {
    use e1::ast::{CTy, Comp, Pat, VTy, Val};
    #[derive(Default)]
    struct Seen {
        variable_tail: bool,
        product_argument: bool,
    }
    fn is_product(t: &VTy) -> bool {
        matches!(t, VTy::Prod(_) | VTy::Named(_))
    }
    fn vty(t: &VTy, s: &mut Seen) {
        match t {
            | VTy::Int | VTy::Str | VTy::Unit | VTy::Var(_) => {}
            | VTy::Prod(items) => {
                if matches!(items.last(), Some(VTy::Var(_))) {
                    s.variable_tail = true;
                }
                items.iter().for_each(|i| vty(i, s));
            }
            | VTy::Named(items) => {
                if matches!(items.last(), Some((_, VTy::Var(_)))) {
                    s.variable_tail = true;
                }
                items.iter().for_each(|(_, i)| vty(i, s));
            }
            | VTy::Data(_, args) => {
                if args.iter().any(is_product) {
                    s.product_argument = true;
                }
                args.iter().for_each(|i| vty(i, s));
            }
            | VTy::Thk(c) => cty(c, s),
            | VTy::Exists(_, body) => vty(body, s),
        }
    }
    fn cty(t: &CTy, s: &mut Seen) {
        match t {
            | CTy::Ret(v) => vty(v, s),
            | CTy::Fun(a, r) => {
                vty(a, s);
                cty(r, s);
            }
            | CTy::Forall(_, c) | CTy::ForallC(_, c) => cty(c, s),
            | CTy::Codata(_) | CTy::OS | CTy::Var(_) => {}
        }
    }
    fn pat(p: &Pat, s: &mut Seen) {
        match p {
            | Pat::Var(_) | Pat::Wild | Pat::Unit => {}
            | Pat::Tuple(ps) | Pat::Alias(ps) => ps.iter().for_each(|p| pat(p, s)),
            | Pat::Ctor(_, _, p) => pat(p, s),
            | Pat::Rec(fs) => fs.iter().for_each(|(_, p)| pat(p, s)),
            | Pat::Unpack(_, p, extra) => {
                pat(p, s);
                if let Some((_, t)) = extra {
                    vty(t, s);
                }
            }
        }
    }
    fn val(v: &Val, s: &mut Seen) {
        match v {
            | Val::Var(_) | Val::Int(_) | Val::Str(_) | Val::Unit => {}
            | Val::Tuple(vs) => vs.iter().for_each(|v| val(v, s)),
            | Val::Rec(fs) => fs.iter().for_each(|(_, v)| val(v, s)),
            | Val::Ctor { targs, arg, .. } => {
                if targs.iter().any(is_product) {
                    s.product_argument = true;
                }
                targs.iter().for_each(|t| vty(t, s));
                val(arg, s);
            }
            | Val::Thunk(c, t) => {
                comp(c, s);
                cty(t, s);
            }
            | Val::Proj(head, _, _, t) => {
                val(head, s);
                vty(t, s);
            }
            | Val::Pack { witness, body } => {
                if is_product(witness) {
                    s.product_argument = true;
                }
                vty(witness, s);
                val(body, s);
            }
        }
    }
    fn comp(c: &Comp, s: &mut Seen) {
        match c {
            | Comp::Ret(v) | Comp::Force(v) | Comp::Exit(v) => val(v, s),
            | Comp::Do { pat: p, bindee, bindee_ty, tail } => {
                pat(p, s);
                comp(bindee, s);
                vty(bindee_ty, s);
                comp(tail, s);
            }
            | Comp::Let { pat: p, val: v, ty, tail } => {
                pat(p, s);
                val(v, s);
                vty(ty, s);
                comp(tail, s);
            }
            | Comp::Fn { pat: p, ty, body } => {
                pat(p, s);
                vty(ty, s);
                comp(body, s);
            }
            | Comp::App { fun, arg, arg_ty } => {
                comp(fun, s);
                val(arg, s);
                vty(arg_ty, s);
            }
            | Comp::Match { scrut, scrut_ty, arms } => {
                val(scrut, s);
                vty(scrut_ty, s);
                for (p, b) in arms {
                    pat(p, s);
                    comp(b, s);
                }
            }
            | Comp::Comatch { arms, .. } => arms.iter().for_each(|(_, b)| comp(b, s)),
            | Comp::Dtor { head, .. } => comp(head, s),
            | Comp::Fix { ty, body, .. } => {
                cty(ty, s);
                comp(body, s);
            }
            | Comp::TyFn { body, .. } => comp(body, s),
            | Comp::TyAppV { fun, arg } => {
                if is_product(arg) {
                    s.product_argument = true;
                }
                comp(fun, s);
                vty(arg, s);
            }
            | Comp::TyAppC { fun, arg } => {
                comp(fun, s);
                cty(arg, s);
            }
            | Comp::Prim(_, args) => args.iter().for_each(|a| val(a, s)),
            | Comp::If { a, b, res, then, els, .. } => {
                val(a, s);
                val(b, s);
                cty(res, s);
                comp(then, s);
                comp(els, s);
            }
            | Comp::WriteLine(v, k) => {
                val(v, s);
                comp(k, s);
            }
            | Comp::Monadic { body, ty, args } => {
                comp(body, s);
                cty(ty, s);
                for (a, t) in args {
                    val(a, s);
                    vty(t, s);
                }
            }
        }
    }
    let mut seen = Seen::default();
    for d in &program.decls.data {
        d.ctors.iter().for_each(|(_, t)| vty(t, &mut seen));
    }
    for d in &program.decls.codata {
        d.dtors.iter().for_each(|(_, t)| cty(t, &mut seen));
    }
    comp(&program.body, &mut seen);
    seen.variable_tail && seen.product_argument
}

fn run_program(cfg: &Cfg, index: u64, stats: &mut Stats) {
    let program = e1::generate::generate(cfg.seed, "C19", index);
    let mut tags = trigger_tags(&program);
    if layout_trigger(&program) {
        tags.push("abstract-tail-of-a-product-instantiated-at-a-product".into());
        stats.count("programs_with_the_layout_trigger");
    }
    stats.evaluations += 1;
    let reference = e1::eval::run(&program, 400_000);
    let RefEnd::Exit(code) = reference.end else {
        stats.inconclusive("reference did not reach an exit");
        return;
    };
    let mut rng = Rng::for_case(cfg.seed, "C19/style", index);
    let styles = styles_for(index);
    let style = &styles[rng.below(styles.len().min(4))];
    let sources = Sources::single(e1::print::program_text(&program, style, cfg.seed ^ index));
    for f in &program.features {
        stats.cover("formers", f);
    }
    if stats.samples.is_empty() {
        stats.sample(json!({"three_way_program_excerpt": sources.root_text().chars().rev().take(400).collect::<String>().chars().rev().collect::<String>(), "expected_exit": code}));
    }
    compare(stats, "programs", index, &sources, Some((&reference.stdout, code)), tags, program.features.len());
}

struct TagCase {
    name: &'static str,
    body: &'static str,
}

fn tag_cases() -> Vec<TagCase> {
    vec![
        TagCase { name: "ctor-use-in-reverse-order", body: "begin\ndef T : VType = data | +A : Unit | +B : Unit | +C : Unit end that\nlet show = { fn (t : T) => match t | +C() => ret \"c\" | +A() => ret \"a\" | +B() => ret \"b\" end } in\ndo x <- ! show +B();\ndo y <- ! show +C();\ndo z <- ! show +A();\n! write_line x { ! write_line y { ! write_line z { ! exit 0 } } }\nend\n" },
        TagCase { name: "dtor-use-in-reverse-order", body: "begin\ndef O : CType = codata | .a : Ret String | .b : Ret String | .c : Ret String end that\nlet o : Thk O = { comatch | .c => ret \"c\" | .a => ret \"a\" | .b => ret \"b\" end } in\ndo x <- ! o .b;\ndo y <- ! o .c;\ndo z <- ! o .a;\n! write_line x { ! write_line y { ! write_line z { ! exit 0 } } }\nend\n" },
        TagCase { name: "transparent-permuted-ctors-interchanged", body: "begin\nlet P : VType = data | +A : Unit | +B : Unit end that\nlet Q : VType = data | +B : Unit | +A : Unit end that\nlet show = { fn (t : P) => match t | +A() => ret \"a\" | +B() => ret \"b\" end } in\nlet q : Q = +B() in\ndo x <- ! show q;\nlet q2 : Q = +A() in\ndo y <- ! show q2;\n! write_line x { ! write_line y { ! exit 0 } }\nend\n" },
        TagCase { name: "transparent-permuted-dtors-interchanged", body: "begin\nlet P : CType = codata | .a : Ret String | .b : Ret String end that\nlet Q : CType = codata | .b : Ret String | .a : Ret String end that\nlet o : Thk Q = { comatch | .a => ret \"a\" | .b => ret \"b\" end } in\nlet use = { fn (p : Thk P) => do x <- ! p .a; do y <- ! p .b; do s <- ! append x y; ret s } in\ndo r <- ! use o;\n! write_line r { ! exit 0 }\nend\n" },
        TagCase { name: "payload-ctors-permuted-match-order", body: "begin\ndef T : VType = data | +A : Int64 | +B : String | +C : Int64 * Int64 end that\nlet f = { fn (t : T) => match t | +C(p) => let (x, y) = p in ! sub x y | +B(s) => ret 7 | +A(n) => ! add n 1 end } in\ndo a <- ! f +A(10);\ndo b <- ! f +B(\"s\");\ndo c <- ! f +C(30, 4);\ndo s1 <- ! to_string a; do s2 <- ! to_string b; do s3 <- ! to_string c;\n! write_line s1 { ! write_line s2 { ! write_line s3 { ! exit 0 } } }\nend\n" },
        TagCase { name: "nested-product-right-spine", body: "let p : Int64 * (Int64 * Int64) = (1, (2, 3)) in\nlet (a, rest) = p in\nlet (b, c) = rest in\nlet q = (a, b, c) in\nlet (x, y, z) = q in\ndo s <- ! sub x z;\ndo t <- ! to_string s;\n! write_line t { ! exit 0 }\n" },
        TagCase { name: "named-last-field-product", body: "let r = (fa = 1, fb = (2, 3), fc = (4, 5, 6)) in\nlet (p, q) = r/fb in\nlet (x, y, z) = r/fc in\ndo s <- ! sub q z;\ndo t <- ! to_string s;\n! write_line t { ! exit 0 }\n" },
    ]
}

fn run_tagcase(_cfg: &Cfg, index: u64, stats: &mut Stats) {
    let cases = tag_cases();
    let case = &cases[index as usize];
    let sources = Sources::single(format!("{}{}", crate::prelude::MiniPrelude::core().text(), case.body));
    stats.evaluations += 1;
    stats.cover("tag_cases", case.name);
    compare(stats, "tagcases", index, &sources, None, vec![case.name.to_string()], 5);
}

/* ------------------------------------------------------------------------------------------------------------
 * Product layout under type abstraction. A product value is seen at two types whenever it crosses a type
 * abstraction: the polymorphic side knows `Int64 * A`, its caller `Int64 * (Int64 * Int64)`. Products are
 * right-nested (`(7, 5, 0)` and `(7, (5, 0))` are one value), so whatever layout the lowering picks must be the same
 * on both sides. Each case builds a product on one side of an abstraction and takes it apart on the other, with a
 * random prefix, a random position of the abstract component and a random instantiation; the exit code is a digit
 * string of the components read back, so that a read from the wrong field is seen as well as a stuck machine.
 * ------------------------------------------------------------------------------------------------------------ */

fn run_layout(cfg: &Cfg, index: u64, stats: &mut Stats) {
    let mut rng = Rng::for_case(cfg.seed, "C19/layouts", index);
    // the instantiation: a type, a value of it, a pattern reading it back into the variables `names`
    let inst = rng.below(6);
    let (inst_ty, inst_val, inst_pat, inst_vars): (&str, &str, &str, Vec<&str>) = match inst {
        | 0 => ("Int64", "5", "p0", vec!["p0"]),
        | 1 => ("(Int64 * Int64)", "(5, 3)", "(p0, p1)", vec!["p0", "p1"]),
        | 2 => ("(Int64 * Int64 * Int64)", "(5, 3, 2)", "(p0, p1, p2)", vec!["p0", "p1", "p2"]),
        | 3 => ("(Int64 * (Int64 * Int64))", "(5, (3, 2))", "(p0, (p1, p2))", vec!["p0", "p1", "p2"]),
        | 4 => ("((Int64 * Int64) * Int64)", "((5, 3), 2)", "((p0, p1), p2)", vec!["p0", "p1", "p2"]),
        | _ => ("Unit", "()", "()", vec![]),
    };
    let prefix = 1 + rng.below(2); // concrete Int64 fields before
    let suffix = rng.below(2); // concrete Int64 fields after: 0 puts the abstract component in tail position
    let direction = rng.below(4);
    let mechanism = rng.below(3);
    let fields_ty = |a: &str| -> String {
        let mut v: Vec<String> = (0..prefix).map(|_| "Int64".to_string()).collect();
        v.push(a.to_string());
        v.extend((0..suffix).map(|_| "Int64".to_string()));
        v.join(" * ")
    };
    let fields_val = |a: &str| -> String {
        let mut v: Vec<String> = (0..prefix).map(|i| format!("{}", 7 + i)).collect();
        v.push(a.to_string());
        v.extend((0..suffix).map(|i| format!("{}", 1 + i)));
        format!("({})", v.join(", "))
    };
    let fields_pat = |a: &str| -> String {
        let mut v: Vec<String> = (0..prefix).map(|i| format!("a{i}")).collect();
        v.push(a.to_string());
        v.extend((0..suffix).map(|i| format!("z{i}")));
        format!("({})", v.join(", "))
    };
    let mut read: Vec<String> = (0..prefix).map(|i| format!("a{i}")).collect();
    read.extend(inst_vars.iter().map(|s| s.to_string()));
    read.extend((0..suffix).map(|i| format!("z{i}")));
    // exit code: fold the components read back into one number (small digits, at most 6 of them)
    let mut fold = String::new();
    fold.push_str("do acc <- ret 0;\n");
    for v in &read {
        fold.push_str(&format!("do acc <- ! mul acc 3;\ndo acc <- ! add acc {v};\n"));
    }
    fold.push_str("! exit acc\n");
    let abs_ty = fields_ty("A");
    let conc_ty = fields_ty(inst_ty);
    let (head, intro, elim) = match mechanism {
        // definitions with a type parameter
        | 0 => ("def", format!("def ! build (A : VType) (a : A) : Ret ({abs_ty}) = ret {} that\n", fields_val("a")), format!("def ! part (A : VType) (p : {abs_ty}) : Ret A = let {} = p in ret a that\n", fields_pat("a"))),
        // thunks of type abstractions bound with `let`
        | 1 => ("thunk", format!("let build = {{ fn (A : VType) (a : A) => ret ({} : {abs_ty}) }} in\n", fields_val("a")), format!("let part = {{ fn (A : VType) (p : {abs_ty}) => let {} = p in ret a }} in\n", fields_pat("a"))),
        // the polymorphic side passed as an argument (a rank-2 parameter)
        | _ => ("rank2", format!("let build = {{ fn (A : VType) (a : A) => ret ({} : {abs_ty}) }} in\n", fields_val("a")), format!("let part = {{ fn (A : VType) (p : {abs_ty}) => let {} = p in ret a }} in\n", fields_pat("a"))),
    };
    let body = match direction {
        // built under the abstraction, taken apart at the instance
        | 0 => format!("{intro}do p <- ! build {inst_ty} {inst_val};\nlet {} = p in\n{fold}", fields_pat(inst_pat)),
        // built at the instance, taken apart under the abstraction (the abstract component comes back)
        | 1 => {
            let back: Vec<String> = inst_vars.iter().map(|s| s.to_string()).collect();
            let mut f = String::from("do acc <- ret 0;\n");
            for v in &back {
                f.push_str(&format!("do acc <- ! mul acc 3;\ndo acc <- ! add acc {v};\n"));
            }
            f.push_str("! exit acc\n");
            format!("{elim}do r <- ! part {inst_ty} ({} : {conc_ty});\nlet {inst_pat} = r in\n{f}", fields_val(inst_val))
        }
        // built and taken apart under the abstraction (control: one side only)
        | 2 => format!("{intro}{elim}do p <- ! build {inst_ty} {inst_val};\ndo r <- ! part {inst_ty} p;\nlet {inst_pat} = r in\n{}", {
            let mut f = String::from("do acc <- ret 0;\n");
            for v in &inst_vars {
                f.push_str(&format!("do acc <- ! mul acc 3;\ndo acc <- ! add acc {v};\n"));
            }
            f.push_str("! exit acc\n");
            f
        }),
        // built at the instance, stored, and taken apart at the instance (control: no abstraction crossed)
        | _ => format!("let p : {conc_ty} = {} in\nlet {} = p in\n{fold}", fields_val(inst_val), fields_pat(inst_pat)),
    };
    let text = if head == "def" || direction == 3 { format!("begin\n{body}end\n") } else { body.clone() };
    let sources = Sources::single(format!("{}{}", crate::prelude::MiniPrelude::core().text(), text));
    stats.evaluations += 1;
    let crossing = direction < 2;
    let abstract_in_tail = suffix == 0;
    let product_instance = (1..=4).contains(&inst);
    let mut tags = vec![];
    if crossing && abstract_in_tail && product_instance {
        tags.push("abstract-tail-of-a-product-instantiated-at-a-product".to_string());
    }
    tags.push(format!("{head}/{}", ["built-under-abstraction", "taken-apart-under-abstraction", "both-under-abstraction", "no-abstraction"][direction]));
    stats.cover("layout_cases", &format!("{head} dir{direction} inst{inst} prefix{prefix} suffix{suffix}"));
    compare(stats, "layouts", index, &sources, None, tags, 5);
}
