//! Hand-written confusion catalogue shared by C01 (accepted ones are run under the step monitor) and
//! C03 (cases with a definite expected verdict): sealing, existential packages, generativity, similar-but-
//! different data/codata/product types in several use contexts.

use crate::pipeline::Sources;
use crate::prelude::MiniPrelude;

#[derive(Clone, Copy, Debug, PartialEq, Eq)]
pub enum Expect {
    Accept,
    Reject,
    /// the rules do not decide it (inference strength); C01 only judges it if accepted
    Either,
}

#[derive(Clone, Debug)]
pub struct Case {
    pub name: String,
    pub expect: Expect,
    pub body: String,
}

impl Case {
    pub fn sources(&self) -> Sources {
        Sources::single(format!("{}{}", MiniPrelude::core().text(), self.body))
    }
}

pub struct Ty {
    pub name: &'static str,
    pub decl: &'static str,
    pub ty: &'static str,
    pub value: &'static str,
    /// computation of type OS using variable `x`
    pub consume: &'static str,
}

fn case(name: &str, expect: Expect, body: &str) -> Case {
    Case { name: name.to_string(), expect, body: body.to_string() }
}

/// `consume` gets stuck (or misbehaves) if handed a value of the wrong shape.
pub fn cases() -> Vec<Case> {
    let mut v = Vec::new();
    use Expect::*;
    // Similar-but-different types T1 (produced) / T2 (consumed), each with a producer value and a consumer
    // that eliminates its argument in a way that gets stuck on the other shape.
    let tys = [
        Ty { name: "bool2", decl: "def B2 : VType = data | +T : Unit | +F : Unit end that", ty: "B2", value: "+F()", consume: "match x | +T() => ! exit 1 | +F() => ! exit 0 end" },
        Ty { name: "bool3", decl: "def B3 : VType = data | +T : Unit | +F : Unit | +M : Unit end that", ty: "B3", value: "+M()", consume: "match x | +T() => ! exit 1 | +F() => ! exit 2 | +M() => ! exit 0 end" },
        Ty { name: "bool2-renamed", decl: "def R2 : VType = data | +T : Unit | +G : Unit end that", ty: "R2", value: "+G()", consume: "match x | +T() => ! exit 1 | +G() => ! exit 0 end" },
        Ty { name: "bool2-payload", decl: "def P2 : VType = data | +T : Unit | +F : Int64 end that", ty: "P2", value: "+F(5)", consume: "match x | +T() => ! exit 1 | +F(n) => do m <- ! add n 1; ! exit 0 end" },
        Ty { name: "bool2-transparent", decl: "let TB2 : VType = data | +T : Unit | +F : Unit end that", ty: "TB2", value: "+F()", consume: "match x | +T() => ! exit 1 | +F() => ! exit 0 end" },
        Ty { name: "tbool3", decl: "let TB3 : VType = data | +T : Unit | +F : Unit | +M : Unit end that", ty: "TB3", value: "+M()", consume: "match x | +T() => ! exit 1 | +F() => ! exit 2 | +M() => ! exit 0 end" },
        Ty { name: "tbool2-renamed", decl: "let TR2 : VType = data | +T : Unit | +G : Unit end that", ty: "TR2", value: "+G()", consume: "match x | +T() => ! exit 1 | +G() => ! exit 0 end" },
        Ty { name: "tbool2-payload", decl: "let TP2 : VType = data | +T : Unit | +F : Int64 end that", ty: "TP2", value: "+F(5)", consume: "match x | +T() => ! exit 1 | +F(n) => do m <- ! add n 1; ! exit 0 end" },
        Ty { name: "tbool2-copy", decl: "let TC2 : VType = data | +T : Unit | +F : Unit end that", ty: "TC2", value: "+F()", consume: "match x | +T() => ! exit 1 | +F() => ! exit 0 end" },
        Ty { name: "tbool2-permuted", decl: "let TQ2 : VType = data | +F : Unit | +T : Unit end that", ty: "TQ2", value: "+F()", consume: "match x | +T() => ! exit 1 | +F() => ! exit 0 end" },
        Ty { name: "tobject2", decl: "let TO2 : CType = codata | .a : Ret Int64 | .b : OS end that", ty: "(Thk TO2)", value: "{ comatch | .a => ret 1 | .b => ! exit 0 end }", consume: "do n <- ! x .a; ! x .b" },
        Ty { name: "tobject3", decl: "let TO3 : CType = codata | .a : Ret Int64 | .b : OS | .c : Ret String end that", ty: "(Thk TO3)", value: "{ comatch | .a => ret 1 | .b => ! exit 0 | .c => ret \"s\" end }", consume: "do s <- ! x .c; ! write_line s { ! x .b }" },
        Ty { name: "tobject2-retyped", decl: "let TU2 : CType = codata | .a : Ret String | .b : OS end that", ty: "(Thk TU2)", value: "{ comatch | .a => ret \"s\" | .b => ! exit 0 end }", consume: "do s <- ! x .a; ! write_line s { ! x .b }" },
        Ty { name: "tobject2-permuted", decl: "let TV2 : CType = codata | .b : OS | .a : Ret Int64 end that", ty: "(Thk TV2)", value: "{ comatch | .a => ret 1 | .b => ! exit 0 end }", consume: "do n <- ! x .a; ! x .b" },
        Ty { name: "pair", decl: "", ty: "(Int64 * Int64)", value: "(1, 2)", consume: "let (a, b) = x in do m <- ! add a b; ! exit 0" },
        Ty { name: "triple", decl: "", ty: "(Int64 * Int64 * Int64)", value: "(1, 2, 3)", consume: "let (a, b, c) = x in do m <- ! add a c; ! exit 0" },
        Ty { name: "pair-str", decl: "", ty: "(Int64 * String)", value: "(1, \"s\")", consume: "let (a, b) = x in ! write_line b { ! exit 0 }" },
        Ty { name: "named-pair", decl: "", ty: "((fx :: Int64) * (fy :: Int64))", value: "(fx = 1, fy = 2)", consume: "do m <- ! add (x/fx) (x/fy); ! exit 0" },
        Ty { name: "named-pair-renamed", decl: "", ty: "((fx :: Int64) * (fz :: Int64))", value: "(fx = 1, fz = 2)", consume: "do m <- ! add (x/fx) (x/fz); ! exit 0" },
        Ty { name: "int", decl: "", ty: "Int64", value: "7", consume: "do m <- ! add x 1; ! exit 0" },
        Ty { name: "string", decl: "", ty: "String", value: "\"s\"", consume: "! write_line x { ! exit 0 }" },
        Ty { name: "unit", decl: "", ty: "Unit", value: "()", consume: "let () = x in ! exit 0" },
        Ty { name: "thunk-ret", decl: "", ty: "(Thk (Ret Int64))", value: "{ ret 1 }", consume: "do n <- ! x; do m <- ! add n 1; ! exit 0" },
        Ty { name: "thunk-fn", decl: "", ty: "(Thk (Int64 -> Ret Int64))", value: "{ fn (n : Int64) => ret n }", consume: "do n <- ! x 4; do m <- ! add n 1; ! exit 0" },
        Ty { name: "thunk-os", decl: "", ty: "(Thk OS)", value: "{ ! exit 0 }", consume: "! x" },
        Ty { name: "object2", decl: "def O2 : CType = codata | .a : Ret Int64 | .b : OS end that", ty: "(Thk O2)", value: "{ comatch | .a => ret 1 | .b => ! exit 0 end }", consume: "do n <- ! x .a; ! x .b" },
        Ty { name: "object3", decl: "def O3 : CType = codata | .a : Ret Int64 | .b : OS | .c : Ret String end that", ty: "(Thk O3)", value: "{ comatch | .a => ret 1 | .b => ! exit 0 | .c => ret \"s\" end }", consume: "do s <- ! x .c; ! write_line s { ! x .b }" },
        Ty { name: "object2-retyped", decl: "def Q2 : CType = codata | .a : Ret String | .b : OS end that", ty: "(Thk Q2)", value: "{ comatch | .a => ret \"s\" | .b => ! exit 0 end }", consume: "do s <- ! x .a; ! write_line s { ! x .b }" },
    ];
    // use contexts: how a T1 value reaches a T2 consumer
    for (i, t1) in tys.iter().enumerate() {
        for (j, t2) in tys.iter().enumerate() {
            let same = i == j;
            // the sealed / transparent bool2 pair is the one structurally equal but nominally different pair
            // a positional tuple at a labelled product (and vice versa) is not decided by the documented rules
            let mixed_labels = (t1.name == "pair" && t2.name.starts_with("named-pair")) || (t2.name == "pair" && t1.name.starts_with("named-pair"));
            // transparent types with the same constructors/destructors at the same types are structurally equal
            let equal_group = |n: &str| -> u8 {
                match n {
                    | "bool2-transparent" | "tbool2-copy" | "tbool2-permuted" => 1,
                    | "tobject2" | "tobject2-permuted" => 2,
                    | _ => 0,
                }
            };
            let structurally_equal = equal_group(t1.name) != 0 && equal_group(t1.name) == equal_group(t2.name);
            let permuted = structurally_equal && (t1.name.ends_with("permuted") || t2.name.ends_with("permuted"));
            let expect = if same {
                Accept
            } else if mixed_labels || permuted {
                Either
            } else if structurally_equal {
                Accept
            } else {
                Reject
            };
            let decls = if same || t1.decl == t2.decl { t1.decl.to_string() } else { format!("{}\n{}", t1.decl, t2.decl) };
            let contexts: Vec<(&str, String)> = vec![
                ("argument", format!("let f = {{ fn (x : {}) => {} }} in\n! f {}", t2.ty, t2.consume, annotate(t1))),
                ("annotation", format!("let y : {} = {} in\nlet x : {} = y in\n{}", t1.ty, t1.value, t2.ty, t2.consume)),
                ("do-bindee", format!("let g = {{ ret {} }} in\ndo x <- ! g;\n(fn (x : {}) => {}) x", annotate(t1), t2.ty, t2.consume)),
                ("through-id", format!(
                    "let id = {{ fn (X : VType) (z : X) => ret z }} in\ndo x <- ! id {} {};\n{}",
                    t2.ty,
                    annotate(t1),
                    t2.consume
                )),
                ("thunked", format!("let t : Thk (Ret {}) = {{ ret {} }} in\ndo x <- ! t;\n{}", t2.ty, annotate(t1), t2.consume)),
                ("tuple-component", format!("let p : Int64 * {} = (0, {}) in\nlet (_, x) = p in\n{}", t2.ty, annotate(t1), t2.consume)),
            ];
            for (cname, code) in contexts {
                let body = if decls.trim().is_empty() { code } else { format!("begin\n{}\n{}\nend\n", decls, code) };
                v.push(Case { name: format!("confuse/{}-as-{}/{}", t1.name, t2.name, cname), expect, body });
            }
        }
    }
    // sealing: the representation of a def-sealed type is not available outside its definition
    v.push(case("seal/def-is-abstract", Reject, "begin\ndef S : VType = Int64 that\nlet x : S = 5 in\n! exit x\nend\n"));
    v.push(case("seal/let-is-transparent", Accept, "begin\nlet S : VType = Int64 that\nlet x : S = 5 in\n! exit x\nend\n"));
    v.push(case("seal/def-data-vs-structural", Reject, "begin\ndef B : VType = data | +T : Unit | +F : Unit end that\nlet x : B = +T() in\nlet y : data | +T : Unit | +F : Unit end = x in\nmatch y | +T() => ! exit 0 | +F() => ! exit 1 end\nend\n"));
    v.push(case("seal/let-data-vs-structural", Accept, "begin\nlet B : VType = data | +T : Unit | +F : Unit end that\nlet x : B = +T() in\nlet y : data | +T : Unit | +F : Unit end = x in\nmatch y | +T() => ! exit 0 | +F() => ! exit 1 end\nend\n"));
    v.push(case("seal/two-defs-same-body", Reject, "begin\ndef A : VType = data | +T : Unit end that\ndef B : VType = data | +T : Unit end that\nlet x : A = +T() in\nlet y : B = x in\n! exit 0\nend\n"));
    v.push(case("seal/def-codata-vs-structural", Reject, "begin\ndef O : CType = codata | .a : Ret Int64 end that\nlet x : Thk O = { comatch | .a => ret 1 end } in\nlet y : Thk (codata | .a : Ret Int64 end) = x in\ndo n <- ! y .a; ! exit n\nend\n"));
    // existential packages
    let counter = "let Counter = exists (T : VType) . (init :: T) * (step :: Thk (T -> Ret T)) * (read :: Thk (T -> Ret Int64)) that\nlet counter : Counter = (Int64, (init = 10, step = { fn (n : Int64) => ! add n 5 }, read = { fn (n : Int64) => ret n })) that\n";
    v.push(case("exists/open-and-use", Accept, &format!("begin\n{counter}let (T, (/init; /step; /read)) = counter in\ndo s <- ! step init;\ndo n <- ! read s;\n! exit n\nend\n")));
    v.push(case("exists/witness-is-abstract", Reject, &format!("begin\n{counter}let (T, (/init; /step; /read)) = counter in\ndo n <- ! add init 1;\n! exit n\nend\n")));
    v.push(case("exists/literal-at-abstract", Reject, &format!("begin\n{counter}let (T, (/init; /step; /read)) = counter in\ndo s <- ! step 3;\ndo n <- ! read s;\n! exit n\nend\n")));
    v.push(case("exists/two-openings-differ", Reject, &format!("begin\n{counter}let (T1, (init = i1, step = s1, read = r1)) = counter in\nlet (T2, (init = i2, step = s2, read = r2)) = counter in\ndo s <- ! s1 i2;\ndo n <- ! r1 s;\n! exit n\nend\n")));
    v.push(case("exists/one-opening-shared", Accept, &format!("begin\n{counter}let (T1, (init = i1, step = s1, read = r1)) = counter in\ndo a <- ! s1 i1;\ndo b <- ! s1 a;\ndo n <- ! r1 b;\n! exit n\nend\n")));
    v.push(case("exists/witness-escapes-in-result", Reject, &format!("begin\n{counter}do x <- (let (T, (/init; /step; /read)) = counter in ret init);\n! exit 0\nend\n")));
    v.push(case("exists/wrong-witness-package", Reject, "begin\nlet Counter = exists (T : VType) . (init :: T) * (read :: Thk (T -> Ret Int64)) that\nlet counter : Counter = (String, (init = 10, read = { fn (n : Int64) => ret n })) that\n! exit 0\nend\n"));
    // polymorphism
    v.push(case("forall/instantiate-wrong-kind", Reject, "let id = { fn (X : VType) (z : X) => ret z } in\ndo x <- ! id (Ret Int64) 5;\n! exit 0\n"));
    v.push(case("forall/ctype-instantiated-with-vtype", Reject, "let run = { fn (R : CType) (z : Thk R) => ! z } in\n! run Int64 { ! exit 0 }\n"));
    v.push(case("forall/use-at-abstract-type", Reject, "let bad = { fn (X : VType) (z : X) => ! add z 1 } in\ndo x <- ! bad Int64 5;\n! exit x\n"));
    v.push(case("forall/ok", Accept, "let id = { fn (X : VType) (z : X) => ret z } in\ndo x <- ! id Int64 5;\n! exit x\n"));
    v.push(case("forall/alias-wrong-arity", Reject, "begin\nlet Pair (A : VType) (B : VType) : VType = A * B that\nlet p : Pair Int64 = (1, 2) in\n! exit 0\nend\n"));
    v.push(case("forall/alias-ok", Accept, "begin\nlet Pair (A : VType) (B : VType) : VType = A * B that\nlet p : Pair Int64 String = (1, \"s\") in\nlet (a, b) = p in\n! exit a\nend\n"));
    // sorts
    v.push(case("sort/thunk-vs-computation", Reject, "let f : Thk (Ret Int64) = ret 1 in\n! exit 0\n"));
    v.push(case("sort/ret-of-computation", Reject, "do x <- ret (ret 1);\n! exit 0\n"));
    v.push(case("sort/value-as-body", Reject, "let f = { fn (n : Int64) => n } in\n! exit 0\n"));
    v.push(case("sort/hole-left-in-annotation", Either, "let x : _ = 5 in\n! exit x\n"));
    // binders are one-arm matches: a constructor pattern in a let / do / fn / fix binder does not cover its type
    let opt = "def Opt : VType = data | +None : Unit | +Some : Int64 end that\n";
    v.push(case("binder/refutable-let", Reject, &format!("begin\n{opt}let v : Opt = +None() in\nlet +Some(x) = v in\n! exit x\nend\n")));
    v.push(case("binder/refutable-do", Reject, &format!("begin\n{opt}do +Some(x) <- ret (+None() : Opt);\n! exit x\nend\n")));
    v.push(case("binder/refutable-fn", Reject, &format!("begin\n{opt}(fn (+Some(x) : Opt) => ! exit x) +None()\nend\n")));
    v.push(case("binder/refutable-nested-in-tuple", Reject, &format!("begin\n{opt}let (a, +Some(x)) : Int64 * Opt = (1, +None()) in\n! exit x\nend\n")));
    v.push(case("binder/refutable-alias", Reject, &format!("begin\n{opt}let v : Opt = +None() in\nlet (w; +Some(_)) = v in\n! exit 0\nend\n")));
    v.push(case("binder/single-constructor-is-irrefutable", Accept, "begin\ndef Box : VType = data | +Box : Int64 end that\nlet +Box(x) = (+Box(7) : Box) in\n! exit x\nend\n"));
    // … and so are the binders of value-level terms (pure functions `A -> B`, value-level `let`)
    v.push(case("binder/refutable-pure-function", Reject, &format!("begin\n{opt}let unwrap : Opt -> Int64 = fn (+Some(n) : Opt) => n that\nlet code : Int64 = unwrap (+None() : Opt) that\n! exit code\nend\n")));
    v.push(case("binder/refutable-value-let", Reject, &format!("begin\n{opt}let v : Opt = +None() that\nlet code : Int64 = (let +Some(n) = v in n) that\n! exit code\nend\n")));
    v.push(case("binder/refutable-value-let-in-pure-function", Reject, &format!("begin\n{opt}let f : Opt -> Int64 = fn (o : Opt) => (let +Some(n) = o in n) that\nlet code : Int64 = f (+None() : Opt) that\n! exit code\nend\n")));
    v.push(case("binder/irrefutable-pure-function", Accept, "begin\nlet fst : Int64 * Int64 -> Int64 = fn ((a, b) : Int64 * Int64) => a that\nlet code : Int64 = fst (3, 4) that\n! exit code\nend\n"));
    // a data / codata type names each constructor / destructor once: with a repeated name the introduction and the
    // elimination may look at different arms
    v.push(case("decl/duplicate-constructor-let", Reject, "begin\nlet D = data | +A : Int64 | +A : String end that\nlet d : D = +A(7) that\nmatch d | +A(s) => ! write_line s { ! exit 0 } end\nend\n"));
    v.push(case("decl/duplicate-constructor-def", Reject, "begin\ndef D : VType = data | +A : String | +A : Int64 end that\nlet d : D = +A(\"s\") that\nmatch d | +A(n) => do m <- ! add n 1; ! exit m end\nend\n"));
    v.push(case("decl/duplicate-constructor-same-payload", Reject, "begin\nlet D = data | +A : Int64 | +B : Unit | +A : Int64 end that\nlet d : D = +A(7) that\nmatch d | +A(n) => ! exit n | +B() => ! exit 1 end\nend\n"));
    v.push(case("decl/duplicate-destructor-let", Reject, "begin\nlet K = codata | .a : Ret Int64 | .a : Ret String end that\nlet o : Thk K = { comatch | .a => ret 1 end } that\ndo s <- ! o .a;\n! write_line s { ! exit 0 }\nend\n"));
    v.push(case("decl/duplicate-destructor-def", Reject, "begin\ndef K : CType = codata | .a : Ret String | .a : Ret Int64 end that\nlet o : Thk K = { comatch | .a => ret \"s\" end } that\ndo n <- ! o .a;\ndo m <- ! add n 1;\n! exit m\nend\n"));
    // (the two cases above are also ill-typed at their use; these two are well-typed but for the repeated name, whichever
    // arm a look-up takes)
    v.push(case("decl/duplicate-destructor-first-arm-used-consistently", Reject, "begin\nlet K = codata | .a : Ret Int64 | .a : Ret Unit end that\nlet o : Thk K = { comatch | .a => ret 0 end } that\ndo n <- ! o .a;\n! exit n\nend\n"));
    v.push(case("decl/duplicate-destructor-same-type", Reject, "begin\ndef K : CType = codata | .a : Ret Int64 | .b : OS | .a : Ret Int64 end that\nlet o : Thk K = { comatch | .a => ret 0 | .b => ! exit 1 end } that\ndo n <- ! o .a;\n! exit n\nend\n"));
    // a binder is a value binder: `_` is no more a pattern at a computation type than `x` is
    v.push(case("binder/wildcard-at-computation-type", Reject, "let f = { fn (_ : Ret Int64) => ret 0 } in\n! exit 0\n"));
    v.push(case("binder/variable-at-computation-type", Reject, "let f = { fn (x : Ret Int64) => ret 0 } in\n! exit 0\n"));
    v.push(case("binder/wildcard-at-computation-type-in-let", Reject, "let t = { ret 1 } in\nlet (_ : Ret Int64) = t in\n! exit 0\n"));
    // `fix (x : T) => M` binds a thunk of M: T must be `Thk B`, also where the fix synthesises its type
    v.push(case("fix/binder-not-a-thunk-in-synthesis", Reject, "begin\ndef ! weird (F : CType -> VType) (use : Thk (F (Int64 -> Ret Int64) -> Ret Int64)) : Ret Int64 =\n  (fix (self : F (Int64 -> Ret Int64)) => fn (x : Int64) => ! use self) 5\nthat\nlet Const (B : CType) = Int64 that\ndo n <- ! weird Const { fn (i : Int64) => ! add i 1 };\n! exit n\nend\n"));
    v.push(case("fix/binder-thunk-in-synthesis-ok", Accept, "do n <- (fix (self : Thk (Int64 -> Ret Int64)) => fn (x : Int64) => ret x) 5;\n! exit n\n"));
    // two introductions of one `forall` type (shared through an alias) bind two different type variables
    v.push(case("forall/alias-introduced-twice-nested", Reject, "begin\nlet T = forall (A : VType) . A -> Thk (A -> OS) -> OS that\ndef ! outer : T = fn A x k =>\n  let inner : Thk T = { fn B y k2 => ! k2 x } in\n  ! inner String \"boom\" { fn (s : String) => ! write_line s { ! exit 0 } }\nthat\n! outer Int64 7 { fn (n : Int64) => ! exit n }\nend\n"));
    v.push(case("forall/alias-introduced-twice-nested-ok", Accept, "begin\nlet T = forall (A : VType) . A -> Thk (A -> OS) -> OS that\ndef ! outer : T = fn A x k =>\n  let inner : Thk T = { fn B y k2 => ! k2 y } in\n  ! inner String \"fine\" { fn (s : String) => ! write_line s { ! k x } }\nthat\n! outer Int64 7 { fn (n : Int64) => ! exit n }\nend\n"));
    // a rigid variable of an enclosing introduction is not the bound variable of another quantifier of the same alias:
    // `forall V . A -> Ret A` (A rigid) is not `forall W . W -> Ret W`
    let endo = "let Endo = forall (W : VType) . W -> Ret W that\ndef ! at_int (endo : Thk Endo) : Ret Int64 =\n  do n <- ! endo Int64 41;\n  ! add n 1\nthat\n";
    v.push(case("forall/rigid-variable-under-other-binder-of-alias", Reject, &format!("begin\n{endo}def ! outer : Endo =\n  fn (A : VType) (a : A) =>\n    let ! stuck : forall (V : VType) . A -> Ret A = fn (V : VType) (x : A) => ret a in\n    do m <- ! at_int stuck;\n    ret a\nthat\ndo s <- ! outer String \"not a number\";\n! exit 0\nend\n")));
    v.push(case("forall/bound-variable-under-other-binder-of-alias-ok", Accept, &format!("begin\n{endo}def ! outer : Endo =\n  fn (A : VType) (a : A) =>\n    let ! poly : forall (V : VType) . V -> Ret V = fn (V : VType) (x : V) => ret x in\n    do m <- ! at_int poly;\n    ret a\nthat\ndo s <- ! outer String \"not a number\";\n! exit 0\nend\n")));
    // a type function applied to itself: the two quantifiers it produces are different binders
    let ff = "let F (X : CType) = forall (Y : VType) . Y -> X that\ndef ! f : F (F (Ret Int64)) = fn (A : VType) (a : A) (B : VType) (b : B) => ret 0 that\n";
    v.push(case("forall/type-function-applied-to-itself-ok", Accept, &format!("begin\n{ff}do n <- ! f String \"a\" Int64 5;\n! exit n\nend\n")));
    v.push(case("forall/type-function-applied-to-itself-wrong-argument", Reject, &format!("begin\n{ff}do n <- ! f String \"a\" Int64 \"b\";\n! exit n\nend\n")));
    // an opened witness does not leave its scope inside a locally sealed type either
    v.push(case("exists/witness-escapes-through-local-def", Reject, "begin\ndef packed : exists (X : VType) . X = (Int64, 0) that\ndo leaked <- (match packed | (X, x) => def D = data | +Mk : X end in ret (+Mk(x) : D) end);\n! exit 0\nend\n"));
    v.push(case("exists/witness-escapes-through-local-let", Reject, "begin\ndef packed : exists (X : VType) . X = (Int64, 0) that\ndo leaked <- (match packed | (X, x) => let D = data | +Mk : X end in ret (+Mk(x) : D) end);\n! exit 0\nend\n"));
    // typed term holes: accepted by design (their types are reported), never executable
    v.push(case("hole/term-hole-value", Either, "let x : Int64 = _ in\n! exit x\n"));
    v.push(case("hole/term-hole-computation", Either, "let x : Thk OS = { _ } in\n! x\n"));
    v.push(case("hole/term-hole-unreached", Either, "let x : Int64 = _ in\n! exit 0\n"));
    v.push(case("sort/unsolved-hole-argument", Either, "let id = { fn (X : VType) (z : X) => ret z } in\ndo x <- ! id _ 5;\n! exit x\n"));
    v
}

fn annotate(t: &Ty) -> String {
    format!("({} : {})", t.value, t.ty)
}

