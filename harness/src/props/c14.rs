//! C14 — formatting is idempotent and canonical.

use crate::core::*;
use crate::e2::{self, mutate, scan};
use crate::props::fmtwork;
use crate::util::proc;
use crate::util::rng::Rng;
use crate::util::scratch::Scratch;
use serde_json::json;

pub fn def() -> PropertyDef {
    PropertyDef {
        id: "C14",
        title: "Formatting is idempotent and canonical",
        generators,
        extra,
        rule: "workload: the C12 (source, options) pairs. Oracle, byte equality: fmt(fmt(x)) = fmt(x) and a third application; the output \
               ends with exactly one newline and has no whitespace-only lines with trailing blanks; for x' obtained from x by horizontal \
               re-spacing (line structure kept): fmt(x') = fmt(x); CLI: `zydeco fmt --check f` exits 1 exactly when a following `zydeco fmt f` \
               changes the bytes, and a second --check exits 0. distinct = (source hash, options); non-trivial = >= 10 code tokens and the \
               source formats.",
        assumptions: &["sources related by the re-spacing mutator differ only in runs of blanks between tokens on one line"],
        floor: (1_000, 30_000),
        on_case_death: |_, _, _, death| Death::Inconclusive(format!("formatter did not finish ({death}); totality is C12's subject")),
    }
}

fn generators(cfg: &Cfg) -> Vec<Generator> {
    // every case is formatted up to three times and re-formatted in four variants: the thorough tier takes a third of the
    // shared workload's cases (every third one, the offset moving with the seed), or it runs for more than two hours
    let total = match cfg.tier {
        | Tier::Quick => fmtwork::total(cfg),
        | Tier::Thorough => fmtwork::total(cfg) / 3,
    };
    vec![Generator { name: "format", total, run: run_format, case_cpu_limit_s: 3 * fmtwork::CPU_BUDGET_S }]
}

fn first_difference(a: &str, b: &str) -> String {
    let at = a.bytes().zip(b.bytes()).position(|(x, y)| x != y).unwrap_or(a.len().min(b.len()));
    let line = a[..at.min(a.len())].matches('\n').count() + 1;
    let from = a[..at.min(a.len())].rfind('\n').map(|p| p + 1).unwrap_or(0);
    let excerpt = |s: &str| s.get(from..).unwrap_or("").chars().take(160).collect::<String>();
    format!("first difference at byte {} (line {}): {:?} vs {:?}", at, line, excerpt(a), excerpt(b))
}

fn run_format(cfg: &Cfg, index: u64, stats: &mut Stats) {
    let index = match cfg.tier {
        | Tier::Quick => index,
        | Tier::Thorough => (index * 3 + cfg.seed % 3).min(fmtwork::total(cfg) - 1),
    };
    let case = fmtwork::case(cfg, index);
    stats.evaluations += 1;
    if case.deep() {
        stats.count("deep_nesting_partition_skipped");
        return;
    }
    let input = case.input();
    let Ok(Ok(once)) = case.format(&input) else {
        stats.count("not_formatted");
        return;
    };
    stats.count("formatted");
    if scan::scan(&input).iter().filter(|t| t.is_code()).count() >= 10 {
        stats.nontrivial(format!("{}/{}", crate::util::rng::hash64(input.as_bytes()), case.options.describe()).as_bytes());
    }
    let fail = |stats: &mut Stats, signature: &str, problem: String, extra: serde_json::Value| {
        stats.violation(Violation {
            signature: signature.into(),
            tags: {
                let mut t = crate::props::c12::tags_for(&input);
                t.push(format!("layout:{}", ["preserve", "blank_lines", "ignore"][case.options.layout.min(2) as usize]));
                // a nested directive puts part of the source under the preserve policy
                if case.options.layout != 0 && input.contains("layout(preserve)") {
                    t.push("layout:preserve".to_string());
                }
                t.push(format!("parentheses:{}", ["minimal", "preserve"][case.options.parens.min(1) as usize]));
                if case.options.layout == 0 && case.options.width <= 40 {
                    t.push("preserve-at-width<=40".to_string());
                }
                // the input itself, for findings that are recorded by their specific input
                t.push(format!("input:{:016x}", crate::util::rng::hash64(input.as_bytes())));
                // an experiment on the input, for the open finding "a redundant group around a single atom is dropped by
                // the first pass, but punning and line breaking were decided as if it were there": the same source
                // without such groups (same desugared term) formats to a fixed point
                if signature.starts_with("formatting-not-idempotent") {
                    if let Some(stripped) = strip_atom_groups(&input) {
                        // (a source that parses but does not desugar is compared by its desugaring error)
                        let same = match (e2::desugared(&input), e2::desugared(&stripped)) {
                            | (Ok(a), Ok(b)) => a == b,
                            | _ => false,
                        };
                        if same {
                            if let Ok(Ok(first)) = case.format(&stripped) {
                                if matches!(case.format(&first), Ok(Ok(second)) if second == first) {
                                    t.push("fixed-point-without-groups-around-single-atoms".to_string());
                                }
                            }
                        }
                    }
                }
                // the redundant pair that the parenthesis leg added sits around a single atom
                if signature == "parenthesis-variant-formats-differently" {
                    if let Some(variant) = extra["variant_input"].as_str() {
                        let code = |s: &str| -> Vec<String> { scan::scan(s).iter().filter(|t| t.is_code()).map(|t| s[t.start..t.end].to_string()).collect() };
                        let plain = |s: &str| code(&strip_atom_groups(s).unwrap_or_else(|| s.to_string()));
                        // (groups around groups around an atom: strip until nothing changes)
                        let settle = |s: &str| -> Vec<String> {
                            let mut current = s.to_string();
                            for _ in 0..4 {
                                match strip_atom_groups(&current) {
                                    | Some(next) => current = next,
                                    | None => break,
                                }
                            }
                            code(&current)
                        };
                        let _ = plain;
                        if code(variant) != code(&input) && settle(variant) == settle(&input) {
                            t.push("variant-adds-a-group-around-a-single-atom".to_string());
                        }
                    }
                }
                t
            },
            generator: "format".into(),
            index,
            detail: json!({"case": case.describe(), "problem": problem, "input": input, "formatted_once": once, "more": extra}),
        });
    };
    // (2) trailing newline, no trailing blanks
    if !once.ends_with('\n') || once.ends_with("\n\n") {
        fail(stats, "output-does-not-end-with-exactly-one-newline", format!("output ends with {:?}", once.chars().rev().take(3).collect::<String>()), json!(null));
        return;
    }
    // a line the formatter itself left with blanks only (not part of the statement, but such a line is what a later pass
    // would strip): ASCII blanks only, and not inside a comment or a string literal, where every character is the author's
    {
        let tokens = e2::scan::scan(&once);
        let mut offset = 0usize;
        for (number, l) in once.split('\n').enumerate() {
            let (from, to) = (offset, offset + l.len());
            offset = to + 1;
            if l.is_empty() || !l.chars().all(|c| c == ' ' || c == '\t') {
                continue;
            }
            let inside_token = tokens.iter().any(|t| t.start < from && to < t.end && (t.is_comment() || matches!(t.kind, e2::scan::Kind::Str)));
            if !inside_token {
                fail(stats, "whitespace-only-line-with-blanks", format!("line {} of the output is {:?}", number + 1, l), json!(null));
                return;
            }
        }
    }
    // (1) idempotence, twice
    match case.format(&once) {
        | Ok(Ok(twice)) => {
            stats.count("idempotence_checked");
            if twice != once {
                // classify: do the two outputs differ in layout only (same code tokens and comments), or in tokens?
                let toks = |t: &str| crate::e2::scan::scan(t).iter().map(|k| k.text(t).trim_end().to_string()).collect::<Vec<_>>();
                let (t1, t2) = (toks(&once), toks(&twice));
                let class = if t1 == t2 {
                    "formatting-not-idempotent layout-only"
                } else if t2.len() < t1.len() {
                    // a removal-only rewrite (telescope merge, sugar) that only fires on the formatter's own output
                    "formatting-not-idempotent tokens-removed-on-second-pass"
                } else {
                    "formatting-not-idempotent tokens-changed"
                };
                fail(stats, class, first_difference(&once, &twice), json!({"formatted_twice": twice}));
                return;
            }
            match case.format(&twice) {
                | Ok(Ok(thrice)) if thrice != twice => {
                    fail(stats, "formatting-creeps-on-third-application", first_difference(&twice, &thrice), json!({"formatted_thrice": thrice}));
                    return;
                }
                | _ => {}
            }
        }
        | Ok(Err(e)) => {
            fail(stats, "formatted-output-does-not-parse", e, json!(null));
            return;
        }
        | Err(p) => {
            fail(stats, &format!("formatter-panic-on-own-output {}", p.site()), p.short(), json!(null));
            return;
        }
    }
    // (3) canonical under horizontal re-spacing
    let mut rng = Rng::for_case(cfg.seed, "C14/respace", index);
    let respaced = mutate::respace_horizontal(&input, &mut rng);
    // raw whitespace is retained, by design, inside `@[format(verbatim)]` regions: such sources are not comparable
    let has_verbatim = input.contains("verbatim");
    if respaced != input && !has_verbatim {
        if let Ok(Ok(other)) = case.format(&respaced) {
            stats.count("respacing_compared");
            if other != once {
                fail(stats, "spacing-variant-formats-differently", first_difference(&once, &other), json!({"respaced_input": respaced, "formatted_respaced": other}));
            }
        }
    }
    // (3b) canonical under redundant single-line parentheses (where the policy is to drop them) and (3c) under pun versus
    // explicit field spelling; a variant counts only if it parses and desugars to the same term
    if !has_verbatim {
        // (a nested `parentheses(preserve)` directive keeps every group by design)
        // (the continuation lines of a block comment that opens after code keep their offset from the opener's column:
        // parentheses written before the opener on its line move that column, so such sources are not comparable)
        let comment_after_code = e2::scan::scan(&input).iter().any(|t| {
            t.kind == e2::scan::Kind::BlockComment && input[t.start..t.end].contains('\n') && !input[..t.start].rsplit('\n').next().unwrap_or("").trim().is_empty()
        });
        if case.options.parens == 0 && !input.contains("parentheses(preserve)") && !comment_after_code {
            if let Some(variant) = mutate::add_redundant_parens(&input, &mut rng, true) {
                if fmtwork::same_desugared(&input, &variant) {
                    if let Ok(Ok(other)) = case.format(&variant) {
                        stats.count("redundant_parentheses_compared");
                        // by design (docs/proposals/formatting.md, "Minimal parenthesis formatting") a singleton group is
                        // retained when it is printed over several lines, which narrow widths force: only a variant
                        // whose output has the same lines is judged
                        // (a group printed over several lines shows as one more line that ends with its opener)
                        let openers = |t: &str| t.lines().filter(|l| l.trim_end().ends_with('(')).count();
                        let opens_multiline_group = openers(&other) > openers(&once);
                        if other != once && (other.lines().count() != once.lines().count() || opens_multiline_group) {
                            stats.count("redundant_parentheses_retained_as_multiline_group");
                        } else if other != once {
                            fail(stats, "parenthesis-variant-formats-differently", first_difference(&once, &other), json!({"variant_input": variant, "formatted_variant": other}));
                        }
                    }
                }
            }
        }
        if let Some(variant) = mutate::toggle_pun(&input, &mut rng) {
            if fmtwork::same_desugared(&input, &variant) {
                if let Ok(Ok(other)) = case.format(&variant) {
                    stats.count("pun_spellings_compared");
                    if other != once {
                        fail(stats, "pun-variant-formats-differently", first_difference(&once, &other), json!({"variant_input": variant, "formatted_variant": other}));
                    }
                }
            }
        }
    }
    if stats.samples.is_empty() {
        stats.sample(json!({"case": case.describe(), "formatted_excerpt": once.chars().take(200).collect::<String>()}));
    }
}

/// (4) CLI: --check agrees with what fmt would do.
fn extra(cfg: &Cfg, stats: &mut Stats) {
    let scratch = Scratch::new("c14cli");
    let bin = proc::zydeco_bin();
    let n = cfg.tier.pick(30, 300);
    let total = fmtwork::total(cfg);
    for i in 0..n {
        let case = fmtwork::case(cfg, (i * 53 + 1) % total);
        if case.deep() || !matches!(e2::parse(&case.text), Ok(Ok(_))) {
            continue;
        }
        let path = scratch.write(&format!("f{}.zy", i), case.text.as_bytes());
        let p = path.to_str().unwrap();
        let check1 = proc::run(&bin, &["fmt", "--check", p], Some(scratch.path()), b"", 30, 120);
        let before = std::fs::read(&path).unwrap_or_default();
        let fmt = proc::run(&bin, &["fmt", p], Some(scratch.path()), b"", 30, 120);
        let after = std::fs::read(&path).unwrap_or_default();
        let check2 = proc::run(&bin, &["fmt", "--check", p], Some(scratch.path()), b"", 30, 120);
        stats.evaluations += 1;
        stats.count("cli_check_fmt_check");
        if [&check1, &fmt, &check2].iter().any(|r| r.wall_timeout || r.signal.is_some()) {
            stats.inconclusive("CLI formatter did not finish within its budget (C12's subject)");
            continue;
        }
        let changed = before != after;
        let problem = if before != case.text.as_bytes() {
            Some("`fmt --check` modified the file".to_string())
        } else if (check1.code == Some(1)) != changed {
            Some(format!("`fmt --check` exited {:?} but `fmt` {} the file", check1.code, if changed { "changed" } else { "did not change" }))
        } else if check2.code != Some(0) {
            Some(format!("second `fmt --check` exited {:?} after formatting", check2.code))
        } else if fmt.code != Some(0) {
            Some(format!("`fmt` exited {:?}", fmt.code))
        } else {
            None
        };
        if let Some(problem) = problem {
            stats.violation(Violation {
                signature: "cli-check-disagrees-with-fmt".into(),
                tags: crate::props::c12::tags_for(&case.text),
                generator: "cli".into(),
                index: i,
                detail: json!({"problem": problem, "text": case.text}),
            });
        }
    }
    // several files in one invocation: `fmt --check a b c ..` reports exactly the files that `fmt` would modify, each
    // judged as it is judged alone
    let groups = cfg.tier.pick(14, 120);
    for g in 0..groups {
        let mut rng = Rng::for_case(cfg.seed, "C14/multi", g);
        let k = 2 + rng.below(4);
        let mut files: Vec<(String, Vec<u8>, bool)> = Vec::new();
        for j in 0..k {
            let case = fmtwork::case(cfg, rng.below(total as usize) as u64);
            if case.deep() || case.nesting >= fmtwork::COSTLY_NESTING || !matches!(e2::parse(&case.text), Ok(Ok(_))) {
                continue;
            }
            // the first two as they are (mostly not canonical: mutated or generated), half of the others canonical
            let text = if j >= 2 && rng.chance(1, 2) {
                match e2::format(&case.text) {
                    | Ok(Ok(t)) => t,
                    | _ => continue,
                }
            } else {
                case.text.clone()
            };
            let name = format!("g{}_{}.zy", g, j);
            let path = scratch.write(&name, text.as_bytes());
            let alone = proc::run(&bin, &["fmt", "--check", path.to_str().unwrap()], Some(scratch.path()), b"", 30, 120);
            if alone.wall_timeout || alone.signal.is_some() || !matches!(alone.code, Some(0) | Some(1)) {
                continue;
            }
            files.push((name, text.into_bytes(), alone.code == Some(1)));
        }
        if files.len() < 2 {
            continue;
        }
        let mut argv: Vec<&str> = vec!["fmt", "--check"];
        argv.extend(files.iter().map(|(n, _, _)| n.as_str()));
        let joint = proc::run(&bin, &argv, Some(scratch.path()), b"", 60, 300);
        stats.evaluations += 1;
        stats.count("cli_multi_file_checks");
        if joint.wall_timeout || joint.signal.is_some() {
            stats.inconclusive("CLI formatter did not finish within its budget (C12's subject)");
            continue;
        }
        let listed: Vec<String> = String::from_utf8_lossy(&joint.stdout).lines().map(|l| l.trim().to_string()).filter(|l| !l.is_empty()).collect();
        let expected: Vec<String> = files.iter().filter(|(_, _, needs)| *needs).map(|(n, _, _)| n.clone()).collect();
        let needing = expected.len();
        stats.cover("multi_file_groups", &format!("{} files, {} need formatting", files.len(), needing));
        let untouched = files.iter().all(|(n, bytes, _)| std::fs::read(scratch.path().join(n)).ok().as_deref() == Some(bytes.as_slice()));
        let mut sorted_listed = listed.clone();
        sorted_listed.sort();
        let mut sorted_expected = expected.clone();
        sorted_expected.sort();
        let problem = if !untouched {
            Some("`fmt --check` modified a file".to_string())
        } else if sorted_listed != sorted_expected {
            Some(format!("`fmt --check` on {} files listed {:?}; alone, the files that need formatting are {:?}", files.len(), listed, expected))
        } else if (joint.code == Some(1)) != (needing > 0) {
            Some(format!("`fmt --check` exited {:?} with {} files needing formatting", joint.code, needing))
        } else {
            None
        };
        if let Some(problem) = problem {
            stats.violation(Violation {
                signature: "cli-multi-file-check-disagrees-with-single-file-checks".into(),
                tags: vec![],
                generator: "cli".into(),
                index: 1_000 + g,
                detail: json!({"problem": problem, "files": files.iter().map(|(n, b, needs)| json!({"name": n, "needs_formatting": needs, "text": String::from_utf8_lossy(b)})).collect::<Vec<_>>(), "stdout": String::from_utf8_lossy(&joint.stdout)}),
            });
        }
    }
}

/// The source without the parentheses of every group that contains exactly one atom (identifier, `_`, literal):
/// `( y )` -> `y`, `((name) : T)` -> `(name : T)`. None if there is no such group. Whether the result means the same
/// is the caller's question (`same_desugared`).
pub fn strip_atom_groups(src: &str) -> Option<String> {
    let tokens: Vec<scan::Token> = scan::scan(src).into_iter().filter(|t| t.is_code()).collect();
    let text = |t: &scan::Token| &src[t.start..t.end];
    let mut drop: Vec<(usize, usize)> = Vec::new();
    // the arguments of metadata (`@[format(width(100))]`) are not groups
    let mut in_meta = vec![false; tokens.len()];
    let mut depth: Option<usize> = None;
    for i in 0..tokens.len() {
        let t = text(&tokens[i]);
        if let Some(d) = depth {
            in_meta[i] = true;
            match t {
                | "(" | "[" => depth = Some(d + 1),
                | ")" | "]" => depth = if d <= 1 { None } else { Some(d - 1) },
                | _ => {}
            }
        } else if t == "@" && i + 1 < tokens.len() && matches!(text(&tokens[i + 1]), "(" | "[") {
            depth = Some(0);
            in_meta[i] = true;
        }
    }
    for (i, w) in tokens.windows(3).enumerate() {
        let atom = mutate::is_atom(&w[1]) || text(&w[1]) == "_";
        if text(&w[0]) == "(" && text(&w[2]) == ")" && atom && !in_meta[i] {
            drop.push((w[0].start, w[0].end));
            drop.push((w[2].start, w[2].end));
        }
    }
    if drop.is_empty() {
        return None;
    }
    let mut out = String::with_capacity(src.len());
    let mut at = 0;
    for (from, to) in drop {
        if from < at {
            continue;
        }
        out.push_str(&src[at..from]);
        // keep tokens apart where the parenthesis did
        out.push(' ');
        at = to;
    }
    out.push_str(&src[at..]);
    Some(out)
}
