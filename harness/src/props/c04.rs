//! C04 — exhaustiveness checking is sound and complete.
//!
//! Oracle: brute force. For a type and a list of arms, enumerate all values of the type (recursive types to a
//! depth that exceeds the deepest pattern), compute the first matching arm; exhaustive ⇔ every value matches.

use crate::core::*;
use crate::pipeline::{self, End, Sources, Verdict};
use crate::prelude::MiniPrelude;
use crate::util::rng::Rng;
use serde_json::json;
use zydeco_statics::validate::{CoverageError, CoveragePattern};

pub fn def() -> PropertyDef {
    PropertyDef {
        id: "C04",
        title: "Exhaustiveness checking is sound and complete",
        generators,
        extra: no_extra,
        rule: "matrices: type catalogue {Unit, Bool, Tri, Option Bool, Bool x Bool, Bool x Bool x Bool, (Bool x Bool) x Bool, named pair, data with \
               product payload, data nested in data, Bool x Option Bool, Nat, List Bool}; all patterns up to constructor depth 2-3 over each; all arm \
               lists of length <= 3 (<= 2 where more than 40 patterns) plus the empty match — thorough enumerates them all, quick a seeded slice; \
               random: deeper random matrices (<= 6 arms, depth <= 4); wide: data types with 10, 12 and 17 constructors (alone, under an option, in products) with an almost complete arm list (0-2 arms removed, biased to late constructors); comatch: all destructor multisets of size <= 4 over codata with <= 3 \
               destructors. Checks: accepted <=> exhaustive by brute force; every reported missing pattern has an instance no arm matches; an \
               accepted match takes the reference arm for every enumerated value at run time; comatch accepted <=> each destructor exactly \
               once and the reported missing / duplicate sets are the true ones. distinct = (type, arm list) / destructor multiset; non-trivial = \
               at least one non-wildcard pattern, or a multiset different from the exact set.",
        assumptions: &["first-match semantics; recursive types enumerated to pattern depth + 1, which is complete for patterns of that depth"],
        floor: (1_000, 50_000),
        on_case_death: death_is_harness_error,
    }
}

/* ------------------------------------ mini universe ------------------------------------ */

#[derive(Clone, Debug, PartialEq)]
enum T {
    Unit,
    Data(usize),
    Prod(Vec<T>),
    Named(Vec<(&'static str, T)>),
}

struct Decl {
    name: &'static str,
    ctors: Vec<(&'static str, T)>,
}

fn decls() -> Vec<Decl> {
    let b = || T::Data(0);
    vec![
        Decl { name: "Bool", ctors: vec![("+T", T::Unit), ("+F", T::Unit)] },
        Decl { name: "Tri", ctors: vec![("+A", T::Unit), ("+B", T::Unit), ("+C", T::Unit)] },
        Decl { name: "OptB", ctors: vec![("+None", T::Unit), ("+Some", b())] },
        Decl { name: "PQ", ctors: vec![("+P", T::Prod(vec![b(), b()])), ("+Q", T::Unit)] },
        Decl { name: "Outer", ctors: vec![("+L", T::Data(2)), ("+R", T::Data(1))] },
        Decl { name: "Nat", ctors: vec![("+Z", T::Unit), ("+S", T::Data(5))] },
        Decl { name: "ListB", ctors: vec![("+Nil", T::Unit), ("+Cons", T::Prod(vec![b(), T::Data(6)]))] },
        // wide types (only used by the `wide` family): many constructors, a few with payloads
        Decl {
            name: "Wide12",
            ctors: vec![
                ("+W0", T::Unit), ("+W1", T::Unit), ("+W2", T::Unit), ("+W3", b()), ("+W4", T::Unit), ("+W5", T::Unit), ("+W6", T::Unit),
                ("+W7", T::Unit), ("+W8", T::Unit), ("+W9", T::Unit), ("+W10", T::Data(2)), ("+W11", T::Unit),
            ],
        },
        Decl {
            name: "Wide10",
            ctors: vec![
                ("+X0", T::Unit), ("+X1", T::Unit), ("+X2", T::Unit), ("+X3", T::Unit), ("+X4", T::Unit), ("+X5", T::Unit), ("+X6", T::Unit),
                ("+X7", T::Unit), ("+X8", T::Unit), ("+X9", T::Unit),
            ],
        },
        Decl { name: "OptWide", ctors: vec![("+NoneW", T::Unit), ("+SomeW", T::Data(8))] },
        Decl {
            name: "Wide17",
            ctors: vec![
                ("+Y0", T::Unit), ("+Y1", T::Unit), ("+Y2", T::Unit), ("+Y3", T::Unit), ("+Y4", T::Unit), ("+Y5", T::Unit), ("+Y6", T::Unit),
                ("+Y7", T::Unit), ("+Y8", b()), ("+Y9", T::Unit), ("+Y10", T::Unit), ("+Y11", T::Unit), ("+Y12", T::Unit), ("+Y13", T::Unit),
                ("+Y14", T::Unit), ("+Y15", T::Unit), ("+Y16", b()),
            ],
        },
        // an empty type and a type with a constructor that no value can have (only used by the `uninhabited` family)
        Decl { name: "Void", ctors: vec![] },
        Decl { name: "DeadLive", ctors: vec![("+Dead", T::Data(11)), ("+Live", b())] },
        // one constructor (only used by the `alias` family)
        Decl { name: "BoxB", ctors: vec![("+Box", b())] },
        Decl { name: "BoxOpt", ctors: vec![("+BoxO", T::Data(2))] },
    ]
}

/// Alias patterns `(_; p)` anywhere in the arms. The checker currently requires alias members to be irrefutable and rejects
/// the others with a type error (an expressivity limit it states itself), so for arms with a refutable alias member only
/// soundness is judged: an accepted match must be exhaustive and take the reference arm.
fn run_alias(cfg: &Cfg, index: u64, stats: &mut Stats) {
    let ds = decls();
    let mut rng = Rng::for_case(cfg.seed, "C04/alias", index);
    let b = || T::Data(0);
    let types: Vec<(&str, T)> = vec![
        ("BoxB", T::Data(13)),
        ("BoxOpt", T::Data(14)),
        ("BoxBxBool", T::Prod(vec![T::Data(13), b()])),
        ("OptB", T::Data(2)),
        ("BoolxBool", T::Prod(vec![b(), b()])),
        ("PQ", T::Data(3)),
    ];
    let (tname, t) = &types[rng.below(types.len())];
    fn with_alias(rng: &mut Rng, p: P) -> P {
        let p = match p {
            | P::Ctor(d, c, q) => P::Ctor(d, c, Box::new(with_alias(rng, *q))),
            | P::Tuple(ps) => P::Tuple(ps.into_iter().map(|q| with_alias(rng, q)).collect()),
            | other => other,
        };
        if rng.chance(1, 3) { P::Alias(Box::new(p)) } else { p }
    }
    let n = 1 + rng.below(3);
    let mut arms: Vec<P> = (0..n)
        .map(|_| {
            let depth = 1 + rng.below(3);
            let p = random_pattern(&mut rng, t, &ds, depth);
            with_alias(&mut rng, p)
        })
        .collect();
    if rng.chance(1, 5) {
        arms.push(P::Wild);
    }
    // at least one alias somewhere
    if !arms.iter().any(|p| format!("{:?}", p).contains("Alias")) {
        let k = rng.below(arms.len());
        arms[k] = P::Alias(Box::new(arms[k].clone()));
    }
    let arms_text = arms.iter().map(|p| pattern_text(p, t, &ds)).collect::<Vec<_>>().join(" | ");
    stats.nontrivial(format!("alias/{}/{}", tname, arms_text).as_bytes());
    stats.cover("alias_types", tname);
    let refutable_alias = arms.iter().any(|p| p.has_refutable_alias());
    stats.count(if refutable_alias { "alias_with_refutable_member" } else { "alias_with_irrefutable_member" });
    if let Some((signature, problem, sources)) = judge(tname, t, &arms, stats) {
        // completeness is not judged where the checker states its own limit
        if refutable_alias && matches!(signature.as_str(), "exhaustive-match-rejected" | "exhaustive-match-program-rejected" | "non-exhaustive-match-rejected-without-coverage-error") {
            stats.count("alias_refutable_member_rejected_by_stated_limit");
            return;
        }
        report(stats, "alias", index, tname, arms_text, (signature, problem, sources));
    }
}

/// Matches over types with an uninhabited component: (name, type, arms). Brute force sees that `+Dead(_)` and a tuple
/// with a `Void` component denote no value at all.
fn uninhabited_cases() -> Vec<(&'static str, T, Vec<P>)> {
    let b = || T::Data(0);
    let live = |p: P| P::Ctor(12, 1, Box::new(p));
    let dead = |p: P| P::Ctor(12, 0, Box::new(p));
    let t = || P::Ctor(0, 0, Box::new(P::Unit));
    vec![
        ("DeadLive", T::Data(12), vec![live(P::Wild)]),
        ("DeadLive", T::Data(12), vec![live(t())]),
        ("DeadLive", T::Data(12), vec![dead(P::Wild), live(P::Wild)]),
        ("DeadLive", T::Data(12), vec![live(t()), live(P::Ctor(0, 1, Box::new(P::Unit)))]),
        ("VoidxBool", T::Prod(vec![T::Data(11), b()]), vec![P::Tuple(vec![P::Wild, t()])]),
        ("VoidxBool", T::Prod(vec![T::Data(11), b()]), vec![]),
        ("BoolxVoid", T::Prod(vec![b(), T::Data(11)]), vec![P::Tuple(vec![t(), P::Wild])]),
        ("Void", T::Data(11), vec![]),
        ("OptDeadLive-control", T::Data(12), vec![P::Wild]),
    ]
}

fn run_uninhabited(_cfg: &Cfg, index: u64, stats: &mut Stats) {
    let ds = decls();
    let cases = uninhabited_cases();
    let (tname, t, arms) = &cases[index as usize];
    let arms_text = arms.iter().map(|p| pattern_text(p, t, &ds)).collect::<Vec<_>>().join(" | ");
    stats.nontrivial(format!("uninhabited/{}/{}", tname, arms_text).as_bytes());
    stats.cover("uninhabited_cases", &format!("{}: {}", tname, if arms_text.is_empty() { "<no arm>" } else { &arms_text }));
    if let Some((signature, problem, sources)) = judge(tname, t, arms, stats) {
        stats.violation(Violation {
            signature,
            tags: vec![format!("type:{}", tname), "uninhabited-component-type".to_string()],
            generator: "uninhabited".into(),
            index,
            detail: json!({"type": tname, "arms": arms_text, "problem": problem, "sources": sources.to_json()}),
        });
    }
}

fn wide_catalogue() -> Vec<(&'static str, T)> {
    let b = || T::Data(0);
    vec![
        ("Wide12", T::Data(7)),
        ("Wide10", T::Data(8)),
        ("OptWide", T::Data(9)),
        ("Wide17", T::Data(10)),
        ("Wide10xBool", T::Prod(vec![T::Data(8), b()])),
        ("BoolxWide12", T::Prod(vec![b(), T::Data(7)])),
        ("OptWidexBool", T::Prod(vec![T::Data(9), b()])),
    ]
}

/// A complete cover of `t` (one pattern per constructor path, payloads split with probability 1/2).
fn cover(rng: &mut Rng, t: &T, ds: &[Decl], depth: usize) -> Vec<P> {
    if depth == 0 {
        return vec![P::Wild];
    }
    match t {
        | T::Unit => vec![if rng.chance(1, 2) { P::Unit } else { P::Wild }],
        | T::Data(d) => {
            let mut out = Vec::new();
            for (c, (_, payload)) in ds[*d].ctors.iter().enumerate() {
                let inner = if *payload == T::Unit {
                    vec![if rng.chance(1, 2) { P::Unit } else { P::Wild }]
                } else if rng.chance(1, 2) {
                    cover(rng, payload, ds, depth - 1)
                } else {
                    vec![P::Wild]
                };
                for q in inner {
                    out.push(P::Ctor(*d, c, Box::new(q)));
                }
            }
            out
        }
        | T::Prod(items) => {
            // split on one component, the others stay wild (sometimes on a second one as well)
            let k = rng.below(items.len());
            let mut out = Vec::new();
            for q in cover(rng, &items[k], ds, depth) {
                let others: Vec<Vec<P>> = items
                    .iter()
                    .enumerate()
                    .map(|(i, it)| if i == k { vec![q.clone()] } else if rng.chance(1, 4) { cover(rng, it, ds, 1) } else { vec![P::Wild] })
                    .collect();
                let mut rows: Vec<Vec<P>> = vec![vec![]];
                for choice in others {
                    rows = rows.into_iter().flat_map(|r| choice.iter().map(move |c| { let mut r2 = r.clone(); r2.push(c.clone()); r2 })).collect();
                }
                out.extend(rows.into_iter().map(P::Tuple));
            }
            out
        }
        | T::Named(items) => vec![P::Tuple(items.iter().map(|_| P::Wild).collect())],
    }
}

/// Wide types: an almost complete list of arms (0..2 arms removed, sometimes shuffled, rarely a catch-all).
fn run_wide(cfg: &Cfg, index: u64, stats: &mut Stats) {
    let ds = decls();
    let mut rng = Rng::for_case(cfg.seed, "C04/wide", index);
    let cat = wide_catalogue();
    let (tname, t) = &cat[rng.below(cat.len())];
    let mut arms = cover(&mut rng, t, &ds, 3);
    let removed = match rng.below(6) {
        | 0 | 1 => 0,
        | 2 | 3 | 4 => 1,
        | _ => 2,
    };
    for _ in 0..removed {
        if arms.len() > 1 {
            // removals are biased towards the end of the declaration order
            let k = if rng.chance(1, 2) { arms.len() - 1 - rng.below(arms.len().min(4)) } else { rng.below(arms.len()) };
            arms.remove(k);
        }
    }
    if rng.chance(1, 4) {
        rng.shuffle(&mut arms);
    }
    if rng.chance(1, 12) {
        arms.push(P::Wild);
    }
    let arms_text = arms.iter().map(|p| pattern_text(p, t, &ds)).collect::<Vec<_>>().join(" | ");
    stats.nontrivial(format!("{}/{}", tname, arms_text).as_bytes());
    stats.cover("wide_types", tname);
    stats.cover("wide_arm_counts", &arms.len().to_string());
    if let Some(found) = judge(tname, t, &arms, stats) {
        report(stats, "wide", index, tname, arms_text, found);
    }
}

fn catalogue() -> Vec<(&'static str, T, usize)> {
    let b = || T::Data(0);
    vec![
        ("Unit", T::Unit, 2),
        ("Bool", b(), 2),
        ("Tri", T::Data(1), 2),
        ("OptB", T::Data(2), 3),
        ("BoolxBool", T::Prod(vec![b(), b()]), 2),
        ("BoolxBoolxBool", T::Prod(vec![b(), b(), b()]), 2),
        ("(BoolxBool)xBool", T::Prod(vec![T::Prod(vec![b(), b()]), b()]), 3),
        ("NamedPair", T::Named(vec![("fx", b()), ("fy", b())]), 2),
        ("PQ", T::Data(3), 3),
        ("Outer", T::Data(4), 3),
        ("BoolxOptB", T::Prod(vec![b(), T::Data(2)]), 3),
        ("Nat", T::Data(5), 3),
        ("ListB", T::Data(6), 3),
    ]
}

#[derive(Clone, Debug, PartialEq)]
enum V {
    Unit,
    Ctor(usize, usize, Box<V>),
    Tuple(Vec<V>),
}

#[derive(Clone, Debug, PartialEq)]
enum P {
    Wild,
    Unit,
    Ctor(usize, usize, Box<P>),
    Tuple(Vec<P>),
    /// `(_; p)`: an alias pattern, matching exactly when `p` does
    Alias(Box<P>),
}

impl P {
    fn is_wild(&self) -> bool {
        matches!(self, P::Wild)
    }
    fn depth(&self) -> usize {
        match self {
            | P::Wild | P::Unit => 0,
            | P::Ctor(_, _, p) => 1 + p.depth(),
            | P::Tuple(ps) => ps.iter().map(|p| p.depth()).max().unwrap_or(0),
            | P::Alias(p) => p.depth(),
        }
    }
    /// contains an alias pattern with a member that is not a wildcard all the way down
    fn has_refutable_alias(&self) -> bool {
        fn refutable(p: &P) -> bool {
            match p {
                | P::Wild | P::Unit => false,
                | P::Ctor(..) => true,
                | P::Tuple(ps) => ps.iter().any(refutable),
                | P::Alias(p) => refutable(p),
            }
        }
        match self {
            | P::Wild | P::Unit => false,
            | P::Ctor(_, _, p) => p.has_refutable_alias(),
            | P::Tuple(ps) => ps.iter().any(|p| p.has_refutable_alias()),
            | P::Alias(p) => refutable(p),
        }
    }
}

fn type_text(t: &T, ds: &[Decl]) -> String {
    match t {
        | T::Unit => "Unit".into(),
        | T::Data(d) => ds[*d].name.into(),
        | T::Prod(items) => items.iter().map(|i| match i {
            | T::Prod(_) => format!("({})", type_text(i, ds)),
            | _ => type_text(i, ds),
        }).collect::<Vec<_>>().join(" * "),
        | T::Named(items) => items.iter().map(|(n, i)| format!("({} :: {})", n, type_text(i, ds))).collect::<Vec<_>>().join(" * "),
    }
}

fn value_text(v: &V, t: &T, ds: &[Decl]) -> String {
    match (v, t) {
        | (V::Unit, _) => "()".into(),
        | (V::Ctor(d, c, p), _) => {
            let inner = value_text(p, &ds[*d].ctors[*c].1, ds);
            if inner.starts_with('(') { format!("{}{}", ds[*d].ctors[*c].0, inner) } else { format!("{}({})", ds[*d].ctors[*c].0, inner) }
        }
        | (V::Tuple(items), T::Prod(ts)) => format!("({})", items.iter().zip(ts).map(|(i, t)| value_text(i, t, ds)).collect::<Vec<_>>().join(", ")),
        | (V::Tuple(items), T::Named(ts)) => format!("({})", items.iter().zip(ts).map(|(i, (n, t))| format!("{} = {}", n, value_text(i, t, ds))).collect::<Vec<_>>().join(", ")),
        | _ => "?".into(),
    }
}

fn pattern_text(p: &P, t: &T, ds: &[Decl]) -> String {
    match (p, t) {
        | (P::Wild, _) => "_".into(),
        | (P::Unit, _) => "()".into(),
        | (P::Alias(q), _) => format!("(_; {})", pattern_text(q, t, ds)),
        | (P::Ctor(d, c, q), _) => {
            let inner = pattern_text(q, &ds[*d].ctors[*c].1, ds);
            if inner.starts_with('(') { format!("{}{}", ds[*d].ctors[*c].0, inner) } else { format!("{}({})", ds[*d].ctors[*c].0, inner) }
        }
        | (P::Tuple(items), T::Prod(ts)) => format!("({})", items.iter().zip(ts).map(|(i, t)| pattern_text(i, t, ds)).collect::<Vec<_>>().join(", ")),
        | (P::Tuple(items), T::Named(ts)) => format!("({})", items.iter().zip(ts).map(|(i, (n, t))| format!("{} = {}", n, pattern_text(i, t, ds))).collect::<Vec<_>>().join(", ")),
        | _ => "?".into(),
    }
}

/// all values of `t` with at most `depth` nested constructors of recursive types
fn values(t: &T, ds: &[Decl], depth: usize) -> Vec<V> {
    match t {
        | T::Unit => vec![V::Unit],
        | T::Data(d) => {
            let mut out = Vec::new();
            for (c, (_, payload)) in ds[*d].ctors.iter().enumerate() {
                if depth == 0 && *payload != T::Unit {
                    continue;
                }
                for p in values(payload, ds, depth.saturating_sub(1)) {
                    out.push(V::Ctor(*d, c, Box::new(p)));
                }
            }
            out
        }
        | T::Prod(items) => product(items.iter().map(|i| values(i, ds, depth)).collect()).into_iter().map(V::Tuple).collect(),
        | T::Named(items) => product(items.iter().map(|(_, i)| values(i, ds, depth)).collect()).into_iter().map(V::Tuple).collect(),
    }
}

fn product<X: Clone>(lists: Vec<Vec<X>>) -> Vec<Vec<X>> {
    let mut out: Vec<Vec<X>> = vec![Vec::new()];
    for list in lists {
        let mut next = Vec::new();
        for prefix in &out {
            for item in &list {
                let mut p = prefix.clone();
                p.push(item.clone());
                next.push(p);
            }
        }
        out = next;
    }
    out
}

/// all patterns over `t` with at most `depth` nested constructors
fn patterns(t: &T, ds: &[Decl], depth: usize) -> Vec<P> {
    let mut out = vec![P::Wild];
    match t {
        | T::Unit => out.push(P::Unit),
        | T::Data(d) => {
            if depth >= 1 {
                for (c, (_, payload)) in ds[*d].ctors.iter().enumerate() {
                    let inner = if *payload == T::Unit { vec![P::Unit] } else { patterns(payload, ds, depth - 1) };
                    for p in inner {
                        out.push(P::Ctor(*d, c, Box::new(p)));
                    }
                }
            }
        }
        | T::Prod(items) => {
            for combo in product(items.iter().map(|i| patterns(i, ds, depth)).collect()) {
                if combo.iter().all(|p| p.is_wild()) && false {
                    continue;
                }
                out.push(P::Tuple(combo));
            }
        }
        | T::Named(items) => {
            for combo in product(items.iter().map(|(_, i)| patterns(i, ds, depth)).collect()) {
                out.push(P::Tuple(combo));
            }
        }
    }
    out
}

fn matches(p: &P, v: &V) -> bool {
    match (p, v) {
        | (P::Wild, _) => true,
        | (P::Unit, V::Unit) => true,
        | (P::Ctor(_, c, q), V::Ctor(_, vc, w)) => c == vc && matches(q, w),
        | (P::Tuple(ps), V::Tuple(vs)) => ps.len() == vs.len() && ps.iter().zip(vs).all(|(p, v)| matches(p, v)),
        | (P::Alias(q), _) => matches(q, v),
        | _ => false,
    }
}

/// Does the reported coverage pattern admit this value? (products are reported flattened along the right spine)
fn coverage_matches(cp: &CoveragePattern, v: &V, t: &T, ds: &[Decl]) -> bool {
    match (cp, v) {
        | (CoveragePattern::Wildcard, _) => true,
        | (CoveragePattern::Unit, V::Unit) => true,
        | (CoveragePattern::Named(_, inner), _) => coverage_matches(inner, v, t, ds),
        | (CoveragePattern::Package(inner), _) => coverage_matches(inner, v, t, ds),
        | (CoveragePattern::Constructor(name, inner), V::Ctor(d, c, w)) => {
            let (cname, payload) = &ds[*d].ctors[*c];
            // CtorName::plain drops the `+`; Display of the pattern adds it back
            (name.0 == *cname || format!("+{}", name.0.trim_start_matches('+')) == *cname) && coverage_matches(inner, w, payload, ds)
        }
        | (CoveragePattern::Product(_), V::Tuple(_)) => {
            // flatten the value along the right spine of its (unlabelled) product type; the reported pattern may be
            // flat or right-nested (its last item standing for the remaining spine)
            let mut flat: Vec<(&V, T)> = Vec::new();
            flatten(v, t, &mut flat);
            spine_matches(cp, &flat, ds)
        }
        | _ => false,
    }
}

fn spine_matches(cp: &CoveragePattern, spine: &[(&V, T)], ds: &[Decl]) -> bool {
    match strip(cp) {
        | CoveragePattern::Wildcard => true,
        | CoveragePattern::Product(items) => {
            if items.is_empty() || items.len() > spine.len() {
                return false;
            }
            for (k, item) in items.iter().enumerate() {
                if k + 1 == items.len() {
                    // the last item covers the rest of the spine
                    return if spine.len() - k == 1 { coverage_matches(item, spine[k].0, &spine[k].1, ds) } else { spine_matches(item, &spine[k..], ds) };
                }
                if !coverage_matches(item, spine[k].0, &spine[k].1, ds) {
                    return false;
                }
            }
            true
        }
        | other => spine.len() == 1 && coverage_matches(other, spine[0].0, &spine[0].1, ds),
    }
}

fn strip(cp: &CoveragePattern) -> &CoveragePattern {
    match cp {
        | CoveragePattern::Named(_, inner) | CoveragePattern::Package(inner) => strip(inner),
        | other => other,
    }
}

fn flatten<'a>(v: &'a V, t: &T, out: &mut Vec<(&'a V, T)>) {
    match (v, t) {
        | (V::Tuple(items), T::Prod(ts)) => {
            for (k, (item, ty)) in items.iter().zip(ts).enumerate() {
                if k + 1 == items.len() && matches!(ty, T::Prod(_)) {
                    flatten(item, ty, out);
                } else {
                    out.push((item, ty.clone()));
                }
            }
        }
        | (V::Tuple(items), T::Named(ts)) => {
            for (item, (_, ty)) in items.iter().zip(ts) {
                out.push((item, ty.clone()));
            }
        }
        | _ => out.push((v, t.clone())),
    }
}

/* -------------------------------------- generators -------------------------------------- */

fn arm_lists_count(n: usize) -> u64 {
    let n = n as u64;
    if n > 40 { 1 + n + n * n } else { 1 + n + n * n + n * n * n }
}

fn nth_arm_list(pats: &[P], mut k: u64) -> Vec<P> {
    let n = pats.len() as u64;
    if k == 0 {
        return vec![];
    }
    k -= 1;
    for len in 1..=3u32 {
        let count = n.pow(len);
        if k < count {
            let mut out = Vec::new();
            for _ in 0..len {
                out.push(pats[(k % n) as usize].clone());
                k /= n;
            }
            return out;
        }
        k -= count;
    }
    vec![]
}

fn total_matrices() -> (Vec<u64>, u64) {
    let ds = decls();
    let counts: Vec<u64> = catalogue().iter().map(|(_, t, d)| arm_lists_count(patterns(t, &ds, *d).len())).collect();
    let total = counts.iter().sum();
    (counts, total)
}

fn generators(cfg: &Cfg) -> Vec<Generator> {
    let (_, total) = total_matrices();
    vec![
        Generator { name: "matrices", total: cfg.tier.pick(5_000.min(total), total), run: run_matrix, case_cpu_limit_s: 120 },
        Generator { name: "random", total: cfg.tier.pick(1_500, 50_000), run: run_random, case_cpu_limit_s: 120 },
        Generator { name: "comatch", total: comatch_cases().len() as u64, run: run_comatch, case_cpu_limit_s: 60 },
        Generator { name: "wide", total: cfg.tier.pick(600, 20_000), run: run_wide, case_cpu_limit_s: 120 },
        Generator { name: "uninhabited", total: uninhabited_cases().len() as u64, run: run_uninhabited, case_cpu_limit_s: 60 },
        Generator { name: "alias", total: cfg.tier.pick(600, 20_000), run: run_alias, case_cpu_limit_s: 120 },
    ]
}

fn decl_text(ds: &[Decl]) -> String {
    let mut s = String::new();
    for d in ds {
        let arms: Vec<String> = d.ctors.iter().map(|(n, t)| format!("| {} : {}", n, type_text(t, ds))).collect();
        s.push_str(&format!("def {} : VType = data {} end that\n", d.name, arms.join(" ")));
    }
    s
}

/// Build, check, (run) and judge one match. Returns a description of a violation.
fn judge(tname: &str, t: &T, arms: &[P], stats: &mut Stats) -> Option<(String, String, Sources)> {
    let ds = decls();
    let max_depth = arms.iter().map(|p| p.depth()).max().unwrap_or(0);
    let vals = values(t, &ds, max_depth + 1);
    // reference: first matching arm per value
    let reference: Vec<Option<usize>> = vals.iter().map(|v| arms.iter().position(|p| matches(p, v))).collect();
    let exhaustive = reference.iter().all(|r| r.is_some());
    // program: arms return their index; every enumerated value is fed through the match
    let mut text = MiniPrelude::core().text();
    text.push_str("begin\n");
    text.push_str(&decl_text(&ds));
    let ty = type_text(t, &ds);
    let mut m = format!("let f = {{ fn (x : {}) => (match x", ty);
    for (i, p) in arms.iter().enumerate() {
        m.push_str(&format!(" | {} => ret {}", pattern_text(p, t, &ds), i));
    }
    m.push_str(" end : Ret Int64) } that\n");
    text.push_str(&m);
    let mut body = "! exit 0".to_string();
    // cap the number of values run (all for finite types; the first 40 for recursive ones)
    let run_vals: Vec<&V> = vals.iter().take(48).collect();
    for (k, v) in run_vals.iter().enumerate().rev() {
        body = format!("do r{k} <- ! f ({} : {});\ndo s{k} <- ! to_string r{k};\n! write_line s{k} {{ {body} }}", value_text(v, t, &ds), ty);
    }
    text.push_str(&body);
    text.push_str("\nend\n");
    let sources = Sources::single(text);
    let analyzed = pipeline::analyze_overlay(&sources);
    stats.evaluations += 1;
    stats.count(if exhaustive { "reference_exhaustive" } else { "reference_non_exhaustive" });
    match &analyzed.verdict {
        | Verdict::Panic(p) => return Some((format!("front-end-panic {}", p.site()), p.short(), sources)),
        | Verdict::Checked => {
            if !exhaustive {
                let witness = vals.iter().zip(&reference).find(|(_, r)| r.is_none()).map(|(v, _)| value_text(v, t, &ds)).unwrap_or_default();
                return Some(("non-exhaustive-match-accepted".into(), format!("{}: no arm matches {}", tname, witness), sources));
            }
            // run-time arm selection equals the reference
            if let Ok(exe) = analyzed.executable() {
                let run = pipeline::run_executable(exe, b"", &[], 1_000_000);
                let expected: String = run_vals.iter().enumerate().map(|(k, _)| format!("{}\n", reference[k].unwrap())).collect();
                stats.add("runtime_arm_selections_checked", run_vals.len() as u64);
                if run.stdout != expected.as_bytes() || run.end != End::Exit(0) {
                    return Some(("runtime-arm-differs-from-reference".into(), format!("expected {:?}, got {:?} {:?}", expected, String::from_utf8_lossy(&run.stdout), run.end), sources));
                }
            }
        }
        | Verdict::Rejected { messages } => {
            let coverage: Vec<CoverageError> = pipeline::catch_coverage(&analyzed);
            let non_exhaustive: Vec<&CoverageError> = coverage.iter().filter(|c| matches!(c, CoverageError::NonExhaustiveMatch { .. })).collect();
            if exhaustive {
                if !non_exhaustive.is_empty() {
                    return Some(("exhaustive-match-rejected".into(), format!("{}: reported {}", tname, non_exhaustive[0]), sources));
                }
                // rejected for another reason: not this oracle's subject (should not happen for these programs)
                return Some(("exhaustive-match-program-rejected".into(), messages.first().cloned().unwrap_or_default().lines().take(3).collect::<Vec<_>>().join(" "), sources));
            }
            if non_exhaustive.is_empty() {
                return Some(("non-exhaustive-match-rejected-without-coverage-error".into(), messages.first().cloned().unwrap_or_default().lines().take(3).collect::<Vec<_>>().join(" "), sources));
            }
            // every reported missing pattern has an instance that no arm matches
            for err in non_exhaustive {
                let CoverageError::NonExhaustiveMatch { missing, truncated, .. } = err else { continue };
                if missing.is_empty() {
                    return Some(("coverage-error-without-witness".into(), format!("{}", err), sources));
                }
                for cp in missing {
                    let has_instance = vals.iter().zip(&reference).any(|(v, r)| r.is_none() && coverage_matches(cp, v, t, &ds));
                    stats.add("missing_patterns_checked", 1);
                    if !has_instance {
                        return Some(("reported-missing-pattern-is-covered".into(), format!("{}: reported {} but every instance is matched by an arm", tname, cp), sources));
                    }
                }
                // completeness of an untruncated listing (statistic only)
                if !*truncated {
                    let all_listed = vals.iter().zip(&reference).filter(|(_, r)| r.is_none()).all(|(v, _)| missing.iter().any(|cp| coverage_matches(cp, v, t, &ds)));
                    stats.count(if all_listed { "untruncated_listing_complete" } else { "untruncated_listing_incomplete" });
                }
            }
        }
        | Verdict::Error { message, .. } => return Some(("match-program-error".into(), message.clone(), sources)),
    }
    None
}

fn report(stats: &mut Stats, generator: &str, index: u64, tname: &str, arms_text: String, found: (String, String, Sources)) {
    let (signature, problem, sources) = found;
    stats.violation(Violation {
        signature,
        tags: vec![format!("type:{}", tname)],
        generator: generator.into(),
        index,
        detail: json!({"type": tname, "arms": arms_text, "problem": problem, "sources": sources.to_json()}),
    });
}

fn run_matrix(cfg: &Cfg, index: u64, stats: &mut Stats) {
    let ds = decls();
    let (counts, total) = total_matrices();
    // quick: a seeded slice of the enumeration (stride through it); thorough: everything
    let global = if cfg.tier == Tier::Quick {
        let mut rng = Rng::for_case(cfg.seed, "C04/slice", index);
        (index * (total / 5_000).max(1) + rng.below((total / 5_000).max(1) as usize) as u64) % total
    } else {
        index
    };
    let mut k = global;
    let cat = catalogue();
    let mut which = 0;
    for (i, c) in counts.iter().enumerate() {
        if k < *c {
            which = i;
            break;
        }
        k -= c;
    }
    let (tname, t, depth) = &cat[which];
    let pats = patterns(t, &ds, *depth);
    let arms = nth_arm_list(&pats, k);
    let arms_text = arms.iter().map(|p| pattern_text(p, t, &ds)).collect::<Vec<_>>().join(" | ");
    if arms.iter().any(|p| !p.is_wild()) || arms.is_empty() {
        stats.nontrivial(format!("{}/{}", tname, arms_text).as_bytes());
    }
    stats.cover("types", tname);
    if index % 997 == 0 {
        stats.sample(json!({"type": tname, "arms": arms_text}));
    }
    if index == 0 && cfg.tier == Tier::Thorough {
        stats.exhaustive.push("all arm lists of length <= 3 (<= 2 where > 40 patterns) over the type catalogue at the stated pattern depth".into());
    }
    if let Some(found) = judge(tname, t, &arms, stats) {
        report(stats, "matrices", index, tname, arms_text, found);
    }
}

fn random_pattern(rng: &mut Rng, t: &T, ds: &[Decl], depth: usize) -> P {
    if depth == 0 || rng.chance(1, 4) {
        return P::Wild;
    }
    match t {
        | T::Unit => {
            if rng.chance(1, 2) { P::Unit } else { P::Wild }
        }
        | T::Data(d) => {
            let c = rng.below(ds[*d].ctors.len());
            let payload = &ds[*d].ctors[c].1;
            let inner = if *payload == T::Unit { P::Unit } else { random_pattern(rng, payload, ds, depth - 1) };
            P::Ctor(*d, c, Box::new(inner))
        }
        | T::Prod(items) => P::Tuple(items.iter().map(|i| random_pattern(rng, i, ds, depth)).collect()),
        | T::Named(items) => P::Tuple(items.iter().map(|(_, i)| random_pattern(rng, i, ds, depth)).collect()),
    }
}

fn run_random(cfg: &Cfg, index: u64, stats: &mut Stats) {
    let ds = decls();
    let mut rng = Rng::for_case(cfg.seed, "C04/random", index);
    let cat = catalogue();
    let (tname, t, _) = &cat[rng.below(cat.len())];
    let depth = 1 + rng.below(4);
    let n = 1 + rng.below(6);
    let mut arms: Vec<P> = (0..n).map(|_| random_pattern(&mut rng, t, &ds, depth)).collect();
    // bias towards almost-exhaustive matrices: sometimes complete with the negation of a prefix
    if rng.chance(1, 3) {
        arms.push(P::Wild);
        if rng.chance(1, 2) {
            let k = rng.below(arms.len());
            arms.remove(k);
        }
    }
    let arms_text = arms.iter().map(|p| pattern_text(p, t, &ds)).collect::<Vec<_>>().join(" | ");
    if arms.iter().any(|p| !p.is_wild()) {
        stats.nontrivial(format!("{}/{}", tname, arms_text).as_bytes());
    }
    if let Some(found) = judge(tname, t, &arms, stats) {
        report(stats, "random", index, tname, arms_text, found);
    }
}

/* --------------------------------------- comatch --------------------------------------- */

fn comatch_cases() -> Vec<(usize, Vec<usize>)> {
    // (number of destructors, multiset of arm destructor indices in source order)
    let mut v = Vec::new();
    for n in 1..=3usize {
        for len in 0..=4usize {
            let count = n.pow(len as u32);
            for mut k in 0..count {
                let mut arms = Vec::new();
                for _ in 0..len {
                    arms.push(k % n);
                    k /= n;
                }
                v.push((n, arms));
            }
        }
    }
    v
}

fn run_comatch(_cfg: &Cfg, index: u64, stats: &mut Stats) {
    let (n, arms) = comatch_cases()[index as usize].clone();
    let names = [".a", ".b", ".c"];
    let mut text = MiniPrelude::core().text();
    text.push_str("begin\n");
    let dtors: Vec<String> = (0..n).map(|i| format!("| {} : Ret Int64", names[i])).collect();
    text.push_str(&format!("def O : CType = codata {} end that\n", dtors.join(" ")));
    let arm_text: Vec<String> = arms.iter().enumerate().map(|(k, d)| format!("| {} => ret {}", names[*d], 10 * (k + 1) + d)).collect();
    text.push_str(&format!("let o : Thk O = {{ comatch {} end }} that\n", arm_text.join(" ")));
    // observe every destructor
    let mut body = "! exit 0".to_string();
    for i in (0..n).rev() {
        body = format!("do r{i} <- ! o {};\ndo s{i} <- ! to_string r{i};\n! write_line s{i} {{ {body} }}", names[i]);
    }
    text.push_str(&body);
    text.push_str("\nend\n");
    let sources = Sources::single(text);
    let analyzed = pipeline::analyze_overlay(&sources);
    stats.evaluations += 1;
    let exact = (0..n).all(|d| arms.iter().filter(|a| **a == d).count() == 1) && arms.len() == n;
    if !exact {
        stats.nontrivial(format!("comatch/{}/{:?}", n, arms).as_bytes());
    }
    let true_missing: Vec<&str> = (0..n).filter(|d| !arms.contains(d)).map(|d| names[d]).collect();
    let true_dups: Vec<&str> = (0..n).filter(|d| arms.iter().filter(|a| *a == d).count() > 1).map(|d| names[d]).collect();
    let mut problem: Option<(String, String)> = None;
    match &analyzed.verdict {
        | Verdict::Panic(p) => problem = Some((format!("front-end-panic {}", p.site()), p.short())),
        | Verdict::Checked => {
            if !exact {
                problem = Some(("inexact-comatch-accepted".into(), format!("destructors {:?}, arms {:?}", &names[..n], arms)));
            } else if let Ok(exe) = analyzed.executable() {
                let run = pipeline::run_executable(exe, b"", &[], 100_000);
                let expected: String = (0..n).map(|d| format!("{}\n", 10 * (arms.iter().position(|a| *a == d).unwrap() + 1) + d)).collect();
                if run.stdout != expected.as_bytes() {
                    problem = Some(("comatch-arm-selection-wrong".into(), format!("expected {:?} got {:?}", expected, String::from_utf8_lossy(&run.stdout))));
                }
            }
        }
        | Verdict::Rejected { .. } => {
            if exact {
                problem = Some(("exact-comatch-rejected".into(), analyzed.verdict.brief()));
            } else {
                let coverage = pipeline::catch_coverage(&analyzed);
                let mut missing: Vec<String> = Vec::new();
                let mut dups: Vec<String> = Vec::new();
                for c in &coverage {
                    match c {
                        | CoverageError::NonExhaustiveCoMatch { missing: m, .. } => missing.extend(m.iter().map(|d| d.0.clone())),
                        | CoverageError::DuplicateCoMatchArms { duplicates: d, .. } => dups.extend(d.iter().map(|d| d.0.clone())),
                        | _ => {}
                    }
                }
                missing.sort();
                dups.sort();
                dups.dedup();
                if !coverage.is_empty() {
                    let tm: Vec<String> = true_missing.iter().map(|s| s.to_string()).collect();
                    let td: Vec<String> = true_dups.iter().map(|s| s.to_string()).collect();
                    if missing != tm || dups != td {
                        problem = Some(("comatch-report-wrong".into(), format!("reported missing {:?} duplicates {:?}; true missing {:?} duplicates {:?}", missing, dups, tm, td)));
                    }
                } else {
                    stats.count("inexact_comatch_rejected_by_another_diagnostic");
                }
            }
        }
        | Verdict::Error { message, .. } => problem = Some(("comatch-program-error".into(), message.clone())),
    }
    if let Some((signature, why)) = problem {
        stats.violation(Violation {
            signature,
            tags: vec![format!("dtors:{}", n)],
            generator: "comatch".into(),
            index,
            detail: json!({"destructors": &names[..n], "arms": arms, "problem": why, "sources": sources.to_json()}),
        });
    }
}
