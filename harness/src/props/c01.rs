//! C01 — type safety: accepted programs never go wrong in the interpreter.
//!
//! Every program the checker accepts — generated well-typed ones, programs with an injected type error that the
//! checker nevertheless accepts, and the hand-written confusion catalogue — is linked and driven one public
//! `Computation::step` at a time under catch_unwind; the unwinding site is classified.

use crate::core::*;
use crate::e1;
use crate::pipeline::{self, End, PanicClass, RunResult, Sources};
use crate::props::c02::styles_for;
use crate::util::rng::Rng;
use serde_json::json;

pub fn def() -> PropertyDef {
    PropertyDef {
        id: "C01",
        title: "Type safety: accepted programs never go wrong in the interpreter",
        generators,
        extra: no_extra,
        rule: "programs: E1 well-typed programs in a random style; mutants: the same programs with one injected type error at any site — \
               only the ones check still accepts are run; catalogue: (producer type x consumer type x use context) grid of similar-but-\
               different data/codata/product/thunk types plus sealing/existential/polymorphism cases — accepted ones are run. Each accepted \
               program is stepped under a fuel bound with a panic classifier (stuck-state / arithmetic trap / host I/O / other) and a \
               final-state invariant. distinct = program text hash; non-trivial = accepted, >=20 machine steps, >=3 transition kinds.",
        assumptions: &[
            "a panic raised inside lang/dynamics or with one of the interpreter's stuck-state messages is an undefined machine state",
            "fuel exhaustion is inconclusive, not a violation",
        ],
        floor: (500, 10_000),
        on_case_death: death_is_harness_error,
    }
}

fn generators(cfg: &Cfg) -> Vec<Generator> {
    vec![
        Generator { name: "programs", total: cfg.tier.pick(1_500, 60_000), run: run_program, case_cpu_limit_s: 120 },
        Generator { name: "mutants", total: cfg.tier.pick(800, 40_000), run: run_mutants, case_cpu_limit_s: 120 },
        Generator { name: "catalogue", total: crate::props::catalogue::cases().len() as u64, run: run_catalogue, case_cpu_limit_s: 120 },
        Generator { name: "dropped-arms", total: cfg.tier.pick(150, 1_500), run: run_dropped_arm, case_cpu_limit_s: 120 },
    ]
}

/// Judge one run of an accepted program. Returns true if it counted as non-trivial.
pub fn judge_run(stats: &mut Stats, generator: &str, index: u64, sources: &Sources, run: &RunResult, tags: Vec<String>, what: &str) -> bool {
    for t in &run.transitions {
        stats.cover("transitions", t);
    }
    stats.add("machine_steps", run.steps);
    let bad: Option<String> = match &run.end {
        | End::Panic(PanicClass::Stuck, p) => {
            stats.cover("panic_classes", "stuck");
            Some(format!("stuck {}", p.site()))
        }
        | End::Panic(PanicClass::Other, p) => {
            stats.cover("panic_classes", "other");
            Some(format!("undefined-state {}", p.site()))
        }
        | End::Panic(PanicClass::ArithmeticTrap, _) => {
            stats.cover("panic_classes", "arithmetic-trap");
            None
        }
        | End::Panic(PanicClass::HostIo, _) => {
            stats.cover("panic_classes", "host-io");
            None
        }
        | End::BadState(s) => Some(format!("bad-final-state {}", s)),
        | End::LinkError(e) => Some(format!("link-error {}", e.chars().take(60).collect::<String>())),
        | End::FuelOut => {
            stats.inconclusive("fuel exhausted");
            None
        }
        | End::Exit(_) | End::Ret(_) | End::Dry => None,
    };
    stats.cover("ends", match &run.end {
        | End::Exit(_) => "exit",
        | End::Ret(_) => "ret",
        | End::Dry => "dry",
        | End::Panic(..) => "panic",
        | End::FuelOut => "fuel-out",
        | End::BadState(_) => "bad-state",
        | End::LinkError(_) => "link-error",
    });
    if let Some(signature) = bad {
        stats.violation(Violation {
            signature,
            tags,
            generator: generator.into(),
            index,
            detail: json!({"what": what, "sources": sources.to_json(), "end": format!("{:?}", run.end),
                           "stdout": String::from_utf8_lossy(&run.stdout), "steps": run.steps}),
        });
    }
    run.steps >= 20 && run.transitions.len() >= 3
}

fn random_stdin(rng: &mut Rng) -> Vec<u8> {
    match rng.below(4) {
        | 0 => Vec::new(),
        | 1 => b"12\nhello\n\xc3\xa9\n".to_vec(),
        | 2 => (0..rng.below(40)).map(|_| rng.next() as u8).collect(),
        | _ => b"-5\r\n\r\nlast line without newline".to_vec(),
    }
}

fn run_program(cfg: &Cfg, index: u64, stats: &mut Stats) {
    let program = e1::generate::generate(cfg.seed, "C01", index);
    let mut rng = Rng::for_case(cfg.seed, "C01/programs", index);
    let styles = styles_for(index);
    let style = &styles[rng.below(styles.len())];
    let text = e1::print::program_text(&program, style, cfg.seed ^ index);
    let sources = Sources::single(text);
    let stdin = random_stdin(&mut rng);
    let args: Vec<String> = (0..rng.below(3)).map(|i| format!("arg{}", i)).collect();
    let result = pipeline::check_and_run(&sources, &stdin, &args, 400_000);
    stats.evaluations += 1;
    stats.count(&format!("programs_{}", result.verdict.class()));
    for f in &program.features {
        stats.cover("formers", f);
    }
    if let Some(run) = &result.run {
        let tags = program.features.iter().map(|f| f.to_string()).collect();
        if judge_run(stats, "programs", index, &sources, run, tags, "generated well-typed program") {
            stats.nontrivial(sources.root_text().as_bytes());
        }
        if index == 1 {
            stats.sample(json!({"accepted_program": sources.root_text(), "end": format!("{:?}", run.end), "steps": run.steps}));
        }
    } else if let Some(why) = &result.not_executable {
        stats.inconclusive(&format!("accepted but {}", why.chars().take(40).collect::<String>()));
    }
}

fn run_mutants(cfg: &Cfg, index: u64, stats: &mut Stats) {
    let program = e1::generate::generate(cfg.seed, "C01m", index);
    let mut rng = Rng::for_case(cfg.seed, "C01/mutants", index);
    let styles = styles_for(index);
    let (_, sites, _) = e1::print::program_text_mut(&program, &styles[0], cfg.seed ^ index, None);
    if sites == 0 {
        return;
    }
    let tries = cfg.tier.pick(8, 12).min(sites);
    // half of the tries go to the kinds that a coverage / executability hole would let through to the interpreter
    let kinds = e1::print::program_site_kinds(&program, &styles[0], cfg.seed ^ index);
    let risky: Vec<usize> = kinds.iter().enumerate().filter(|(_, k)| matches!(k.as_str(), "missing-match-arm" | "missing-comatch-arm" | "refutable-binder" | "term-hole")).map(|(i, _)| i).collect();
    for t in 0..tries {
        let target = if t % 2 == 1 && !risky.is_empty() {
            // a kind first (term holes are far more numerous than droppable arms), then one of its sites
            let present: Vec<&str> = ["missing-match-arm", "missing-comatch-arm", "refutable-binder", "term-hole"].into_iter().filter(|k| risky.iter().any(|i| kinds[*i] == *k)).collect();
            let kind = *rng.pick(&present);
            let of_kind: Vec<usize> = risky.iter().copied().filter(|i| kinds[*i] == kind).collect();
            of_kind[rng.below(of_kind.len())]
        } else {
            (rng.below(sites) + t * sites / tries) % sites
        };
        let style = &styles[rng.below(styles.len())];
        let (text, _, applied) = e1::print::program_text_mut(&program, style, cfg.seed ^ index ^ ((t as u64) << 24), Some(target));
        let Some(kind) = applied else { continue };
        let sources = Sources::single(text);
        let result = pipeline::check_and_run(&sources, b"", &[], 400_000);
        stats.evaluations += 1;
        stats.count(&format!("mutants_{}", result.verdict.class()));
        stats.cover("injected_error_kinds", &kind);
        if let Some(run) = &result.run {
            stats.count("mutants_accepted_and_run");
            if judge_run(stats, "mutants", index, &sources, run, vec![kind.clone()], &format!("program with injected `{}` that check accepted", kind)) {
                stats.nontrivial(sources.root_text().as_bytes());
            }
        }
    }
}

fn run_catalogue(_cfg: &Cfg, index: u64, stats: &mut Stats) {
    let cases = crate::props::catalogue::cases();
    let case = &cases[index as usize];
    let sources = case.sources();
    let result = pipeline::check_and_run(&sources, b"", &[], 100_000);
    stats.evaluations += 1;
    stats.count(&format!("catalogue_{}", result.verdict.class()));
    if let Some(run) = &result.run {
        stats.count("catalogue_accepted_and_run");
        judge_run(stats, "catalogue", index, &sources, run, vec![case.name.clone()], &format!("catalogue case {}", case.name));
        // catalogue programs are short: count them as distinct non-trivial cases by name when they ran to an end
        stats.nontrivial(format!("catalogue/{}", case.name).as_bytes());
        if index == 0 {
            stats.sample(json!({"catalogue_case": case.name, "body": case.body, "end": format!("{:?}", run.end)}));
        }
    }
}

/* ------------------------------------------------------------------------------------------------------------
 * A match / comatch with ONE arm dropped, eliminated with exactly the constructor / destructor whose arm is gone: if
 * check accepts it, the interpreter has nowhere to go. Directed at the coverage checker's bookkeeping over the
 * *position* of the missing arm: 2 to 20 constructors (also with payloads, also below another constructor), every
 * position in turn. The random mutants above drop arms too, but meet a particular position of a wide type, and then
 * run into it, only by luck.
 * ------------------------------------------------------------------------------------------------------------ */

fn dropped_arm_text(rng_order: &[usize], n: usize, eliminated: usize, shape: usize, drop: bool) -> (&'static str, String) {
    let payload = |k: usize| -> (&'static str, &'static str, &'static str) {
        // (payload type, payload value, payload pattern)
        match (k + shape) % 4 {
            | 0 => ("Unit", "", ""),
            | 1 => ("Int64", "7", "n"),
            | 2 => ("Int64 * String", "7, \"s\"", "n, s"),
            | _ => ("Unit", "", "_"),
        }
    };
    let keep = |k: &usize| !(drop && *k == eliminated);
    let mut body = String::from("begin\n");
    match shape {
        | 0 | 1 => {
            // data: match on the constructor whose arm is missing
            body.push_str("def Wide : VType = data");
            for k in 0..n {
                body.push_str(&format!(" | +C{k} : {}", payload(k).0));
            }
            body.push_str(" end that\n");
            let scrut = format!("(+C{eliminated}({}) : Wide)", payload(eliminated).1);
            let mut arms = String::new();
            for k in rng_order.iter().copied().filter(keep) {
                arms.push_str(&format!("| +C{k}({}) => ! exit {}\n", payload(k).2, k % 100));
            }
            body.push_str(&format!("match {scrut}\n{arms}end\nend\n"));
            ("match", body)
        }
        | 2 => {
            // the wide type below another constructor: `+Some(+Ck())` with the inner arm missing
            body.push_str("def Wide : VType = data");
            for k in 0..n {
                body.push_str(&format!(" | +C{k} : Unit"));
            }
            body.push_str(" end that\ndef Opt : VType = data | +None : Unit | +Some : Wide end that\n");
            let mut arms = String::from("| +None() => ! exit 101\n");
            for k in (0..n).filter(keep) {
                arms.push_str(&format!("| +Some(+C{k}()) => ! exit {}\n", k % 100));
            }
            body.push_str(&format!("match (+Some(+C{eliminated}()) : Opt)\n{arms}end\nend\n"));
            ("nested match", body)
        }
        | _ => {
            // codata: the destructor whose arm is missing is the one observed
            body.push_str("def Obj : CType = codata");
            for k in 0..n {
                body.push_str(&format!(" | .d{k} : OS"));
            }
            body.push_str(" end that\n");
            let mut arms = String::new();
            for k in (0..n).filter(keep) {
                arms.push_str(&format!("| .d{k} => ! exit {}\n", k % 100));
            }
            body.push_str(&format!("let o : Thk Obj = {{ comatch\n{arms}end }} in\n! o .d{eliminated}\nend\n"));
            ("comatch", body)
        }
    }
}

fn run_dropped_arm(cfg: &Cfg, index: u64, stats: &mut Stats) {
    let mut rng = Rng::for_case(cfg.seed, "C01/dropped-arms", index);
    // sizes and positions are walked systematically, the rest is random
    let n = 2 + (index as usize % 19); // 2 ..= 20
    // positions from both ends towards the middle: 0, n-1, 1, n-2, .. (the quick tier must reach the late positions)
    let step = (index as usize / 19) % n;
    let dropped = if step % 2 == 0 { step / 2 } else { n - 1 - step / 2 };
    let shape = rng.below(4);
    let mut order: Vec<usize> = (0..n).collect();
    if shape == 1 {
        rng.shuffle(&mut order);
    }
    let prelude = crate::prelude::MiniPrelude::core().text();
    // control: with all arms the program is accepted and exits with the eliminated alternative's code
    let (what, full) = dropped_arm_text(&order, n, dropped, shape, false);
    let control = pipeline::check_and_run(&Sources::single(format!("{prelude}{full}")), b"", &[], 100_000);
    if !matches!(control.run.as_ref().map(|r| &r.end), Some(End::Exit(c)) if *c as usize == dropped % 100) {
        stats.harness_error(format!("dropped-arms control ({what} of {n}, shape {shape}) is not accepted and run to its exit code: {}", control.verdict.brief().lines().next().unwrap_or("")));
        return;
    }
    let (_, text) = dropped_arm_text(&order, n, dropped, shape, true);
    let sources = Sources::single(format!("{prelude}{text}"));
    let result = pipeline::check_and_run(&sources, b"", &[], 100_000);
    stats.evaluations += 1;
    stats.count(&format!("dropped_arm_{}", result.verdict.class()));
    stats.cover("dropped_arm_shapes", &format!("{what} of {n}"));
    if matches!(result.verdict, pipeline::Verdict::Panic(_)) {
        // a crash of the checker is C10's subject; here it only means no verdict
        stats.inconclusive("checker panicked on a dropped-arm program (C10)");
        return;
    }
    stats.nontrivial(format!("{what} {n} {dropped} {shape}").as_bytes());
    if let Some(run) = &result.run {
        stats.count("dropped_arm_accepted_and_run");
        judge_run(stats, "dropped-arms", index, &sources, run, vec![format!("{what} with the arm at position {dropped} of {n} dropped")], &format!("{what} over {n} alternatives without the arm for the one that is eliminated (position {dropped}), accepted by check"));
    }
}
