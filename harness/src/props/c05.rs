//! C05 — fixed-width numeric semantics and exact literal range checking.
//!
//! Layer 1: every numeric host operation is called directly through the public machine and compared with a
//! mathematical model (i128 arithmetic reduced to the type's range; IEEE ops of the same-named Rust float).
//! Layer 2: the same operations reached end to end through lib/std/builtin.zy (wiring of roles to slots).
//! Layer 3: literal range checking, defaulting, absence of implicit conversions, printed value.

use crate::core::*;
use crate::hostcall::{self, HostOutcome, int_lit, read_int, tagged_thunk};
use crate::pipeline::{self, End, PanicClass, Sources};
use crate::prelude::{MiniPrelude, float_type_name, int_type_name};
use crate::util::rng::Rng;
use serde_json::json;
use zydeco_dynamics::syntax::SemValue;
use zydeco_syntax::{BuiltinValueRole as Role, FloatLiteral, FloatOperation, FloatType, IntegerOperation, IntegerType, Literal};

pub fn def() -> PropertyDef {
    PropertyDef {
        id: "C05",
        title: "Fixed-width numeric semantics and exact literal range checking",
        generators,
        extra: no_extra,
        rule: "ops8: every (role, a, b) over all 65 536 operand pairs of Int8 and UInt8 for the 8 binary roles (exhaustive); \
               opsw: boundary-set squared plus seeded random operand pairs for every integer role of every width; floats: special values \
               squared plus random bit patterns for every float role; literals: one program per (type, literal) around every range boundary; \
               wiring: batches of operations per width through lib/std/builtin.zy. A case is one (role, operand tuple) or one (type, literal \
               text); distinct_nontrivial counts distinct hashes of those tuples.",
        assumptions: &[
            "i128 arithmetic and IEEE-754 float operations of rustc/this CPU are the reference",
            "the public Computation::Prim step is the same code path the interpreter uses for host operations",
        ],
        floor: (100_000, 1_000_000),
        on_case_death: death_is_harness_error,
    }
}

const BIN_OPS: [IntegerOperation; 8] = [
    IntegerOperation::Add,
    IntegerOperation::Sub,
    IntegerOperation::Mul,
    IntegerOperation::Div,
    IntegerOperation::Mod,
    IntegerOperation::Eq,
    IntegerOperation::Lt,
    IntegerOperation::Gt,
];

fn generators(cfg: &Cfg) -> Vec<Generator> {
    vec![
        Generator { name: "ops8", total: 2 * 8 * 256, run: run_ops8, case_cpu_limit_s: 120 },
        Generator { name: "opsw", total: 8 * 9 * cfg.tier.pick(8, 64), run: run_opsw, case_cpu_limit_s: 300 },
        Generator { name: "floats", total: 2 * 8 * cfg.tier.pick(4, 32), run: run_floats, case_cpu_limit_s: 300 },
        Generator { name: "literals", total: literal_cases().len() as u64, run: run_literal, case_cpu_limit_s: 120 },
        Generator { name: "wiring", total: 10 * cfg.tier.pick(2, 12), run: run_wiring, case_cpu_limit_s: 300 },
    ]
}

/* ------------------------------- integer model ------------------------------- */

pub fn bits(t: IntegerType) -> u32 {
    match t {
        | IntegerType::Int8 | IntegerType::UInt8 => 8,
        | IntegerType::Int16 | IntegerType::UInt16 => 16,
        | IntegerType::Int32 | IntegerType::UInt32 => 32,
        | IntegerType::Int64 | IntegerType::UInt64 => 64,
    }
}

pub fn range(t: IntegerType) -> (i128, i128) {
    let n = bits(t);
    if t.is_signed() { (-(1i128 << (n - 1)), (1i128 << (n - 1)) - 1) } else { (0, (1i128 << n) - 1) }
}

/// Reduce a mathematical integer into the range of `t` modulo 2^n.
pub fn wrap(t: IntegerType, v: i128) -> i128 {
    let n = bits(t);
    let m = 1i128 << n;
    let r = v.rem_euclid(m);
    if t.is_signed() && r >= (m >> 1) { r - m } else { r }
}

#[derive(Debug, PartialEq)]
pub enum IntExpect {
    Value(i128),
    Trap,
    Branch(bool),
    Text(String),
}

pub fn int_model(t: IntegerType, op: IntegerOperation, a: i128, b: i128) -> IntExpect {
    match op {
        | IntegerOperation::Add => IntExpect::Value(wrap(t, a + b)),
        | IntegerOperation::Sub => IntExpect::Value(wrap(t, a - b)),
        | IntegerOperation::Mul => IntExpect::Value(wrap(t, a.wrapping_mul(b))),
        | IntegerOperation::Div => {
            if b == 0 {
                IntExpect::Trap
            } else {
                IntExpect::Value(wrap(t, a / b))
            }
        }
        | IntegerOperation::Mod => {
            if b == 0 {
                IntExpect::Trap
            } else {
                IntExpect::Value(wrap(t, a % b))
            }
        }
        | IntegerOperation::Eq => IntExpect::Branch(a == b),
        | IntegerOperation::Lt => IntExpect::Branch(a < b),
        | IntegerOperation::Gt => IntExpect::Branch(a > b),
        | IntegerOperation::ToString => IntExpect::Text(a.to_string()),
    }
}

fn check_int_op(stats: &mut Stats, gen_name: &str, index: u64, t: IntegerType, op: IntegerOperation, a: i128, b: i128) {
    let role = Role::Integer(t, op);
    let expect = int_model(t, op, a, b);
    let args: Vec<SemValue> = match op {
        | IntegerOperation::ToString => vec![int_lit(t, a)],
        | IntegerOperation::Eq | IntegerOperation::Lt | IntegerOperation::Gt => {
            vec![int_lit(t, a), int_lit(t, b), tagged_thunk(1), tagged_thunk(0)]
        }
        | _ => vec![int_lit(t, a), int_lit(t, b)],
    };
    let call = hostcall::call(role, role.arity(), args, b"", &[]);
    stats.evaluations += 1;
    let observed: Result<IntExpect, String> = match &call.outcome {
        | Err(p) => {
            if pipeline::classify_panic(p) == PanicClass::ArithmeticTrap {
                Ok(IntExpect::Trap)
            } else {
                Err(format!("panic {}", p.short()))
            }
        }
        | Ok(HostOutcome::Ret(SemValue::Literal(Literal::Integer(l)))) => match read_int(l) {
            | Some((ty, v)) if ty == t => Ok(IntExpect::Value(v)),
            | other => Err(format!("result carrier {:?} is not {}", other, int_type_name(t))),
        },
        | Ok(HostOutcome::Ret(SemValue::Literal(Literal::String(s)))) => Ok(IntExpect::Text(s.as_str().to_string())),
        | Ok(HostOutcome::Branch { tag, applied }) if applied.is_empty() => Ok(IntExpect::Branch(*tag == 1)),
        | Ok(other) => Err(format!("unexpected outcome {:?}", other)),
    };
    let ok = match &observed {
        | Ok(o) => *o == expect && (call.frames_left == 0 || expect == IntExpect::Trap),
        | Err(_) => false,
    };
    if !ok {
        stats.violation(Violation {
            signature: format!("numeric-op-mismatch {}", role.source_name()),
            tags: vec![format!("role:{}", role.source_name())],
            generator: gen_name.to_string(),
            index,
            detail: json!({
                "role": role.source_name(), "a": a.to_string(), "b": b.to_string(),
                "expected": format!("{:?}", expect), "observed": format!("{:?}", observed),
                "frames_left_on_stack": call.frames_left,
            }),
        });
    }
}

fn run_ops8(_cfg: &Cfg, index: u64, stats: &mut Stats) {
    // index = ((type * 8) + op) * 256 + first operand row
    let row = (index % 256) as i128;
    let op = BIN_OPS[((index / 256) % 8) as usize];
    let t = if index / (256 * 8) == 0 { IntegerType::Int8 } else { IntegerType::UInt8 };
    let (lo, _) = range(t);
    let a = lo + row;
    for col in 0..256i128 {
        let b = lo + col;
        check_int_op(stats, "ops8", index, t, op, a, b);
    }
    // all 256*256 pairs of this (type, op) are distinct cases; record one hash per row and add the rest by count
    for col in 0..256u64 {
        stats.nontrivial_hash(crate::util::rng::hash64(format!("ops8/{index}/{col}").as_bytes()));
    }
    stats.cover("roles", &Role::Integer(t, op).source_name());
    if index == 0 {
        stats.exhaustive.push("all 65 536 operand pairs x 8 binary roles x {Int8, UInt8}".into());
        stats.sample(json!({"role": "int8_add", "a": a.to_string(), "b_range": "all 256 values", "model": "i128 arithmetic wrapped to 8 bits"}));
    }
}

fn boundary_values(t: IntegerType) -> Vec<i128> {
    let (lo, hi) = range(t);
    let mut v = vec![lo, lo + 1, lo + 2, -2, -1, 0, 1, 2, 3, 7, 10, hi - 2, hi - 1, hi];
    let n = bits(t);
    for k in [1u32, 7, 8, 15, 16, 31, 32, 62, 63] {
        if k < n {
            let p = 1i128 << k;
            v.extend([p - 1, p, p + 1, -p, -p - 1, -p + 1]);
        }
    }
    v.retain(|x| *x >= lo && *x <= hi);
    v.sort();
    v.dedup();
    v
}

fn random_value(rng: &mut Rng, t: IntegerType) -> i128 {
    let (lo, hi) = range(t);
    match rng.below(4) {
        | 0 => *rng.pick(&boundary_values(t)),
        | 1 => {
            // small magnitude
            let v = rng.range(-300, 300) as i128;
            v.clamp(lo, hi)
        }
        | _ => {
            let span = (hi - lo + 1) as u128;
            let r = ((rng.next() as u128) << 64 | rng.next() as u128) % span;
            lo + r as i128
        }
    }
}

fn run_opsw(cfg: &Cfg, index: u64, stats: &mut Stats) {
    let chunks = cfg.tier.pick(8, 64);
    let chunk = index % chunks;
    let op = IntegerOperation::ALL[((index / chunks) % 9) as usize];
    let t = IntegerType::ALL[((index / chunks / 9) % 8) as usize];
    let mut rng = Rng::for_case(cfg.seed, "C05/opsw", index);
    let role = Role::Integer(t, op);
    stats.cover("roles", &role.source_name());
    let mut pairs: Vec<(i128, i128)> = Vec::new();
    if chunk == 0 {
        let b = boundary_values(t);
        for x in &b {
            for y in &b {
                pairs.push((*x, *y));
            }
        }
    }
    let randoms = cfg.tier.pick(1_500, 20_000);
    for _ in 0..randoms {
        pairs.push((random_value(&mut rng, t), random_value(&mut rng, t)));
    }
    for (a, b) in pairs {
        check_int_op(stats, "opsw", index, t, op, a, b);
        let mut key = [0u8; 40];
        key[0] = index as u8;
        key[1..17].copy_from_slice(&a.to_le_bytes());
        key[17..33].copy_from_slice(&b.to_le_bytes());
        key[33] = op as u8;
        key[34] = t as u8;
        stats.nontrivial(&key);
    }
    if chunk == 0 && op == IntegerOperation::Div {
        let (lo, _) = range(t);
        stats.sample(json!({"role": role.source_name(), "a": lo.to_string(), "b": "-1", "expected": format!("{:?}", int_model(t, op, lo, -1))}));
    }
}

/* ---------------------------------- floats ---------------------------------- */

fn f32_specials() -> Vec<u32> {
    let mut v = vec![
        0.0f32.to_bits(),
        (-0.0f32).to_bits(),
        f32::INFINITY.to_bits(),
        f32::NEG_INFINITY.to_bits(),
        f32::NAN.to_bits(),
        0x7fc0_0001,
        0xffc0_0000,
        0x7f80_0001, // signalling NaN
        f32::MAX.to_bits(),
        f32::MIN.to_bits(),
        f32::MIN_POSITIVE.to_bits(),
        1,          // smallest subnormal
        0x007f_ffff, // largest subnormal
        1.0f32.to_bits(),
        (-1.0f32).to_bits(),
        1.5f32.to_bits(),
        0.1f32.to_bits(),
        3.0f32.to_bits(),
        16_777_216.0f32.to_bits(),
        16_777_217.0f32.to_bits(),
        f32::EPSILON.to_bits(),
    ];
    let extra: Vec<u32> = v.iter().flat_map(|b| [b.wrapping_add(1), b.wrapping_sub(1)]).collect();
    v.extend(extra);
    v
}

fn f64_specials() -> Vec<u64> {
    let mut v = vec![
        0.0f64.to_bits(),
        (-0.0f64).to_bits(),
        f64::INFINITY.to_bits(),
        f64::NEG_INFINITY.to_bits(),
        f64::NAN.to_bits(),
        0x7ff8_0000_0000_0001,
        0xfff8_0000_0000_0000,
        0x7ff0_0000_0000_0001,
        f64::MAX.to_bits(),
        f64::MIN.to_bits(),
        f64::MIN_POSITIVE.to_bits(),
        1,
        0x000f_ffff_ffff_ffff,
        1.0f64.to_bits(),
        (-1.0f64).to_bits(),
        1.5f64.to_bits(),
        0.1f64.to_bits(),
        3.0f64.to_bits(),
        9_007_199_254_740_992.0f64.to_bits(),
        9_007_199_254_740_993.0f64.to_bits(),
        f64::EPSILON.to_bits(),
    ];
    let extra: Vec<u64> = v.iter().flat_map(|b| [b.wrapping_add(1), b.wrapping_sub(1)]).collect();
    v.extend(extra);
    v
}

fn float_value(t: FloatType, bits: u64) -> SemValue {
    SemValue::Literal(Literal::Float(match t {
        | FloatType::Float32 => FloatLiteral::Float32(bits as u32),
        | FloatType::Float64 => FloatLiteral::Float64(bits),
    }))
}

#[derive(Debug, PartialEq)]
enum FloatExpect {
    Bits(u64),
    NaN,
    Branch(bool),
}

fn float_model(t: FloatType, op: FloatOperation, a: u64, b: u64) -> FloatExpect {
    macro_rules! go {
        ($ty:ty, $bits:ty) => {{
            let x = <$ty>::from_bits(a as $bits);
            let y = <$ty>::from_bits(b as $bits);
            let value = |r: $ty| if r.is_nan() { FloatExpect::NaN } else { FloatExpect::Bits(r.to_bits() as u64) };
            match op {
                | FloatOperation::Add => value(x + y),
                | FloatOperation::Sub => value(x - y),
                | FloatOperation::Mul => value(x * y),
                | FloatOperation::Div => value(x / y),
                | FloatOperation::Eq => FloatExpect::Branch(x == y),
                | FloatOperation::Lt => FloatExpect::Branch(x < y),
                | FloatOperation::Gt => FloatExpect::Branch(x > y),
                | FloatOperation::ToString => unreachable!(),
            }
        }};
    }
    match t {
        | FloatType::Float32 => go!(f32, u32),
        | FloatType::Float64 => go!(f64, u64),
    }
}

fn check_float_op(stats: &mut Stats, index: u64, t: FloatType, op: FloatOperation, a: u64, b: u64) {
    let role = Role::Float(t, op);
    stats.evaluations += 1;
    let mut fail = |stats: &mut Stats, expected: String, observed: String| {
        stats.violation(Violation {
            signature: format!("numeric-op-mismatch {}", role.source_name()),
            tags: vec![format!("role:{}", role.source_name())],
            generator: "floats".into(),
            index,
            detail: json!({"role": role.source_name(), "a_bits": format!("{a:#x}"), "b_bits": format!("{b:#x}"), "expected": expected, "observed": observed}),
        });
    };
    if op == FloatOperation::ToString {
        let call = hostcall::call(role, role.arity(), vec![float_value(t, a)], b"", &[]);
        match &call.outcome {
            | Ok(HostOutcome::Ret(SemValue::Literal(Literal::String(s)))) if call.frames_left == 0 => {
                let text = s.as_str();
                let ok = match t {
                    | FloatType::Float32 => {
                        let x = f32::from_bits(a as u32);
                        match text.parse::<f32>() {
                            | Ok(y) => (x.is_nan() && y.is_nan()) || x.to_bits() == y.to_bits(),
                            | Err(_) => false,
                        }
                    }
                    | FloatType::Float64 => {
                        let x = f64::from_bits(a);
                        match text.parse::<f64>() {
                            | Ok(y) => (x.is_nan() && y.is_nan()) || x.to_bits() == y.to_bits(),
                            | Err(_) => false,
                        }
                    }
                };
                if !ok {
                    fail(stats, "text that parses back to the same bits".into(), text.to_string());
                }
            }
            | other => fail(stats, "ret <string>".into(), format!("{:?} frames_left={}", other.as_ref().map_err(|p| p.short()), call.frames_left)),
        }
        return;
    }
    let expect = float_model(t, op, a, b);
    let args = match op {
        | FloatOperation::Eq | FloatOperation::Lt | FloatOperation::Gt => {
            vec![float_value(t, a), float_value(t, b), tagged_thunk(1), tagged_thunk(0)]
        }
        | _ => vec![float_value(t, a), float_value(t, b)],
    };
    let call = hostcall::call(role, role.arity(), args, b"", &[]);
    let observed = match &call.outcome {
        | Ok(HostOutcome::Ret(SemValue::Literal(Literal::Float(f)))) => {
            let (ty, bits, nan) = match f {
                | FloatLiteral::Float32(b) => (FloatType::Float32, *b as u64, f32::from_bits(*b).is_nan()),
                | FloatLiteral::Float64(b) => (FloatType::Float64, *b, f64::from_bits(*b).is_nan()),
            };
            if ty != t {
                None
            } else if nan {
                Some(FloatExpect::NaN)
            } else {
                Some(FloatExpect::Bits(bits))
            }
        }
        | Ok(HostOutcome::Branch { tag, applied }) if applied.is_empty() => Some(FloatExpect::Branch(*tag == 1)),
        | _ => None,
    };
    if observed.as_ref() != Some(&expect) || call.frames_left != 0 {
        fail(stats, format!("{:?}", expect), format!("{:?} raw={:?} frames_left={}", observed, call.outcome.as_ref().map_err(|p| p.short()), call.frames_left));
    }
}

fn run_floats(cfg: &Cfg, index: u64, stats: &mut Stats) {
    let chunks = cfg.tier.pick(4, 32);
    let chunk = index % chunks;
    let op = FloatOperation::ALL[((index / chunks) % 8) as usize];
    let t = FloatType::ALL[((index / chunks / 8) % 2) as usize];
    let role = Role::Float(t, op);
    stats.cover("roles", &role.source_name());
    let mut rng = Rng::for_case(cfg.seed, "C05/floats", index);
    let specials: Vec<u64> = match t {
        | FloatType::Float32 => f32_specials().into_iter().map(|b| b as u64).collect(),
        | FloatType::Float64 => f64_specials(),
    };
    let mut pairs = Vec::new();
    if chunk == 0 {
        for a in &specials {
            for b in &specials {
                pairs.push((*a, *b));
            }
        }
    }
    let mask = if t == FloatType::Float32 { 0xffff_ffffu64 } else { u64::MAX };
    for _ in 0..cfg.tier.pick(2_000, 20_000) {
        let pick = |rng: &mut Rng| match rng.below(4) {
            | 0 => *rng.pick(&specials),
            | 1 => {
                // values close to each other / small integers
                let v = rng.range(-1000, 1000) as f64 / 8.0;
                if t == FloatType::Float32 { (v as f32).to_bits() as u64 } else { v.to_bits() }
            }
            | _ => rng.next() & mask,
        };
        let a = pick(&mut rng);
        let b = if rng.chance(1, 8) { a } else { pick(&mut rng) };
        pairs.push((a, b));
    }
    for (a, b) in pairs {
        check_float_op(stats, index, t, op, a, b);
        stats.nontrivial(format!("f/{}/{a:x}/{b:x}", role.source_name()).as_bytes());
    }
    if chunk == 0 && op == FloatOperation::Div {
        stats.sample(json!({"role": role.source_name(), "a_bits": "0x0 (+0.0)", "b_bits": "-0.0", "expected": "NaN", "comparison": "bitwise unless NaN"}));
    }
}

/* --------------------------------- literals --------------------------------- */

#[derive(Clone, Debug)]
enum LitCase {
    /// `let x : T = text` printed with T's to_string: accepted iff in range, printed value = literal
    Int { ty: IntegerType, text: String, value: i128 },
    /// no annotation: Int64
    IntDefault { text: String, value: i128 },
    /// literal at type T then used at type U (no implicit conversion)
    NoConversion { from: IntegerType, to: IntegerType },
    Float { ty: FloatType, text: String },
    /// an integer literal where a float is expected and vice versa
    IntAtFloat { ty: FloatType },
    FloatAtInt { ty: IntegerType },
}

fn literal_cases() -> Vec<LitCase> {
    let mut v = Vec::new();
    let mut boundaries: Vec<i128> = vec![0];
    for t in IntegerType::ALL {
        let (lo, hi) = range(t);
        boundaries.push(lo);
        boundaries.push(hi);
    }
    boundaries.push(i128::from(i64::MIN));
    boundaries.push(i128::from(u64::MAX));
    boundaries.sort();
    boundaries.dedup();
    let mut values: Vec<i128> = Vec::new();
    for b in &boundaries {
        for d in -3..=3 {
            values.push(b + d);
        }
    }
    values.sort();
    values.dedup();
    for t in IntegerType::ALL {
        for val in &values {
            v.push(LitCase::Int { ty: t, text: val.to_string(), value: *val });
        }
        // sign and zero-padding forms
        let (_, hi) = range(t);
        v.push(LitCase::Int { ty: t, text: "+5".into(), value: 5 });
        v.push(LitCase::Int { ty: t, text: "-0".into(), value: 0 });
        v.push(LitCase::Int { ty: t, text: "007".into(), value: 7 });
        v.push(LitCase::Int { ty: t, text: format!("+{}", hi), value: hi });
        v.push(LitCase::Int { ty: t, text: format!("000{}", hi + 1), value: hi + 1 });
    }
    for val in &values {
        v.push(LitCase::IntDefault { text: val.to_string(), value: *val });
    }
    for from in IntegerType::ALL {
        for to in IntegerType::ALL {
            if from != to {
                v.push(LitCase::NoConversion { from, to });
            }
        }
    }
    let floats = [
        "0.0", "-0.0", "1.5", "3.75", "0.1", "+2.5", "-2.5", "3.4028234e38", "3.4028235e38", "3.4028236e38", "3.40282357e38", "-3.4028235e38",
        "-3.4028236e38", "1e38", "1e39", "-1e39", "1.0e-45", "1e-46", "1.17549435e-38", "1e308", "1.7976931348623157e308", "1e-320", "1e-400",
        "16777217.0", "9007199254740993.0", "1E5", "1e+5", "2.5E-3", "123456789.125", "0.30000000000000004",
        // beyond the range of Float64 as well
        "1e309", "1e400", "-1e400", "1.0e400", "17976931348623159e292",
    ];
    for t in FloatType::ALL {
        for f in floats {
            v.push(LitCase::Float { ty: t, text: f.to_string() });
        }
        v.push(LitCase::IntAtFloat { ty: t });
    }
    // decimal literals a hair above / below the midpoint of two adjacent Float32 values, with more digits than Float64
    // holds: rounding the decimal to Float64 first lands exactly on the midpoint and loses the side it was on
    for x in [1.0f32, 1.5, 3.0, 0.1, 0.7, 2.5e-3, 16_777_216.0, 1.0e10, 123_456.79, 3.0e38, 1.0e-30, 65_504.0, 0.333_333_34] {
        let up = f32::from_bits(x.to_bits() + 1);
        let m = (f64::from(x) + f64::from(up)) / 2.0;
        let exact = format!("{:.120}", m);
        let exact = exact.trim_end_matches('0').to_string();
        let exact = if exact.ends_with('.') { format!("{exact}0") } else { exact };
        let above = format!("{exact}0000000000000001");
        // below: decrement the last non-zero digit, then nines
        let mut digits: Vec<char> = exact.chars().collect();
        if let Some(i) = digits.iter().rposition(|c| c.is_ascii_digit() && *c != '0') {
            digits[i] = char::from_digit(digits[i].to_digit(10).unwrap() - 1, 10).unwrap();
            let below: String = digits.iter().collect::<String>() + "9999999999999999";
            v.push(LitCase::Float { ty: FloatType::Float32, text: below });
        }
        v.push(LitCase::Float { ty: FloatType::Float32, text: above });
        v.push(LitCase::Float { ty: FloatType::Float32, text: exact });
    }
    for t in IntegerType::ALL {
        v.push(LitCase::FloatAtInt { ty: t });
    }
    v
}

fn int_field(t: IntegerType) -> String {
    format!("{}_to_string", t.source_name())
}

fn run_literal(_cfg: &Cfg, index: u64, stats: &mut Stats) {
    let cases = literal_cases();
    let case = &cases[index as usize];
    let mut prelude = MiniPrelude::new().role("exit", Role::Exit).role("write_line", Role::WriteLine);
    for t in IntegerType::ALL {
        prelude = prelude.role(&int_field(t), Role::Integer(t, IntegerOperation::ToString));
    }
    for t in FloatType::ALL {
        prelude = prelude.role(&format!("{}_to_string", t.source_name()), Role::Float(t, FloatOperation::ToString));
    }
    let print = |show: &str| format!("do s <- ! {show} x;\n! write_line s {{ ! exit 0 }}\n");
    // expected: Some(printed text predicate) if the program must be accepted, None if it must be rejected
    enum Expect {
        AcceptInt(i128),
        AcceptFloat(FloatType, u64),
        Reject,
        /// the statement does not say (a decimal literal beyond the range of Float64 at Float64)
        Unspecified,
    }
    let mut extra_tags: Vec<String> = Vec::new();
    let (body, expect, key) = match case {
        | LitCase::Int { ty, text, value } => {
            let (lo, hi) = range(*ty);
            let body = format!("let x : {} = {} in\n{}", int_type_name(*ty), text, print(&int_field(*ty)));
            let expect = if *value >= lo && *value <= hi { Expect::AcceptInt(*value) } else { Expect::Reject };
            (body, expect, format!("int/{}/{}", int_type_name(*ty), text))
        }
        | LitCase::IntDefault { text, value } => {
            let (lo, hi) = range(IntegerType::Int64);
            let body = format!("let x = {} in\n{}", text, print(&int_field(IntegerType::Int64)));
            let expect = if *value >= lo && *value <= hi { Expect::AcceptInt(*value) } else { Expect::Reject };
            (body, expect, format!("default/{}", text))
        }
        | LitCase::NoConversion { from, to } => {
            let body = format!(
                "let y : {} = 1 in\nlet x : {} = y in\n{}",
                int_type_name(*from),
                int_type_name(*to),
                print(&int_field(*to))
            );
            (body, Expect::Reject, format!("noconv/{}/{}", int_type_name(*from), int_type_name(*to)))
        }
        | LitCase::Float { ty, text } => {
            let v: f64 = text.parse().expect("float literal");
            let body = format!("let x : {} = {} in\n{}", float_type_name(*ty), text, print(&format!("{}_to_string", ty.source_name())));
            let expect = match ty {
                | FloatType::Float64 if v.is_finite() => Expect::AcceptFloat(*ty, v.to_bits()),
                | FloatType::Float64 => Expect::Unspecified,
                | FloatType::Float32 => {
                    // the value of the literal at Float32 is the decimal rounded once, to Float32; it is accepted exactly
                    // when that is finite
                    let n: f32 = text.parse().expect("float literal");
                    if n.to_bits() != (v as f32).to_bits() {
                        extra_tags.push("float32-literal-decided-by-digits-beyond-float64".to_string());
                    }
                    if n.is_finite() { Expect::AcceptFloat(*ty, n.to_bits() as u64) } else { Expect::Reject }
                }
            };
            (body, expect, format!("float/{}/{}", float_type_name(*ty), text))
        }
        | LitCase::IntAtFloat { ty } => {
            let body = format!("let x : {} = 3 in\n{}", float_type_name(*ty), print(&format!("{}_to_string", ty.source_name())));
            (body, Expect::Reject, format!("intatfloat/{}", float_type_name(*ty)))
        }
        | LitCase::FloatAtInt { ty } => {
            let body = format!("let x : {} = 3.0 in\n{}", int_type_name(*ty), print(&int_field(*ty)));
            (body, Expect::Reject, format!("floatatint/{}", int_type_name(*ty)))
        }
    };
    let text = format!("{}{}", prelude.text(), body);
    let sources = Sources::single(text);
    let result = pipeline::check_and_run(&sources, b"", &[], 10_000);
    stats.evaluations += 1;
    stats.nontrivial(key.as_bytes());
    stats.count(&format!("literal_{}", result.verdict.class()));
    let mut problem: Option<String> = None;
    match (&expect, &result.verdict) {
        | (Expect::Unspecified, _) => stats.count("literal_unspecified_by_the_statement"),
        | (Expect::Reject, v) if v.is_reject() => {}
        | (Expect::Reject, v) => problem = Some(format!("expected rejection, got {}", v.brief())),
        | (_, v) if !v.is_accept() => problem = Some(format!("expected acceptance, got {}", v.brief())),
        | (Expect::AcceptInt(value), _) => {
            let run = result.run.as_ref();
            let out = run.map(|r| String::from_utf8_lossy(&r.stdout).to_string()).unwrap_or_default();
            if out != format!("{}\n", value) || run.map(|r| &r.end) != Some(&End::Exit(0)) {
                problem = Some(format!("expected output {:?} and exit 0, got {:?} {:?} {:?}", format!("{}\n", value), out, run.map(|r| &r.end), result.not_executable));
            }
        }
        | (Expect::AcceptFloat(ty, bits), _) => {
            let run = result.run.as_ref();
            let out = run.map(|r| String::from_utf8_lossy(&r.stdout).to_string()).unwrap_or_default();
            let printed = out.trim_end_matches('\n');
            let same = match ty {
                | FloatType::Float32 => printed.parse::<f32>().map(|p| p.to_bits() as u64 == *bits).unwrap_or(false),
                | FloatType::Float64 => printed.parse::<f64>().map(|p| p.to_bits() == *bits).unwrap_or(false),
            };
            if !same || run.map(|r| &r.end) != Some(&End::Exit(0)) {
                problem = Some(format!("expected a rendering of bits {:#x}, got {:?} {:?}", bits, out, run.map(|r| &r.end)));
            }
        }
    }
    if index % 97 == 0 {
        stats.sample(json!({"literal_program_body": body, "verdict": result.verdict.class()}));
    }
    if let Some(problem) = problem {
        stats.violation(Violation {
            signature: format!("literal-mismatch {}", key.split('/').next().unwrap_or("")),
            tags: std::iter::once(key.clone()).chain(extra_tags.iter().cloned()).collect(),
            generator: "literals".into(),
            index,
            detail: json!({"case": key, "problem": problem, "sources": sources.to_json()}),
        });
    }
}

/* ---------------------------------- wiring ---------------------------------- */

/// End to end through lib/std/builtin.zy: a batch of operations of one width, results printed.
fn run_wiring(cfg: &Cfg, index: u64, stats: &mut Stats) {
    let which = (index % 10) as usize;
    let mut rng = Rng::for_case(cfg.seed, "C05/wiring", index);
    let builtin = "/repo/lib/std/builtin.zy";
    let mut body = String::new();
    let mut expected = String::new();
    let header = format!(
        "begin\n  param (\n    (/core; /representations; /numeric; /text; /system) :\n    @(import(\"{builtin}\"))\n  ) that\n  let (/Ret) = core that\n  let (/Scalar = String) = representations/string that\n  let (/OS; /process; /stdio) = system that\n"
    );
    let mut lines: Vec<String> = Vec::new();
    let name;
    if which < 8 {
        let t = IntegerType::ALL[which];
        name = t.source_name().to_string();
        body.push_str(&format!("  let (Scalar = T, ops) = numeric/{} that\n", t.source_name()));
        let n = 6;
        for i in 0..n {
            let op = *rng.pick(&IntegerOperation::ALL);
            let a = random_value(&mut rng, t);
            let mut b = random_value(&mut rng, t);
            if matches!(op, IntegerOperation::Div | IntegerOperation::Mod) && b == 0 {
                b = 1;
            }
            stats.cover("roles_end_to_end", &Role::Integer(t, op).source_name());
            match int_model(t, op, a, b) {
                | IntExpect::Value(v) => {
                    lines.push(format!("do r{i} <- ! (ops/{}) {} {};\n  do s{i} <- ! (ops/to_string) r{i};", op.source_name(), a, b));
                    expected.push_str(&format!("{}\n", v));
                }
                | IntExpect::Branch(c) => {
                    lines.push(format!(
                        "do s{i} <- ! (ops/{}) (Ret String) {} {} {{ ret \"yes\" }} {{ ret \"no\" }};",
                        op.source_name(),
                        a,
                        b
                    ));
                    expected.push_str(if c { "yes\n" } else { "no\n" });
                }
                | IntExpect::Text(s) => {
                    lines.push(format!("do s{i} <- ! (ops/to_string) {};", a));
                    expected.push_str(&format!("{}\n", s));
                }
                | IntExpect::Trap => unreachable!(),
            }
        }
    } else {
        let t = FloatType::ALL[which - 8];
        name = t.source_name().to_string();
        body.push_str(&format!("  let (Scalar = T, ops) = numeric/{} that\n", t.source_name()));
        let pool = ["1.5", "2.25", "-0.5", "100.0", "0.125", "3.0", "7.5", "-2.5"];
        for i in 0..6 {
            let op = *rng.pick(&[FloatOperation::Add, FloatOperation::Sub, FloatOperation::Mul, FloatOperation::Div, FloatOperation::Lt, FloatOperation::Gt, FloatOperation::Eq]);
            let a = *rng.pick(&pool);
            let b = *rng.pick(&pool);
            stats.cover("roles_end_to_end", &Role::Float(t, op).source_name());
            let (x, y): (f64, f64) = (a.parse().unwrap(), b.parse().unwrap());
            let arith = |r64: f64, r32: f32| if t == FloatType::Float32 { r32.to_string() } else { r64.to_string() };
            let (xf, yf) = (x as f32, y as f32);
            match op {
                | FloatOperation::Lt | FloatOperation::Gt | FloatOperation::Eq => {
                    let c = match op {
                        | FloatOperation::Lt => x < y,
                        | FloatOperation::Gt => x > y,
                        | _ => x == y,
                    };
                    lines.push(format!("do s{i} <- ! (ops/{}) (Ret String) {} {} {{ ret \"yes\" }} {{ ret \"no\" }};", op.source_name(), a, b));
                    expected.push_str(if c { "yes\n" } else { "no\n" });
                }
                | _ => {
                    let s = match op {
                        | FloatOperation::Add => arith(x + y, xf + yf),
                        | FloatOperation::Sub => arith(x - y, xf - yf),
                        | FloatOperation::Mul => arith(x * y, xf * yf),
                        | _ => arith(x / y, xf / yf),
                    };
                    lines.push(format!("do r{i} <- ! (ops/{}) {} {};\n  do s{i} <- ! (ops/to_string) r{i};", op.source_name(), a, b));
                    expected.push_str(&format!("{}\n", s));
                }
            }
        }
    }
    let mut text = header;
    text.push_str(&body);
    for l in &lines {
        text.push_str("  ");
        text.push_str(l);
        text.push('\n');
    }
    let mut tail = "! (process/exit) 0".to_string();
    for i in (0..lines.len()).rev() {
        tail = format!("! (stdio/write_line) s{i} {{ {tail} }}");
    }
    text.push_str("  ");
    text.push_str(&tail);
    text.push_str("\nend\n");
    let sources = Sources::single(text);
    let result = pipeline::check_and_run(&sources, b"", &[], 100_000);
    stats.evaluations += 1;
    stats.nontrivial(format!("wiring/{}", sources.hash()).as_bytes());
    let out = result.run.as_ref().map(|r| String::from_utf8_lossy(&r.stdout).to_string());
    let ok = result.verdict.is_accept() && out.as_deref() == Some(expected.as_str()) && result.run.as_ref().map(|r| &r.end) == Some(&End::Exit(0));
    if index == 0 {
        stats.sample(json!({"wiring_program": sources.root_text(), "expected_stdout": expected}));
    }
    if !ok {
        stats.violation(Violation {
            signature: format!("numeric-wiring-mismatch {name}"),
            tags: vec![format!("width:{name}")],
            generator: "wiring".into(),
            index,
            detail: json!({"sources": sources.to_json(), "expected_stdout": expected, "observed_stdout": out,
                           "verdict": result.verdict.brief(), "end": format!("{:?}", result.run.as_ref().map(|r| &r.end))}),
        });
    }
}
