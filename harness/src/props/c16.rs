//! C16 — tool output is a deterministic function of the sources.

use crate::core::*;
use crate::e1;
use crate::util::proc::{self, ProcResult};
use crate::util::rng::Rng;
use crate::util::scratch::Scratch;
use serde_json::json;
use std::path::{Path, PathBuf};

pub fn def() -> PropertyDef {
    PropertyDef {
        id: "C16",
        title: "Tool output is a deterministic function of the sources",
        generators,
        extra: no_extra,
        rule: "programs: the executable and compile fixtures under /repo/lib/tests, generated core programs (accepted), the same with an \
               injected type error or several non-exhaustive matches / unresolved holes (rejected, multi-report), and blocks with many \
               independent `that` bindings; commands: check, run (fixed stdin), fmt --check, fmt on a copy, build -t zir|zasm|asm|llvm. \
               Each (program, command) is executed in N independent processes (quick N=6, thorough N=24; fresh SipHash keys and ASLR each) \
               and stdout, stderr, exit status and written file bytes are compared byte for byte. distinct = (program, command); non-trivial = \
               >= 2 completed repetitions that produced output.",
        assumptions: &["absolute paths are held constant across repetitions (the same scratch file is reused)", "programs calling random_int are excluded from `run`"],
        floor: (100, 2_000),
        on_case_death: death_is_harness_error,
    }
}

fn fixtures() -> Vec<PathBuf> {
    let mut v = Vec::new();
    for dir in ["compile", "compile-more", "exec", "builtin", "std", "effects", "monadic", "fail", "warn", "stack", "pack", "oopsla", "delimcc"] {
        let d = Path::new("/repo/lib/tests").join(dir);
        if let Ok(entries) = std::fs::read_dir(&d) {
            for e in entries.flatten() {
                let p = e.path();
                if matches!(p.extension().and_then(|e| e.to_str()), Some("zy" | "zydeco")) {
                    v.push(p);
                }
            }
        }
    }
    v.sort();
    v
}

fn generators(cfg: &Cfg) -> Vec<Generator> {
    let fixtures = fixtures().len() as u64;
    vec![
        Generator { name: "fixtures", total: cfg.tier.pick(fixtures.min(28), fixtures), run: run_fixture, case_cpu_limit_s: 600 },
        Generator { name: "generated", total: cfg.tier.pick(72, 1_350), run: run_generated, case_cpu_limit_s: 600 },
    ]
}

const COMMANDS: &[(&str, &[&str])] = &[
    ("check", &["check"]),
    ("run", &["run"]),
    ("fmt-check", &["fmt", "--check"]),
    ("build-zir", &["build", "-t", "zir"]),
    ("build-zasm", &["build", "-t", "zasm"]),
    ("build-asm", &["build", "-t", "asm"]),
    ("build-llvm", &["build", "-t", "llvm"]),
];

fn observe(r: &ProcResult) -> (Option<i32>, Option<i32>, Vec<u8>, Vec<u8>) {
    // a crashing tool (exit 101) is C10/C18's subject; its panic banner contains the OS thread id, which is not a
    // function of the sources: mask it so that only the rest is compared
    let mut stderr = r.stderr.clone();
    if r.code == Some(101) {
        let text = String::from_utf8_lossy(&stderr).to_string();
        let mut out = String::new();
        let mut rest = text.as_str();
        while let Some(pos) = rest.find("thread '") {
            let (head, tail) = rest.split_at(pos);
            out.push_str(head);
            if let (Some(open), Some(close)) = (tail.find(" ("), tail.find(") panicked")) {
                if open < close && tail[open + 2..close].chars().all(|c| c.is_ascii_digit()) {
                    out.push_str(&tail[..open]);
                    out.push_str(" (TID)");
                    rest = &tail[close + 1..];
                    continue;
                }
            }
            out.push_str(&tail[..8]);
            rest = &tail[8..];
        }
        out.push_str(rest);
        stderr = out.into_bytes();
    }
    (r.code, r.signal, r.stdout.clone(), stderr)
}

/// Run every command N times on `path` and compare. `label` names the program in reports.
fn repeat_and_compare(cfg: &Cfg, stats: &mut Stats, generator: &str, index: u64, label: &str, path: &Path, cwd: &Path, skip_run: bool, tags: Vec<String>) {
    let n = cfg.tier.pick(6, 24);
    let bin = proc::zydeco_bin();
    let p = path.to_str().unwrap();
    for (name, args) in COMMANDS {
        if skip_run && *name == "run" {
            continue;
        }
        // the formatter's cost explodes with delimiter nesting (C12's recorded finding): not a determinism subject
        if *name == "fmt-check" && crate::props::fmtwork::delimiter_nesting(&std::fs::read_to_string(path).unwrap_or_default()) >= crate::props::fmtwork::COSTLY_NESTING {
            stats.count("fmt_skipped_deep_nesting");
            continue;
        }
        let mut argv: Vec<&str> = args.to_vec();
        argv.push(p);
        let mut outputs: Vec<(Option<i32>, Option<i32>, Vec<u8>, Vec<u8>)> = Vec::new();
        let mut completed = 0;
        for _ in 0..n {
            let r = proc::run(&bin, &argv, Some(cwd), b"7\nline two\n", 10, 120);
            stats.evaluations += 1;
            if r.wall_timeout || r.signal == Some(libc::SIGXCPU) || r.signal == Some(libc::SIGKILL) {
                stats.inconclusive("repetition exceeded its time budget");
                continue;
            }
            completed += 1;
            outputs.push(observe(&r));
        }
        if completed < 2 {
            continue;
        }
        let mut distinct: Vec<&(Option<i32>, Option<i32>, Vec<u8>, Vec<u8>)> = Vec::new();
        for o in &outputs {
            if !distinct.contains(&o) {
                distinct.push(o);
            }
        }
        stats.cover("commands", name);
        stats.cover("exit_status", &format!("{}:{:?}", name, outputs[0].0));
        if !outputs[0].2.is_empty() || !outputs[0].3.is_empty() {
            stats.nontrivial(format!("{}/{}", label, name).as_bytes());
        }
        if distinct.len() > 1 {
            // describe where two outputs differ
            let (a, b) = (distinct[0], distinct[1]);
            let which = if a.0 != b.0 || a.1 != b.1 { "exit status" } else if a.2 != b.2 { "stdout" } else { "stderr" };
            let (x, y) = if a.2 != b.2 { (&a.2, &b.2) } else { (&a.3, &b.3) };
            let at = x.iter().zip(y.iter()).position(|(p, q)| p != q).unwrap_or(x.len().min(y.len()));
            let excerpt = |v: &Vec<u8>| String::from_utf8_lossy(&v[at.saturating_sub(80)..(at + 120).min(v.len())]).to_string();
            stats.violation(Violation {
                signature: format!("nondeterministic-output {}", name),
                tags: tags.clone(),
                generator: generator.into(),
                index,
                detail: json!({
                    "program": label, "command": argv.join(" "), "repetitions": completed, "distinct_outputs": distinct.len(),
                    "differs_in": which, "first_difference_at_byte": at, "output_a_excerpt": excerpt(x), "output_b_excerpt": excerpt(y),
                    "source": std::fs::read_to_string(path).unwrap_or_default().chars().take(4000).collect::<String>(),
                }),
            });
        }
    }
}

fn run_fixture(cfg: &Cfg, index: u64, stats: &mut Stats) {
    let all = fixtures();
    // quick: a seeded selection; thorough: all
    let path = if cfg.tier == Tier::Quick {
        // quick: a seeded selection among the cheap fixtures (no import of the whole standard library)
        let cheap: Vec<&PathBuf> = all
            .iter()
            .filter(|p| {
                let t = std::fs::read_to_string(p).unwrap_or_default();
                t.len() < 4_000 && !t.contains("std.zy") && !t.contains("monad.zy")
            })
            .collect();
        let mut rng = Rng::for_case(cfg.seed, "C16/fixtures", index);
        cheap[(index as usize * 7 + rng.below(cheap.len())) % cheap.len()].clone()
    } else {
        all[index as usize].clone()
    };
    let text = std::fs::read_to_string(&path).unwrap_or_default();
    // fixtures that loop forever by design (compile-only tests) or draw random numbers are not `run`
    let name = path.to_string_lossy().to_string();
    let skip_run = text.contains("random") || name.contains("loop") || name.contains("/compile") || name.contains("gc-stress");
    let cwd = path.parent().unwrap_or(Path::new("/")).to_path_buf();
    let label = path.strip_prefix("/repo/").unwrap_or(&path).display().to_string();
    if index == 0 {
        stats.sample(json!({"fixture": label, "commands": COMMANDS.iter().map(|c| c.0).collect::<Vec<_>>()}));
    }
    repeat_and_compare(cfg, stats, "fixtures", index, &label, &path, &cwd, skip_run, vec!["fixture".into()]);
}

fn run_generated(cfg: &Cfg, index: u64, stats: &mut Stats) {
    let mut rng = Rng::for_case(cfg.seed, "C16/generated", index);
    let program = e1::generate::generate(cfg.seed, "C16", index);
    let style = e1::print::Style::plain();
    let kind = index % 10;
    let prelude = crate::prelude::MiniPrelude::core().text();
    let (text, tag) = match kind {
        | 4 => {
            // one pattern re-binds several names of its block: which duplicate is reported first?
            let k = 2 + rng.below(5);
            let mut names: Vec<String> = (0..k).map(|i| format!("{}{}", ["x", "y", "zed", "w'", "acc", "n", "q"][i % 7], i)).collect();
            let mut body = String::from("begin\n");
            for n in &names {
                body.push_str(&format!("let {n} = () that\n"));
            }
            rng.shuffle(&mut names);
            let units: Vec<&str> = names.iter().map(|_| "()").collect();
            body.push_str(&format!("let ({}) = ({}) that\n! exit 0\nend\n", names.join(", "), units.join(", ")));
            (format!("{prelude}{body}"), "rejected-several-duplicate-definitions")
        }
        | 5 => {
            // several unbound names / unknown constructors in one term
            let k = 2 + rng.below(5);
            let names: Vec<String> = (0..k).map(|i| format!("{}{}", ["ghost", "u", "missing", "t'", "k"][i % 5], i)).collect();
            let body = match rng.below(3) {
                | 0 => format!("let t = ({}) in\n! exit 0\n", names.join(", ")),
                | 1 => format!("begin\n{}! exit 0\nend\n", names.iter().map(|n| format!("let v_{n} = {n} that\n", n = n.replace('\'', ""))).collect::<String>()),
                | _ => format!("! write_line {} {{ ! exit {} }}\n", names[0], names[1]),
            };
            (format!("{prelude}{body}"), "rejected-several-unbound-names")
        }
        | 6 => {
            // a comatch that leaves several destructors without an arm and a match that leaves several constructors
            let k = 3 + rng.below(5);
            let dtors: Vec<String> = (0..k).map(|i| format!(".{}{}", ["north", "east", "south", "west", "up", "down", "in", "out"][i % 8], i)).collect();
            let ctors: Vec<String> = (0..k).map(|i| format!("+{}{}", ["Red", "Green", "Blue", "Cyan", "Plum", "Gold", "Rust", "Teal"][i % 8], i)).collect();
            let mut body = String::from("begin\n");
            body.push_str(&format!("def K : CType = codata {} end that\n", dtors.iter().map(|d| format!("| {d} : Ret Int64 ")).collect::<String>()));
            body.push_str(&format!("def D : VType = data {} end that\n", ctors.iter().map(|c| format!("| {c} : Unit ")).collect::<String>()));
            let keep = rng.below(2);
            if rng.chance(1, 2) {
                body.push_str(&format!("let o : Thk K = {{ comatch {} end }} that\n", dtors.iter().take(keep).map(|d| format!("| {d} => ret 1 ")).collect::<String>()));
            } else {
                body.push_str(&format!("let f = {{ fn (d : D) => match d {} end }} that\n", ctors.iter().take(keep + 1).map(|c| format!("| {c}() => ret 1 ")).collect::<String>()));
            }
            body.push_str("! exit 0\nend\n");
            (format!("{prelude}{body}"), "rejected-several-missing-arms")
        }
        | 8 => {
            // several recursive components that each go through a parameter: which one is blamed?
            let k = 2 + rng.below(4);
            let mut lines: Vec<String> = Vec::new();
            for i in 0..k {
                let (x, a) = (format!("{}{}", ["x", "y", "zed", "w", "n"][i % 5], i), format!("{}{}", ["A", "B", "Cee", "D", "E"][i % 5], i));
                lines.push(format!("param ({x} : {a}) that\ndef {a} = {x} that"));
            }
            rng.shuffle(&mut lines);
            (format!("{prelude}let t = {{ begin\n{}\nret 0\nend }} in\n! exit 0\n", lines.join("\n")), "rejected-several-recursive-parameters")
        }
        | 9 => {
            // an accepted program with several tuple (and named-product) variables that are bound to a literal and only
            // taken apart afterwards: the back end's passes meet several candidates of one optimisation at once, and
            // the order in which it treats them must not show in the printed intermediate programs
            let k = 2 + rng.below(6);
            let mut body = String::new();
            let mut lets: Vec<String> = Vec::new();
            let mut takes: Vec<String> = Vec::new();
            for i in 0..k {
                let name = format!("{}{i}", ["p", "q", "pair", "t", "u"][i % 5]);
                if rng.chance(1, 4) {
                    lets.push(format!("let {name} = (fst = {}, snd = {}) in\n", i + 1, 2 * i));
                    takes.push(format!("let (fst = a{i}, snd = b{i}) = {name} in\n"));
                } else if rng.chance(1, 4) {
                    lets.push(format!("let {name} = ({}, {}, {}) in\n", i + 1, 2 * i, i));
                    takes.push(format!("let (a{i}, b{i}, _) = {name} in\n"));
                } else {
                    lets.push(format!("let {name} = ({}, {}) in\n", i + 1, 2 * i));
                    takes.push(format!("let (a{i}, b{i}) = {name} in\n"));
                }
            }
            if rng.chance(1, 2) {
                // all bindings first, then all destructurings
                rng.shuffle(&mut takes);
                body.push_str(&lets.concat());
                body.push_str(&takes.concat());
            } else {
                for (l, t) in lets.iter().zip(takes.iter()) {
                    body.push_str(l);
                    body.push_str(t);
                }
            }
            // (components captured by a chain of continuations keep their tuples boxed: one use at the end)
            let (r, t) = (rng.below(k), rng.below(k));
            if rng.chance(1, 2) {
                body.push_str(&format!("! exit a{r}\n"));
            } else {
                body.push_str(&format!("do s <- ! add a{r} b{t};\n! exit s\n"));
            }
            (format!("{prelude}{body}"), "accepted-several-destructured-tuples")
        }
        | 7 => {
            // a random parse-valid term that is ill-formed in some earlier phase (directive, desugaring, name resolution)
            let term = crate::e2::grammar::source(&mut rng, false);
            (if rng.chance(1, 2) { format!("{prelude}{term}") } else { term }, "grammar-term")
        }
        | 0 => (e1::print::program_text(&program, &style, index), "accepted"),
        | 1 => {
            let (_, sites, _) = e1::print::program_text_mut(&program, &style, index, None);
            let target = if sites > 0 { Some(rng.below(sites)) } else { None };
            (e1::print::program_text_mut(&program, &style, index, target).0, "rejected-one-error")
        }
        | 2 => {
            // several independent coverage errors and holes: many reports at once
            let mut body = String::from("begin\ndef B : VType = data | +T : Unit | +F : Unit | +M : Unit end that\n");
            let k = 3 + rng.below(6);
            for i in 0..k {
                body.push_str(&format!("let f{i} = {{ fn (b : B) => match b | +T() => ret {i} end }} that\n"));
            }
            for i in 0..k {
                body.push_str(&format!("let h{i} : _ = {i} that\n"));
            }
            body.push_str("! exit 0\nend\n");
            (format!("{}{}", crate::prelude::MiniPrelude::core().text(), body), "rejected-many-reports")
        }
        | _ => {
            // many independent `that` bindings (ties in the dependency order)
            let mut body = String::from("begin\n");
            let k = 6 + rng.below(10);
            let mut names: Vec<usize> = (0..k).collect();
            rng.shuffle(&mut names);
            for i in &names {
                body.push_str(&format!("let v{i} = {} that\n", i * 3 + 1));
            }
            body.push_str("do s <- ! add v0 v1;\ndo t <- ! to_string s;\n! write_line t { ! exit 0 }\nend\n");
            (format!("{}{}", crate::prelude::MiniPrelude::core().text(), body), "many-that-bindings")
        }
    };
    let scratch = Scratch::new("c16");
    // constant absolute path across repetitions *and* runs: a fixed name inside the scratch dir
    let path = scratch.write("program.zy", text.as_bytes());
    stats.cover("program_kinds", tag);
    if index == 2 {
        stats.sample(json!({"generated_kind": tag, "program_excerpt": text.chars().rev().take(400).collect::<String>().chars().rev().collect::<String>()}));
    }
    repeat_and_compare(cfg, stats, "generated", index, &format!("generated-{}-{}", tag, index), &path, scratch.path(), false, vec![tag.to_string()]);
}
