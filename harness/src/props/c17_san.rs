//! C17 thorough extras: the storm under ThreadSanitizer (nightly, -Zbuild-std: std, salsa, dashmap and the repository
//! crates are all instrumented) and the allocator identity part under Miri with many seeds.

use crate::core::*;
use serde_json::json;
use std::collections::BTreeMap;
use std::path::Path;
use std::process::Command;

fn sh(cmd: &mut Command) -> (Option<i32>, String) {
    match cmd.output() {
        | Ok(o) => (o.status.code(), format!("{}{}", String::from_utf8_lossy(&o.stdout), String::from_utf8_lossy(&o.stderr))),
        | Err(e) => (None, format!("cannot run: {e}")),
    }
}

pub fn run(cfg: &Cfg, stats: &mut Stats) {
    if cfg.tier == Tier::Thorough {
        tsan(cfg, stats);
    }
    miri(cfg, stats);
}

fn tsan(cfg: &Cfg, stats: &mut Stats) {
    let root = crate::core::verif_root();
    let target_dir = root.join("target/tsan").display().to_string();
    let target_dir = target_dir.as_str();
    let (code, out) = sh(Command::new("cargo")
        .args(["+nightly", "build", "--offline", "-Zbuild-std", "--target", "x86_64-unknown-linux-gnu", "--target-dir", target_dir])
        .current_dir(root.join("harness"))
        .env("RUSTFLAGS", "-Zsanitizer=thread")
        .env("CARGO_NET_OFFLINE", "true"));
    if code != Some(0) {
        stats.inconclusive("ThreadSanitizer build failed");
        stats.notes.push(format!("tsan build failed: {}", out.lines().rev().take(6).collect::<Vec<_>>().join(" | ")));
        return;
    }
    let bin = format!("{target_dir}/x86_64-unknown-linux-gnu/debug/zv");
    let logs = format!("{target_dir}/logs");
    let _ = std::fs::create_dir_all(&logs);
    if let Ok(rd) = std::fs::read_dir(&logs) {
        for e in rd.flatten() {
            let _ = std::fs::remove_file(e.path());
        }
    }
    // several short processes rather than one long one
    let mut runs = 0;
    let mut storm_problems = 0;
    for k in 0..4u64 {
        let (code, out) = sh(Command::new(&bin)
            .args(["storm", &format!("{}", cfg.seed.wrapping_mul(31).wrapping_add(k)), "3", "40"])
            .env("TSAN_OPTIONS", format!("halt_on_error=0 exitcode=0 log_path={logs}/tsan second_deadlock_stack=1"))
            .env("VERIF_SCRATCH", target_dir));
        runs += 1;
        for line in out.lines() {
            if let Some(rest) = line.strip_prefix("storm ") {
                stats.notes.push(format!("tsan storm {k}/{rest}"));
                let field = |name: &str| rest.split_whitespace().find_map(|w| w.strip_prefix(name)).and_then(|v| v.parse::<u64>().ok()).unwrap_or(0);
                stats.add("tsan_analyses_completed", field("completed="));
                stats.add("tsan_analyses_cancelled", field("cancelled="));
                stats.evaluations += field("completed=") + field("cancelled=");
            }
            if line.starts_with("PROBLEM ") {
                storm_problems += 1;
                stats.notes.push(format!("tsan build, storm oracle: {}", line.chars().take(300).collect::<String>()));
            }
        }
        if code.is_none() || !matches!(code, Some(0) | Some(1)) {
            stats.violation(Violation {
                signature: format!("storm-under-tsan-died {:?}", code),
                tags: vec![],
                generator: "tsan".into(),
                index: k,
                detail: json!({"output_tail": out.lines().rev().take(20).collect::<Vec<_>>()}),
            });
        }
    }
    stats.add("tsan_processes", runs);
    stats.cover("sanitizers_run", "thread sanitizer (storm binary; std, salsa and dashmap instrumented with -Zbuild-std)");
    if storm_problems > 0 {
        stats.violation(Violation { signature: "storm-oracle-under-tsan".into(), tags: vec![], generator: "tsan".into(), index: 0, detail: json!({"problems": storm_problems}) });
    }
    // reports
    let mut reports: BTreeMap<String, (u64, String)> = BTreeMap::new();
    let mut total = 0u64;
    if let Ok(rd) = std::fs::read_dir(&logs) {
        for e in rd.flatten() {
            let Ok(text) = std::fs::read_to_string(e.path()) else { continue };
            for block in text.split("==================").filter(|b| b.contains("WARNING: ThreadSanitizer")) {
                total += 1;
                let kind = block.lines().find(|l| l.contains("WARNING: ThreadSanitizer")).map(|l| l.trim().split(" (pid").next().unwrap_or("").to_string()).unwrap_or_default();
                let frames: Vec<&str> = block.lines().filter(|l| l.trim_start().starts_with('#')).collect();
                let first_product = frames
                    .iter()
                    .find(|l| l.contains("zydeco_") || l.contains("salsa") || l.contains("dashmap"))
                    .map(|l| l.split_whitespace().nth(1).unwrap_or("?").to_string());
                let key = format!("{} @ {}", kind, first_product.clone().unwrap_or_else(|| "<no product frame>".into()));
                reports.entry(key).or_insert((0, block.lines().take(40).collect::<Vec<_>>().join("\n"))).0 += 1;
            }
        }
    }
    stats.add("tsan_reports", total);
    for (key, (count, block)) in reports {
        if key.contains("<no product frame>") {
            stats.notes.push(format!("tsan report without a product frame (listed, not believed) x{count}: {key}"));
        } else {
            stats.violation(Violation {
                signature: format!("tsan {}", key),
                tags: vec![],
                generator: "tsan".into(),
                index: 0,
                detail: json!({"count": count, "report": block}),
            });
        }
    }
}

fn miri(cfg: &Cfg, stats: &mut Stats) {
    let seeds = format!("-Zmiri-many-seeds=0..{}", cfg.tier.pick(4, 16));
    let root = crate::core::verif_root();
    let dir = root.join("miri-alloc");
    let dir = dir.as_path();
    if !dir.exists() {
        stats.inconclusive("miri crate missing");
        return;
    }
    let (code, out) = sh(Command::new("cargo")
        .args(["+nightly", "miri", "run", "--offline", "--target-dir", root.join("target/miri").to_str().unwrap_or("/verif/target/miri")])
        .current_dir(dir)
        .env("MIRIFLAGS", &seeds)
        .env("CARGO_NET_OFFLINE", "true"));
    let ok_lines = out.lines().filter(|l| l.starts_with("allocators ok")).count() as u64;
    stats.add("miri_seeds_clean", ok_lines);
    stats.cover("sanitizers_run", "miri (allocator identity race, zydeco-utils)");
    stats.evaluations += ok_lines;
    if code == Some(0) {
        return;
    }
    if out.contains("Undefined Behavior") || out.contains("Data race") || out.contains("COLLISION") {
        stats.violation(Violation {
            signature: "miri-report-in-allocator".into(),
            tags: vec![],
            generator: "miri".into(),
            index: 0,
            detail: json!({"output_tail": out.lines().rev().take(40).collect::<Vec<_>>()}),
        });
    } else {
        stats.inconclusive("miri run failed without a report");
        stats.notes.push(format!("miri: {}", out.lines().rev().take(6).collect::<Vec<_>>().join(" | ")));
    }
}
