#![allow(dead_code, unused_imports, unused_variables)]
//! `zv` — runtime-monitoring harness for zydeco-lang/zydeco (see /verif/DESIGN.md).
//!
//!   zv check <Cxx> <quick|thorough>        run a property check (writes evidence, prints verdict)
//!   zv replay <file>                       re-run the case recorded in a replay file
//!   zv shard ...                           internal: one shard of a sharded run
//!   zv list                                list the properties with checks

mod core;
mod e1;
mod e2;
mod hostcall;
mod lsp;
mod pipeline;
mod prelude;
mod props;
mod spsm;
mod util;

use crate::core::{Cfg, Tier};
use std::time::Instant;

fn main() {
    let args: Vec<String> = std::env::args().collect();
    let code = match args.get(1).map(|s| s.as_str()) {
        | Some("check") => {
            let (Some(prop), Some(tier)) = (args.get(2), args.get(3).and_then(|t| Tier::parse(t))) else {
                eprintln!("usage: zv check <Cxx> <quick|thorough>");
                std::process::exit(2);
            };
            let Some(def) = props::lookup(prop) else {
                eprintln!("no check for property {prop}");
                std::process::exit(2);
            };
            let cfg = Cfg::from_env(prop, tier);
            let started = Instant::now();
            let mut stats = core::run_sharded(&def, &cfg);
            (def.extra)(&cfg, &mut stats);
            core::finish(&def, &cfg, &stats, started)
        }
        | Some("shard") => {
            // zv shard <prop> <tier> <seed> <gen> <k> <n> <start> <out> <progress>
            if args.len() < 11 {
                eprintln!("bad shard invocation");
                std::process::exit(2);
            }
            let def = props::lookup(&args[2]).expect("property");
            let tier = Tier::parse(&args[3]).expect("tier");
            let seed: u64 = args[4].parse().expect("seed");
            let mut cfg = Cfg::from_env(&args[2], tier);
            cfg.seed = seed;
            let k: u64 = args[6].parse().expect("k");
            let n: u64 = args[7].parse().expect("n");
            let start: u64 = args[8].parse().expect("start");
            core::shard_main(&def, &cfg, &args[5], k, n, start, std::path::Path::new(&args[9]), std::path::Path::new(&args[10]))
        }
        | Some("replay") => {
            let Some(path) = args.get(2) else {
                eprintln!("usage: zv replay <file>");
                std::process::exit(2);
            };
            replay(path)
        }
        | Some("e1") => {
            // zv e1 <tag> <seed> <index> [style#] : print one generated program (body only) and its verdict
            let tag = args.get(2).cloned().unwrap_or("C02".into());
            let seed: u64 = args.get(3).and_then(|s| s.parse().ok()).unwrap_or(0);
            let index: u64 = args.get(4).and_then(|s| s.parse().ok()).unwrap_or(0);
            let style_no: usize = args.get(5).and_then(|s| s.parse().ok()).unwrap_or(0);
            let program = e1::generate::generate(seed, &tag, index);
            // styles 0.. are C02's erasure styles, 10.. are C07's naming strategies
            let styles = if style_no >= 10 { props::c07::strategies() } else { props::c02::styles_for(index) };
            let style_no = if style_no >= 10 { style_no - 10 } else { style_no };
            let style = &styles[style_no.min(styles.len() - 1)];
            let text = e1::print::program_text(&program, style, seed ^ index);
            let body_at = text.find(") in\n").map(|i| i + 5).unwrap_or(0);
            println!("{}", &text[body_at..]);
            let reference = e1::eval::run(&program, 400_000);
            println!("--- reference: {:?} stdout={:?}", reference.end, String::from_utf8_lossy(&reference.stdout));
            let r = pipeline::check_and_run(&pipeline::Sources::single(text), b"", &[], 2_000_000);
            let brief = r.verdict.brief();
            println!("--- style {} verdict: {}", style.describe(), brief.lines().take(12).collect::<Vec<_>>().join("\n"));
            if let Some(run) = r.run {
                println!("--- run: {:?} stdout={:?}", run.end, String::from_utf8_lossy(&run.stdout));
            }
            0
        }
        | Some("storm") => {
            let n = |i: usize, d: u64| args.get(i).and_then(|a| a.parse::<u64>().ok()).unwrap_or(d);
            props::c17::storm_main(n(2, 0), n(3, 2), n(4, 40) as u32)
        }
        | Some("fmtprobe") => {
            // zv fmtprobe <file> : format with default options; print the output and both desugared terms (development aid)
            let text = std::fs::read_to_string(args.get(2).map(|s| s.as_str()).unwrap_or("")).unwrap_or_default();
            match e2::format(&text) {
                | Ok(Ok(out)) => {
                    println!("--- output\n{out}--- desugared input\n{:?}\n--- desugared output\n{:?}", e2::desugared(&text).map_err(|p| p.short()), e2::desugared(&out).map_err(|p| p.short()));
                    println!("--- C13 compare: {:?}", props::c13::compare(&text, &out));
                }
                | other => println!("formatter: {:?}", other.map_err(|p| p.short())),
            }
            0
        }
        | Some("prelude") => {
            print!("{}", prelude::MiniPrelude::core().text());
            0
        }
        | Some("list") => {
            for def in props::all() {
                println!("{} {}", def.id, def.title);
            }
            0
        }
        | _ => {
            eprintln!("usage: zv check|replay|list ...");
            2
        }
    };
    std::process::exit(code);
}

/// Re-run exactly the recorded case against the current tree and print its verdict.
fn replay(path: &str) -> i32 {
    let text = match std::fs::read_to_string(path) {
        | Ok(t) => t,
        | Err(e) => {
            eprintln!("cannot read {path}: {e}");
            return 2;
        }
    };
    let v: serde_json::Value = match serde_json::from_str(&text) {
        | Ok(v) => v,
        | Err(e) => {
            eprintln!("replay file does not parse: {e}");
            return 2;
        }
    };
    let prop = v["property"].as_str().unwrap_or("");
    let Some(def) = props::lookup(prop) else {
        eprintln!("no check for property {prop}");
        return 2;
    };
    let tier = Tier::parse(v["tier"].as_str().unwrap_or("quick")).unwrap_or(Tier::Quick);
    let mut cfg = Cfg::from_env(prop, tier);
    cfg.seed = v["seed"].as_u64().unwrap_or(0);
    let generator = v["violation"]["generator"].as_str().unwrap_or("");
    let index = v["violation"]["index"].as_u64().unwrap_or(0);
    let Some(g) = (def.generators)(&cfg).into_iter().find(|g| g.name == generator) else {
        eprintln!("replay: property {prop} has no generator {generator}; the case is in the file's detail field");
        return 2;
    };
    let mut stats = core::Stats::default();
    println!("replaying {prop} {generator}#{index} (tier {}, seed {})", tier.name(), cfg.seed);
    match util::panic::catch(|| (g.run)(&cfg, index, &mut stats)) {
        | Ok(()) => {}
        | Err(p) => {
            println!("harness panic during replay: {}", p.short());
            return 2;
        }
    }
    let known = core::load_known_findings();
    let mut bad = false;
    for viol in &stats.violations {
        if let Some(k) = core::match_known(&known, prop, viol) {
            println!("KNOWN-FINDING: property={prop} {}", k.what);
        } else {
            bad = true;
            println!("VIOLATION property={prop} replay={path}");
        }
        println!("{}", serde_json::to_string_pretty(&viol.to_json()).unwrap_or_default());
    }
    if bad {
        1
    } else {
        println!("replay: property held on this case");
        0
    }
}
