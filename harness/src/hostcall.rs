//! Direct calls of host operations through the public machine: operands are pushed as `App` frames on
//! `Runtime.stack`, then one `Computation::Prim{..}.step(..)` is taken and the returned computation is
//! decoded structurally. (`BuiltinRuntime::invoke` itself needs a `HostRuntime`, whose constructor is
//! crate-private; `Prim.step` is the public route to it.)

use crate::util::panic::{PanicInfo, catch};
use std::rc::Rc;
use zydeco_dynamics::syntax::{Computation, DynamicsProgram, EnvThunk, Prim, SemCompu, SemValue, Value};
use zydeco_dynamics::{Eval, ProgKont, Runtime, Step};
use zydeco_statics::environment::Env;
use zydeco_syntax::*;
use zydeco_utils::prelude::ArenaSparse;

/// A thunk whose identity can be recognised in the result: its body is `ret <tag>`.
pub fn tagged_thunk(tag: i64) -> SemValue {
    let body: Computation =
        Return(Rc::new(Value::Lit(Literal::Integer(IntegerLiteral::Int64(tag))))).into();
    SemValue::Thunk(EnvThunk { body: Rc::new(body), env: Env::new() })
}

fn thunk_tag(v: &SemValue) -> Option<i64> {
    let SemValue::Thunk(EnvThunk { body, .. }) = v else { return None };
    let Computation::Ret(Return(value)) = body.as_ref() else { return None };
    match value.as_ref() {
        | Value::Lit(Literal::Integer(IntegerLiteral::Int64(tag))) => Some(*tag),
        | _ => None,
    }
}

#[derive(Clone, Debug)]
pub enum HostOutcome {
    /// `ret v`
    Ret(SemValue),
    /// the thunk with this tag was selected and applied to these arguments (in application order)
    Branch { tag: i64, applied: Vec<SemValue> },
    /// the machine ended with an exit code
    Exit(i32),
    /// some other computation shape (not decoded)
    Other(String),
}

pub struct HostCall {
    pub outcome: Result<HostOutcome, PanicInfo>,
    pub stdout: Vec<u8>,
    /// frames left on the stack after the step (must be 0: the operation consumed exactly its arguments)
    pub frames_left: usize,
}

fn decode(c: &Computation) -> HostOutcome {
    // peel applications
    let mut applied_rev: Vec<SemValue> = Vec::new();
    let mut cur = c;
    loop {
        match cur {
            | Computation::VApp(App(inner, arg)) => {
                match arg.as_ref() {
                    | Value::SemValue(s) => applied_rev.push(s.clone()),
                    | other => return HostOutcome::Other(format!("non-semantic argument {:?}", other)),
                }
                cur = inner.as_ref();
            }
            | Computation::Force(Force(v)) => {
                let Value::SemValue(s) = v.as_ref() else {
                    return HostOutcome::Other("force of non-semantic value".into());
                };
                let Some(tag) = thunk_tag(s) else {
                    return HostOutcome::Other("force of an untagged thunk".into());
                };
                applied_rev.reverse();
                return HostOutcome::Branch { tag, applied: applied_rev };
            }
            | Computation::Ret(Return(v)) if applied_rev.is_empty() => {
                return match v.as_ref() {
                    | Value::SemValue(s) => HostOutcome::Ret(s.clone()),
                    | other => HostOutcome::Other(format!("ret of non-semantic value {:?}", other)),
                };
            }
            | other => return HostOutcome::Other(format!("{:?}", other).chars().take(200).collect()),
        }
    }
}

/// Invoke `role` with `args` (in declaration order) on a fresh machine.
pub fn call(role: BuiltinValueRole, arity: usize, args: Vec<SemValue>, stdin: &[u8], argv: &[String]) -> HostCall {
    let mut input = std::io::Cursor::new(stdin.to_vec());
    let mut output: Vec<u8> = Vec::new();
    let outcome;
    let frames_left;
    {
        let root: Computation = Return(Rc::new(Value::Triv(Triv))).into();
        let program = DynamicsProgram { defs: ArenaSparse::new(), root: Rc::new(root) };
        let mut runtime = Runtime::new(&mut input, &mut output, argv, program);
        for arg in args.into_iter().rev() {
            runtime.stack.push_back(SemCompu::App(arg));
        }
        let prim: Computation = Computation::Prim(Prim { arity: arity as u64, role });
        outcome = catch(|| prim.step(&mut runtime)).map(|step| match step {
            | Step::Step(next) => decode(&next),
            | Step::Done(ProgKont::ExitCode(c)) => HostOutcome::Exit(c),
            | Step::Done(other) => HostOutcome::Other(format!("{:?}", other)),
        });
        frames_left = runtime.stack.len();
    }
    HostCall { outcome, stdout: output, frames_left }
}

pub fn int_lit(ty: IntegerType, value: i128) -> SemValue {
    SemValue::Literal(Literal::Integer(make_int(ty, value)))
}

/// Build the carrier directly (not through the repository's `with_type`, which is under test).
pub fn make_int(ty: IntegerType, value: i128) -> IntegerLiteral {
    match ty {
        | IntegerType::Int8 => IntegerLiteral::Int8(value as i8),
        | IntegerType::Int16 => IntegerLiteral::Int16(value as i16),
        | IntegerType::Int32 => IntegerLiteral::Int32(value as i32),
        | IntegerType::Int64 => IntegerLiteral::Int64(value as i64),
        | IntegerType::UInt8 => IntegerLiteral::UInt8(value as u8),
        | IntegerType::UInt16 => IntegerLiteral::UInt16(value as u16),
        | IntegerType::UInt32 => IntegerLiteral::UInt32(value as u32),
        | IntegerType::UInt64 => IntegerLiteral::UInt64(value as u64),
    }
}

/// Read back (type, mathematical value) from a literal without using `IntegerLiteral::value`.
pub fn read_int(l: &IntegerLiteral) -> Option<(IntegerType, i128)> {
    Some(match l {
        | IntegerLiteral::Int8(v) => (IntegerType::Int8, *v as i128),
        | IntegerLiteral::Int16(v) => (IntegerType::Int16, *v as i128),
        | IntegerLiteral::Int32(v) => (IntegerType::Int32, *v as i128),
        | IntegerLiteral::Int64(v) => (IntegerType::Int64, *v as i128),
        | IntegerLiteral::UInt8(v) => (IntegerType::UInt8, *v as i128),
        | IntegerLiteral::UInt16(v) => (IntegerType::UInt16, *v as i128),
        | IntegerLiteral::UInt32(v) => (IntegerType::UInt32, *v as i128),
        | IntegerLiteral::UInt64(v) => (IntegerType::UInt64, *v as i128),
        | IntegerLiteral::Unresolved(_) => return None,
    })
}

pub fn str_lit(s: &str) -> SemValue {
    SemValue::Literal(Literal::String(Utf8String::from(s)))
}

pub fn char_lit(c: char) -> SemValue {
    SemValue::Literal(Literal::Char(c))
}

/* ------------------------------------------------------------------------------------------ */
/* Sessions: several host calls on one machine (handles stay valid between calls)              */
/* ------------------------------------------------------------------------------------------ */

pub struct HostSession<'rt> {
    runtime: Runtime<'rt>,
}

impl<'rt> HostSession<'rt> {
    /// Invoke `role` with `args` (in declaration order). Returns the decoded outcome and the frames left.
    pub fn call(&mut self, role: BuiltinValueRole, args: Vec<SemValue>) -> (Result<HostOutcome, PanicInfo>, usize) {
        let before = self.runtime.stack.len();
        for arg in args.into_iter().rev() {
            self.runtime.stack.push_back(SemCompu::App(arg));
        }
        let prim: Computation = Computation::Prim(Prim { arity: role.arity() as u64, role });
        let runtime = &mut self.runtime;
        let outcome = catch(|| prim.step(runtime)).map(|step| match step {
            | Step::Step(next) => decode(&next),
            | Step::Done(ProgKont::ExitCode(c)) => HostOutcome::Exit(c),
            | Step::Done(other) => HostOutcome::Other(format!("{:?}", other)),
        });
        let left = self.runtime.stack.len().saturating_sub(before);
        // keep the stack clean for the next call even if the operation left something behind
        while self.runtime.stack.len() > before {
            self.runtime.stack.pop_back();
        }
        (outcome, left)
    }
}

/// Run `f` with a session over the given stdin/argv; returns f's result and the bytes written to stdout.
pub fn with_session<T>(stdin: &[u8], argv: &[String], f: impl FnOnce(&mut HostSession<'_>) -> T) -> (T, Vec<u8>) {
    let mut input = std::io::Cursor::new(stdin.to_vec());
    let mut output: Vec<u8> = Vec::new();
    let result;
    {
        let root: Computation = Return(Rc::new(Value::Triv(Triv))).into();
        let program = DynamicsProgram { defs: ArenaSparse::new(), root: Rc::new(root) };
        let runtime = Runtime::new(&mut input, &mut output, argv, program);
        let mut session = HostSession { runtime };
        result = f(&mut session);
    }
    (result, output)
}
