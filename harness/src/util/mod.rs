pub mod panic;
pub mod rng;
pub mod proc;
pub mod scratch;
