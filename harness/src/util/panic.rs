//! Panic capture: a silent hook records (file, line, message) per thread; `catch` runs a
//! closure under catch_unwind and returns the record.

use std::cell::RefCell;
use std::panic::{AssertUnwindSafe, catch_unwind};
use std::sync::Once;

#[derive(Clone, Debug, PartialEq, Eq)]
pub struct PanicInfo {
    pub file: String,
    pub line: u32,
    pub message: String,
}

impl PanicInfo {
    pub fn site(&self) -> String {
        // Path relative to /repo where possible, so signatures do not depend on the checkout.
        let f = self.file.strip_prefix("/repo/").unwrap_or(&self.file);
        format!("{}:{}", f, self.line)
    }
    pub fn short(&self) -> String {
        let mut m = self.message.replace('\n', " ");
        if m.len() > 160 {
            let mut cut = 160;
            while !m.is_char_boundary(cut) {
                cut -= 1;
            }
            m.truncate(cut);
        }
        format!("{} {}", self.site(), m)
    }
}

thread_local! {
    static LAST: RefCell<Option<PanicInfo>> = const { RefCell::new(None) };
    static QUIET: RefCell<bool> = const { RefCell::new(false) };
}

static INSTALL: Once = Once::new();

pub fn install_hook() {
    INSTALL.call_once(|| {
        let previous = std::panic::take_hook();
        std::panic::set_hook(Box::new(move |info| {
            let (file, line) =
                info.location().map(|l| (l.file().to_string(), l.line())).unwrap_or_default();
            let message = if let Some(s) = info.payload().downcast_ref::<&str>() {
                (*s).to_string()
            } else if let Some(s) = info.payload().downcast_ref::<String>() {
                s.clone()
            } else {
                "<non-string panic payload>".to_string()
            };
            LAST.with(|l| *l.borrow_mut() = Some(PanicInfo { file, line, message }));
            let quiet = QUIET.with(|q| *q.borrow());
            if !quiet {
                previous(info);
            }
        }));
    });
}

/// Run `f`; `Err(info)` if it panicked. The hook is silent while `f` runs.
pub fn catch<T>(f: impl FnOnce() -> T) -> Result<T, PanicInfo> {
    install_hook();
    LAST.with(|l| *l.borrow_mut() = None);
    let was = QUIET.with(|q| std::mem::replace(&mut *q.borrow_mut(), true));
    let result = catch_unwind(AssertUnwindSafe(f));
    QUIET.with(|q| *q.borrow_mut() = was);
    match result {
        | Ok(value) => Ok(value),
        | Err(payload) => {
            let info = LAST.with(|l| l.borrow_mut().take()).unwrap_or_else(|| {
                // e.g. salsa::Cancelled uses resume_unwind without running the hook
                let message = if payload.downcast_ref::<salsa::Cancelled>().is_some() {
                    "salsa::Cancelled".to_string()
                } else {
                    "<unwind without panic hook>".to_string()
                };
                PanicInfo { file: String::new(), line: 0, message }
            });
            Err(info)
        }
    }
}
