//! SplitMix64: every case is regenerable from (seed, property, index).

#[derive(Clone, Debug)]
pub struct Rng(pub u64);

impl Rng {
    pub fn new(seed: u64) -> Self {
        Rng(seed ^ 0x9E37_79B9_7F4A_7C15)
    }
    /// Independent stream for a (seed, tag, index) triple.
    pub fn for_case(seed: u64, tag: &str, index: u64) -> Self {
        let mut h = seed.wrapping_mul(0xA076_1D64_78BD_642F) ^ 0x1234_5678_9ABC_DEF0;
        for b in tag.bytes() {
            h = (h ^ b as u64).wrapping_mul(0x1000_0000_01B3);
        }
        let mut r = Rng(h ^ index.wrapping_mul(0xD6E8_FEB8_6659_FD93));
        r.next();
        r.next();
        r
    }
    pub fn next(&mut self) -> u64 {
        self.0 = self.0.wrapping_add(0x9E37_79B9_7F4A_7C15);
        let mut z = self.0;
        z = (z ^ (z >> 30)).wrapping_mul(0xBF58_476D_1CE4_E5B9);
        z = (z ^ (z >> 27)).wrapping_mul(0x94D0_49BB_1331_11EB);
        z ^ (z >> 31)
    }
    /// Uniform in 0..n (n > 0).
    pub fn below(&mut self, n: usize) -> usize {
        debug_assert!(n > 0);
        (self.next() % n as u64) as usize
    }
    pub fn range(&mut self, lo: i64, hi: i64) -> i64 {
        lo + (self.next() % ((hi - lo + 1) as u64)) as i64
    }
    pub fn chance(&mut self, num: u32, den: u32) -> bool {
        (self.next() % den as u64) < num as u64
    }
    pub fn pick<'a, T>(&mut self, items: &'a [T]) -> &'a T {
        &items[self.below(items.len())]
    }
    pub fn shuffle<T>(&mut self, items: &mut [T]) {
        for i in (1..items.len()).rev() {
            let j = self.below(i + 1);
            items.swap(i, j);
        }
    }
    /// Pick an index according to integer weights.
    pub fn weighted(&mut self, weights: &[u32]) -> usize {
        let total: u64 = weights.iter().map(|w| *w as u64).sum();
        debug_assert!(total > 0);
        let mut x = self.next() % total;
        for (i, w) in weights.iter().enumerate() {
            if x < *w as u64 {
                return i;
            }
            x -= *w as u64;
        }
        weights.len() - 1
    }
}

pub fn hash64(bytes: &[u8]) -> u64 {
    let mut h: u64 = 0xcbf2_9ce4_8422_2325;
    for b in bytes {
        h ^= *b as u64;
        h = h.wrapping_mul(0x0000_0100_0000_01B3);
    }
    // final avalanche
    h ^= h >> 32;
    h = h.wrapping_mul(0xD6E8_FEB8_6659_FD93);
    h ^ (h >> 29)
}
