//! Scratch directories: created at run time under $VERIF_SCRATCH or the system temp dir, removed on drop.

use std::path::{Path, PathBuf};
use std::sync::atomic::{AtomicU64, Ordering};

static COUNTER: AtomicU64 = AtomicU64::new(0);

pub struct Scratch {
    path: PathBuf,
}

impl Scratch {
    pub fn new(tag: &str) -> Self {
        let base = std::env::var_os("VERIF_SCRATCH")
            .map(PathBuf::from)
            .unwrap_or_else(std::env::temp_dir);
        let n = COUNTER.fetch_add(1, Ordering::Relaxed);
        let path = base.join(format!("zv-{}-{}-{}", tag, std::process::id(), n));
        let _ = std::fs::remove_dir_all(&path);
        std::fs::create_dir_all(&path).expect("create scratch dir");
        let path = path.canonicalize().expect("canonical scratch dir");
        Scratch { path }
    }
    pub fn path(&self) -> &Path {
        &self.path
    }
    pub fn join(&self, rel: &str) -> PathBuf {
        self.path.join(rel)
    }
    pub fn write(&self, rel: &str, content: &[u8]) -> PathBuf {
        let p = self.path.join(rel);
        if let Some(parent) = p.parent() {
            std::fs::create_dir_all(parent).expect("create scratch subdir");
        }
        std::fs::write(&p, content).expect("write scratch file");
        p
    }
}

impl Drop for Scratch {
    fn drop(&mut self) {
        let _ = std::fs::remove_dir_all(&self.path);
    }
}
