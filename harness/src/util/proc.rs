//! E6 process runner: runs a binary with captured output, RLIMIT_CPU, and a wall-clock watchdog.

use std::io::{Read, Write};
use std::os::unix::process::{CommandExt, ExitStatusExt};
use std::path::Path;
use std::process::{Command, Stdio};
use std::time::{Duration, Instant};

#[derive(Clone, Debug)]
pub struct ProcResult {
    pub code: Option<i32>,
    pub signal: Option<i32>,
    pub stdout: Vec<u8>,
    pub stderr: Vec<u8>,
    pub wall_timeout: bool,
    pub cpu_s: f64,
}

impl ProcResult {
    pub fn status_string(&self) -> String {
        if self.wall_timeout {
            "wall-timeout".to_string()
        } else if let Some(s) = self.signal {
            format!("signal {}", s)
        } else {
            format!("exit {}", self.code.unwrap_or(-1))
        }
    }
}

pub fn zydeco_bin() -> std::path::PathBuf {
    std::env::var_os("ZV_ZYDECO_BIN")
        .map(Into::into)
        .unwrap_or_else(|| crate::core::verif_root().join("target/repo/debug/zydeco"))
}

pub fn run(
    bin: &Path, args: &[&str], cwd: Option<&Path>, stdin: &[u8], cpu_limit_s: u64, wall_limit_s: u64,
) -> ProcResult {
    let mut cmd = Command::new(bin);
    cmd.args(args).stdin(Stdio::piped()).stdout(Stdio::piped()).stderr(Stdio::piped());
    cmd.env_clear();
    cmd.env("PATH", "/usr/bin:/bin");
    cmd.env("NO_COLOR", "1");
    if let Some(cwd) = cwd {
        cmd.current_dir(cwd);
    }
    unsafe {
        cmd.pre_exec(move || {
            let lim = libc::rlimit { rlim_cur: cpu_limit_s, rlim_max: cpu_limit_s + 2 };
            libc::setrlimit(libc::RLIMIT_CPU, &lim);
            // no core dumps
            let zero = libc::rlimit { rlim_cur: 0, rlim_max: 0 };
            libc::setrlimit(libc::RLIMIT_CORE, &zero);
            Ok(())
        });
    }
    let start = Instant::now();
    let mut child = cmd.spawn().expect("spawn process");
    let mut child_stdin = child.stdin.take().unwrap();
    let input = stdin.to_vec();
    let writer = std::thread::spawn(move || {
        let _ = child_stdin.write_all(&input);
    });
    let mut out = child.stdout.take().unwrap();
    let mut err = child.stderr.take().unwrap();
    let out_thread = std::thread::spawn(move || {
        let mut buf = Vec::new();
        let _ = out.read_to_end(&mut buf);
        buf
    });
    let err_thread = std::thread::spawn(move || {
        let mut buf = Vec::new();
        let _ = err.read_to_end(&mut buf);
        buf
    });
    let mut wall_timeout = false;
    let status = loop {
        match child.try_wait().expect("wait") {
            | Some(status) => break status,
            | None => {
                if start.elapsed() > Duration::from_secs(wall_limit_s) {
                    wall_timeout = true;
                    let _ = child.kill();
                    break child.wait().expect("wait after kill");
                }
                std::thread::sleep(Duration::from_millis(2));
            }
        }
    };
    let _ = writer.join();
    let stdout = out_thread.join().unwrap_or_default();
    let stderr = err_thread.join().unwrap_or_default();
    let cpu_s = start.elapsed().as_secs_f64();
    ProcResult { code: status.code(), signal: status.signal(), stdout, stderr, wall_timeout, cpu_s }
}
