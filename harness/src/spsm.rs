//! E5 — reference machine for first-order stack-passing form (`zydeco_stackir::sps_low`).
//!
//! State = (computation id, value environment, ambient stack). Constructor / destructor dispatch is **by numeric
//! index** (what the native back ends implement); the name is kept only for reporting. Extern calls dispatch by
//! host name to the harness's own host model with the `Returning` / `Control` calling conventions.

use std::collections::HashMap;
use std::rc::Rc;
use zydeco_stackir::sps_low::syntax::*;
use zydeco_stackir::{BuiltinSort, HostCallMode, SpsLowProgram};

#[derive(Clone, Debug)]
pub enum MV {
    Lit(Literal),
    Triv,
    /// flat product of `arity` fields
    Prod(Rc<Vec<MV>>),
    Ctor(usize, String, Rc<MV>),
    /// a first-order code block (by the id of the `Block` value)
    Code(ValueId),
    Pack(Rc<MV>, Rc<MV>),
}

#[derive(Clone, Debug)]
pub enum Frame {
    Arg(MV),
    Tag(usize, String),
    Kont { code: MV },
}

/// persistent stack: cons list
#[derive(Clone, Debug, Default)]
pub struct MStack(Option<Rc<(Frame, MStack)>>);

impl MStack {
    fn push(&self, f: Frame) -> MStack {
        MStack(Some(Rc::new((f, self.clone()))))
    }
    fn pop(&self) -> Option<(Frame, MStack)> {
        self.0.as_ref().map(|n| (n.0.clone(), n.1.clone()))
    }
    pub fn depth(&self) -> usize {
        let mut n = 0;
        let mut cur = &self.0;
        while let Some(node) = cur {
            n += 1;
            cur = &node.1.0;
        }
        n
    }
}

#[derive(Clone, Debug, PartialEq, Eq)]
pub enum MEnd {
    Exit(i32),
    FuelOut,
    /// the machine got stuck: the lowered program is ill-formed for this semantics
    Stuck(String),
    /// a construct the reference machine does not model (reported as inconclusive)
    Unsupported(String),
}

pub struct MRun {
    pub stdout: Vec<u8>,
    pub end: MEnd,
    pub steps: u64,
    pub forms: std::collections::BTreeSet<&'static str>,
}

type Env = im::HashMap<DefId, MV>;

struct Machine<'a> {
    arena: &'a SpsLowArena,
    stdout: Vec<u8>,
    stdin: std::io::Cursor<Vec<u8>>,
}

fn flatten_product(items: Vec<MV>, arity: usize) -> Result<MV, String> {
    // `items.len() <= arity`: the last item carries the remaining fields of the spine
    if items.len() == arity {
        return Ok(MV::Prod(Rc::new(items)));
    }
    let mut fields = items;
    let last = fields.pop().ok_or("empty product")?;
    let missing = arity - fields.len();
    match last {
        | MV::Prod(tail) if tail.len() == missing => {
            fields.extend(tail.iter().cloned());
            Ok(MV::Prod(Rc::new(fields)))
        }
        | other => Err(format!("product of arity {} built from {} items whose tail is {:?}", arity, fields.len() + 1, other)),
    }
}

impl<'a> Machine<'a> {
    fn value(&self, id: ValueId, env: &Env) -> Result<MV, String> {
        Ok(match &self.arena.inner.values[&id] {
            | Value::Hole(_) => return Err("hole value".into()),
            | Value::Var(def) => env.get(def).cloned().ok_or_else(|| format!("unbound variable {:?}", def))?,
            | Value::Block(_) => MV::Code(id),
            | Value::ClosurePackage(ClosurePackage { environment, code }) => {
                MV::Pack(Rc::new(self.value(*environment, env)?), Rc::new(self.value(*code, env)?))
            }
            | Value::Ctor(Ctor(CtorIdx { idx, name }, body)) => MV::Ctor(*idx, name.0.clone(), Rc::new(self.value(*body, env)?)),
            | Value::Triv(_) => MV::Triv,
            | Value::VCons(VCons { items, layout }) => {
                let values: Vec<MV> = items.iter().map(|i| self.value(*i, env)).collect::<Result<_, _>>()?;
                flatten_product(values, layout.arity)?
            }
            | Value::Literal(l) => MV::Lit(l.clone()),
            | Value::Complex(c) => return Err(format!("UNSUPPORTED complex operator {}", c.operator)),
        })
    }

    fn stack(&self, id: StackId, env: &Env, ambient: &MStack) -> Result<MStack, String> {
        Ok(match &self.arena.inner.stacks[&id] {
            | Stack::Var(_) => ambient.clone(),
            | Stack::Arg(Cons(v, rest)) => {
                let rest = self.stack(*rest, env, ambient)?;
                rest.push(Frame::Arg(self.value(*v, env)?))
            }
            | Stack::Tag(Cons(DtorIdx { idx, name }, rest)) => self.stack(*rest, env, ambient)?.push(Frame::Tag(*idx, name.0.clone())),
            | Stack::ContinuationPackage(ContinuationPackage { code, residual }) => {
                let residual = self.stack(*residual, env, ambient)?;
                residual.push(Frame::Kont { code: self.value(*code, env)? })
            }
        })
    }

    /// Bind a pattern; Ok(None) = refutable pattern (constructor index) did not match.
    fn bind(&self, pat: VPatId, value: &MV, env: Env) -> Result<Option<Env>, String> {
        Ok(match (&self.arena.inner.vpats[&pat], value) {
            | (ValuePattern::Hole(_), _) => Some(env),
            | (ValuePattern::Var(def), _) => Some(env.update(*def, value.clone())),
            | (ValuePattern::Triv(_), MV::Triv) => Some(env),
            | (ValuePattern::Ctor(Ctor(CtorIdx { idx, .. }, inner)), MV::Ctor(vidx, _, payload)) => {
                if idx != vidx {
                    None
                } else {
                    self.bind(*inner, payload, env)?
                }
            }
            | (ValuePattern::Alias(Alias(patterns)), _) => {
                let mut env = env;
                for p in patterns.iter() {
                    match self.bind(*p, value, env)? {
                        | Some(e) => env = e,
                        | None => return Ok(None),
                    }
                }
                Some(env)
            }
            | (ValuePattern::VCons(VCons { items, layout }), MV::Prod(fields)) => {
                if fields.len() != layout.arity {
                    return Err(format!("product pattern of arity {} against a value with {} fields", layout.arity, fields.len()));
                }
                let pats: Vec<VPatId> = items.iter().copied().collect();
                let mut env = env;
                for (i, p) in pats.iter().enumerate() {
                    let component = if i + 1 == pats.len() && pats.len() < fields.len() {
                        MV::Prod(Rc::new(fields[i..].to_vec()))
                    } else {
                        fields[i].clone()
                    };
                    match self.bind(*p, &component, env)? {
                        | Some(e) => env = e,
                        | None => return Ok(None),
                    }
                }
                Some(env)
            }
            | (p, v) => return Err(format!("pattern {:?} against value {:?}", p, short(v))),
        })
    }
}

fn short(v: &MV) -> String {
    let s = format!("{:?}", v);
    s.chars().take(120).collect()
}

/// What a host operation does, in terms of the machine.
enum HostResult {
    Return(MV),
    /// force this closure with these arguments
    Control(MV, Vec<MV>),
    Exit(i32),
    Unsupported(String),
}

fn as_i64(v: &MV) -> Option<i64> {
    match v {
        | MV::Lit(Literal::Integer(IntegerLiteral::Int64(i))) => Some(*i),
        | _ => None,
    }
}
fn as_str(v: &MV) -> Option<String> {
    match v {
        | MV::Lit(Literal::String(s)) => Some(s.as_str().to_string()),
        | _ => None,
    }
}
fn int(v: i64) -> MV {
    MV::Lit(Literal::Integer(IntegerLiteral::Int64(v)))
}
fn string(s: String) -> MV {
    MV::Lit(Literal::String(Utf8String::from(s)))
}

/// The harness host model (the operations generated programs use; anything else is reported as unsupported).
fn host(name: &str, args: &[MV], stdout: &mut Vec<u8>) -> HostResult {
    let bad = || HostResult::Unsupported(format!("host {} applied to {:?}", name, args.iter().map(short).collect::<Vec<_>>()));
    match (name, args) {
        | ("exit", [c]) => as_i64(c).map(|c| HostResult::Exit(c as i32)).unwrap_or_else(bad),
        | ("write_line", [s, k]) => match as_str(s) {
            | Some(s) => {
                stdout.extend_from_slice(s.as_bytes());
                stdout.push(b'\n');
                HostResult::Control(k.clone(), vec![])
            }
            | None => bad(),
        },
        | ("int64_add", [a, b]) => as_i64(a).zip(as_i64(b)).map(|(a, b)| HostResult::Return(int(a.wrapping_add(b)))).unwrap_or_else(bad),
        | ("int64_sub", [a, b]) => as_i64(a).zip(as_i64(b)).map(|(a, b)| HostResult::Return(int(a.wrapping_sub(b)))).unwrap_or_else(bad),
        | ("int64_mul", [a, b]) => as_i64(a).zip(as_i64(b)).map(|(a, b)| HostResult::Return(int(a.wrapping_mul(b)))).unwrap_or_else(bad),
        | ("int64_to_string", [a]) => as_i64(a).map(|a| HostResult::Return(string(a.to_string()))).unwrap_or_else(bad),
        | ("str_append", [a, b]) => as_str(a).zip(as_str(b)).map(|(a, b)| HostResult::Return(string(format!("{a}{b}")))).unwrap_or_else(bad),
        | ("int64_eq_branch", [a, b, t, f]) => {
            as_i64(a).zip(as_i64(b)).map(|(a, b)| HostResult::Control(if a == b { t.clone() } else { f.clone() }, vec![])).unwrap_or_else(bad)
        }
        | ("int64_lt_branch", [a, b, t, f]) => {
            as_i64(a).zip(as_i64(b)).map(|(a, b)| HostResult::Control(if a < b { t.clone() } else { f.clone() }, vec![])).unwrap_or_else(bad)
        }
        | ("str_eq_branch", [a, b, t, f]) => {
            as_str(a).zip(as_str(b)).map(|(a, b)| HostResult::Control(if a == b { t.clone() } else { f.clone() }, vec![])).unwrap_or_else(bad)
        }
        | _ => HostResult::Unsupported(format!("host operation {} is not modelled", name)),
    }
}

pub fn run(program: &SpsLowProgram, stdin: &[u8], fuel: u64) -> MRun {
    let arena = program.arena();
    let mut m = Machine { arena, stdout: Vec::new(), stdin: std::io::Cursor::new(stdin.to_vec()) };
    let _ = &m.stdin;
    let mut forms = std::collections::BTreeSet::new();
    let mut comp = program.root();
    let mut env: Env = im::HashMap::new();
    let mut ambient = MStack::default();
    let mut steps = 0u64;
    macro_rules! end {
        ($e:expr) => {
            return MRun { stdout: m.stdout, end: $e, steps, forms }
        };
    }
    macro_rules! tri {
        ($e:expr) => {
            match $e {
                | Ok(v) => v,
                | Err(msg) => {
                    let msg: String = msg;
                    if let Some(rest) = msg.strip_prefix("UNSUPPORTED ") {
                        end!(MEnd::Unsupported(rest.to_string()))
                    } else {
                        end!(MEnd::Stuck(msg))
                    }
                }
            }
        };
    }
    /// jump to a code value with a given stack
    macro_rules! jump {
        ($code:expr, $stack:expr) => {{
            let code: MV = $code;
            let MV::Code(block_id) = &code else { end!(MEnd::Stuck(format!("jump to a non-code value {}", short(&code)))) };
            let Value::Block(Block { label, body }) = &arena.inner.values[block_id] else { end!(MEnd::Stuck("code id is not a block".into())) };
            // first-order: the block sees only its own label
            env = im::HashMap::new().update(*label, code.clone());
            ambient = $stack;
            comp = *body;
        }};
    }
    loop {
        if steps >= fuel {
            end!(MEnd::FuelOut);
        }
        steps += 1;
        match &arena.inner.compus[&comp] {
            | Computation::Hole(_) => end!(MEnd::Stuck("hole computation".into())),
            | Computation::Jump(Jump { target, stack }) => {
                forms.insert("Jump");
                let code = tri!(m.value(*target, &env));
                let s = tri!(m.stack(*stack, &env, &ambient));
                jump!(code, s);
            }
            | Computation::ProductMatch(SProductMatch { scrut, binder, body }) => {
                forms.insert("ProductMatch");
                let v = tri!(m.value(*scrut, &env));
                match tri!(m.bind(*binder, &v, env.clone())) {
                    | Some(e) => env = e,
                    | None => end!(MEnd::Stuck("product match refuted".into())),
                }
                comp = *body;
            }
            | Computation::CoprodMatch(SCoprodMatch { scrut, arms }) => {
                forms.insert("CoprodMatch");
                let v = tri!(m.value(*scrut, &env));
                let mut chosen = None;
                for Matcher { binder, tail } in arms {
                    match tri!(m.bind(*binder, &v, env.clone())) {
                        | Some(e) => {
                            chosen = Some((e, *tail));
                            break;
                        }
                        | None => {}
                    }
                }
                match chosen {
                    | Some((e, tail)) => {
                        env = e;
                        comp = tail;
                    }
                    | None => end!(MEnd::Stuck(format!("no coproduct arm matches {}", short(&v)))),
                }
            }
            | Computation::LetValue(LetValue { binder, bindee, body }) => {
                forms.insert("LetValue");
                let v = tri!(m.value(*bindee, &env));
                match tri!(m.bind(*binder, &v, env.clone())) {
                    | Some(e) => env = e,
                    | None => end!(MEnd::Stuck("let-value pattern refuted".into())),
                }
                comp = *body;
            }
            | Computation::LetStack(LetStack { bindee, body }) => {
                forms.insert("LetStack");
                ambient = tri!(m.stack(*bindee, &env, &ambient));
                comp = *body;
            }
            | Computation::LetArg(LetArg { binder, bindee, body }) => {
                forms.insert("LetArg");
                let s = tri!(m.stack(*bindee, &env, &ambient));
                match s.pop() {
                    | Some((Frame::Arg(v), rest)) => {
                        match tri!(m.bind(*binder, &v, env.clone())) {
                            | Some(e) => env = e,
                            | None => end!(MEnd::Stuck("let-arg pattern refuted".into())),
                        }
                        ambient = rest;
                        comp = *body;
                    }
                    | other => end!(MEnd::Stuck(format!("let-arg on a stack whose top is {:?}", other.map(|(f, _)| short_frame(&f))))),
                }
            }
            | Computation::CoCase(SCoMatch { scrut, arms }) => {
                forms.insert("CoCase");
                let s = tri!(m.stack(*scrut, &env, &ambient));
                match s.pop() {
                    | Some((Frame::Tag(idx, name), rest)) => {
                        let arm = arms.iter().find(|CoMatcher { dtor: Cons(DtorIdx { idx: i, .. }, _), .. }| *i == idx);
                        match arm {
                            | Some(CoMatcher { tail, .. }) => {
                                ambient = rest;
                                comp = *tail;
                            }
                            | None => end!(MEnd::Stuck(format!("no co-case arm for destructor index {} ({})", idx, name))),
                        }
                    }
                    | other => end!(MEnd::Stuck(format!("co-case on a stack whose top is {:?}", other.map(|(f, _)| short_frame(&f))))),
                }
            }
            | Computation::OpenClosure(OpenClosure { package, environment, code, body }) => {
                forms.insert("OpenClosure");
                let v = tri!(m.value(*package, &env));
                let MV::Pack(e, c) = &v else { end!(MEnd::Stuck(format!("open-closure of {}", short(&v)))) };
                let mut new_env = env.clone();
                match tri!(m.bind(*environment, e, new_env.clone())) {
                    | Some(x) => new_env = x,
                    | None => end!(MEnd::Stuck("closure environment pattern refuted".into())),
                }
                match tri!(m.bind(*code, c, new_env.clone())) {
                    | Some(x) => new_env = x,
                    | None => end!(MEnd::Stuck("closure code pattern refuted".into())),
                }
                env = new_env;
                comp = *body;
            }
            | Computation::OpenContinuation(OpenContinuation { package, code, body }) => {
                forms.insert("OpenContinuation");
                let s = tri!(m.stack(*package, &env, &ambient));
                match s.pop() {
                    | Some((Frame::Kont { code: c }, residual)) => {
                        match tri!(m.bind(*code, &c, env.clone())) {
                            | Some(e) => env = e,
                            | None => end!(MEnd::Stuck("continuation code pattern refuted".into())),
                        }
                        ambient = residual;
                        comp = *body;
                    }
                    | other => end!(MEnd::Stuck(format!("open-continuation on a stack whose top is {:?}", other.map(|(f, _)| short_frame(&f))))),
                }
            }
            | Computation::ExternCall(ExternCall { function, stack }) => {
                forms.insert("ExternCall");
                let Some(builtin) = arena.admin.builtins.get(function) else { end!(MEnd::Stuck(format!("extern {} is not in the builtin table", function))) };
                let mut s = tri!(m.stack(*stack, &env, &ambient));
                let mut args = Vec::new();
                for _ in 0..builtin.arity {
                    match s.pop() {
                        | Some((Frame::Arg(v), rest)) => {
                            args.push(v);
                            s = rest;
                        }
                        | other => end!(MEnd::Stuck(format!("extern {} expects {} arguments; stack top is {:?}", function, builtin.arity, other.map(|(f, _)| short_frame(&f))))),
                    }
                }
                let mode = match builtin.sort {
                    | BuiltinSort::Function(mode) => mode,
                    | BuiltinSort::Operator => end!(MEnd::Unsupported(format!("operator {} called as extern", function))),
                };
                match (host(function, &args, &mut m.stdout), mode) {
                    | (HostResult::Exit(c), _) => end!(MEnd::Exit(c)),
                    | (HostResult::Unsupported(why), _) => end!(MEnd::Unsupported(why)),
                    | (HostResult::Return(v), HostCallMode::Returning) => match s.pop() {
                        // return the host result through the current continuation
                        | Some((Frame::Kont { code }, residual)) => jump!(code, residual.push(Frame::Arg(v))),
                        | other => end!(MEnd::Stuck(format!("returning extern {} without a continuation on the stack: {:?}", function, other.map(|(f, _)| short_frame(&f))))),
                    },
                    | (HostResult::Control(closure, extra), HostCallMode::Control) => {
                        // resume the host-selected closure: force it on the remaining stack
                        let MV::Pack(e, c) = &closure else { end!(MEnd::Stuck(format!("control extern {} selected a non-closure {}", function, short(&closure)))) };
                        let mut st = s;
                        for a in extra.into_iter().rev() {
                            st = st.push(Frame::Arg(a));
                        }
                        st = st.push(Frame::Arg((**e).clone()));
                        jump!((**c).clone(), st);
                    }
                    | (_, mode) => end!(MEnd::Stuck(format!("host model and builtin table disagree on the calling convention of {} ({:?})", function, mode))),
                }
            }
        }
    }
}

fn short_frame(f: &Frame) -> String {
    match f {
        | Frame::Arg(v) => format!("arg {}", short(v)),
        | Frame::Tag(i, n) => format!("tag {} {}", i, n),
        | Frame::Kont { .. } => "continuation".into(),
    }
}

pub fn _unused(_: HashMap<u8, u8>) {}
