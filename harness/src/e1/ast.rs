//! E1 core language: a harness-side AST with resolved binders (unique ids, not names) and explicit types.

use std::collections::BTreeSet;

pub type VarId = u32;
pub type TyVarId = u32;

#[derive(Clone, Debug, PartialEq, Eq, Hash)]
pub enum VTy {
    Int,
    Str,
    Unit,
    /// n ≥ 2 components; a trailing product component is flattened (`A * (B * C)` = `A * B * C`)
    Prod(Vec<VTy>),
    /// `(x :: A) * (y :: B)`; n ≥ 2
    Named(Vec<(String, VTy)>),
    /// declared data type applied to type arguments
    Data(usize, Vec<VTy>),
    Thk(Box<CTy>),
    Var(TyVarId),
    /// `exists (T : VType) . A` — an abstract package
    Exists(TyVarId, Box<VTy>),
}

#[derive(Clone, Debug, PartialEq, Eq, Hash)]
pub enum CTy {
    Ret(Box<VTy>),
    Fun(Box<VTy>, Box<CTy>),
    Codata(usize),
    /// `forall (X : VType) . C`
    Forall(TyVarId, Box<CTy>),
    /// `forall (R : CType) . C`
    ForallC(TyVarId, Box<CTy>),
    OS,
    Var(TyVarId),
}

pub fn prod(mut items: Vec<VTy>) -> VTy {
    assert!(items.len() >= 2);
    if let Some(VTy::Prod(_)) = items.last() {
        let Some(VTy::Prod(tail)) = items.pop() else { unreachable!() };
        items.extend(tail);
    }
    VTy::Prod(items)
}

pub fn thk(c: CTy) -> VTy {
    VTy::Thk(Box::new(c))
}
pub fn ret(v: VTy) -> CTy {
    CTy::Ret(Box::new(v))
}
pub fn fun(a: VTy, c: CTy) -> CTy {
    CTy::Fun(Box::new(a), Box::new(c))
}
pub fn funs(args: Vec<VTy>, result: CTy) -> CTy {
    args.into_iter().rev().fold(result, |acc, a| fun(a, acc))
}

#[derive(Clone, Debug)]
pub struct DataDecl {
    pub name: String,
    pub params: Vec<TyVarId>,
    pub ctors: Vec<(String, VTy)>,
    /// `def` (nominal, required for recursive types) vs `let` (transparent)
    pub sealed: bool,
    pub recursive: bool,
}

#[derive(Clone, Debug)]
pub struct CodataDecl {
    pub name: String,
    pub dtors: Vec<(String, CTy)>,
    pub sealed: bool,
    pub recursive: bool,
}

#[derive(Clone, Debug, Default)]
pub struct Decls {
    pub data: Vec<DataDecl>,
    pub codata: Vec<CodataDecl>,
}

impl VTy {
    pub fn subst(&self, tv: TyVarId, with: &VTy) -> VTy {
        match self {
            | VTy::Int | VTy::Str | VTy::Unit => self.clone(),
            | VTy::Prod(items) => prod(items.iter().map(|t| t.subst(tv, with)).collect()),
            | VTy::Named(items) => VTy::Named(items.iter().map(|(n, t)| (n.clone(), t.subst(tv, with))).collect()),
            | VTy::Data(d, args) => VTy::Data(*d, args.iter().map(|t| t.subst(tv, with)).collect()),
            | VTy::Thk(c) => VTy::Thk(Box::new(c.subst(tv, with))),
            | VTy::Var(v) => {
                if *v == tv {
                    with.clone()
                } else {
                    self.clone()
                }
            }
            | VTy::Exists(b, body) => VTy::Exists(*b, Box::new(body.subst(tv, with))),
        }
    }
    pub fn subst_c(&self, tv: TyVarId, with: &CTy) -> VTy {
        match self {
            | VTy::Int | VTy::Str | VTy::Unit | VTy::Var(_) => self.clone(),
            | VTy::Prod(items) => prod(items.iter().map(|t| t.subst_c(tv, with)).collect()),
            | VTy::Named(items) => VTy::Named(items.iter().map(|(n, t)| (n.clone(), t.subst_c(tv, with))).collect()),
            | VTy::Data(d, args) => VTy::Data(*d, args.iter().map(|t| t.subst_c(tv, with)).collect()),
            | VTy::Thk(c) => VTy::Thk(Box::new(c.subst_c(tv, with))),
            | VTy::Exists(b, body) => VTy::Exists(*b, Box::new(body.subst_c(tv, with))),
        }
    }
    pub fn mentions_tyvar(&self) -> bool {
        match self {
            | VTy::Int | VTy::Str | VTy::Unit => false,
            | VTy::Prod(items) => items.iter().any(|t| t.mentions_tyvar()),
            | VTy::Named(items) => items.iter().any(|(_, t)| t.mentions_tyvar()),
            | VTy::Data(_, args) => args.iter().any(|t| t.mentions_tyvar()),
            | VTy::Thk(c) => c.mentions_tyvar(),
            | VTy::Var(_) => true,
            // (conservative: the bound variable counts)
            | VTy::Exists(..) => true,
        }
    }
    /// Does the type mention this particular type variable (free)?
    pub fn mentions(&self, tv: TyVarId) -> bool {
        self.subst(tv, &VTy::Unit) != *self
    }
    pub fn size(&self) -> usize {
        match self {
            | VTy::Int | VTy::Str | VTy::Unit | VTy::Var(_) => 1,
            | VTy::Prod(items) => 1 + items.iter().map(|t| t.size()).sum::<usize>(),
            | VTy::Named(items) => 1 + items.iter().map(|(_, t)| t.size()).sum::<usize>(),
            | VTy::Data(_, args) => 1 + args.iter().map(|t| t.size()).sum::<usize>(),
            | VTy::Thk(c) => 1 + c.size(),
            | VTy::Exists(_, body) => 1 + body.size(),
        }
    }
}

impl CTy {
    pub fn subst(&self, tv: TyVarId, with: &VTy) -> CTy {
        match self {
            | CTy::Ret(v) => CTy::Ret(Box::new(v.subst(tv, with))),
            | CTy::Fun(a, c) => CTy::Fun(Box::new(a.subst(tv, with)), Box::new(c.subst(tv, with))),
            | CTy::Codata(_) | CTy::OS | CTy::Var(_) => self.clone(),
            | CTy::Forall(v, c) => CTy::Forall(*v, Box::new(c.subst(tv, with))),
            | CTy::ForallC(v, c) => CTy::ForallC(*v, Box::new(c.subst(tv, with))),
        }
    }
    pub fn subst_c(&self, tv: TyVarId, with: &CTy) -> CTy {
        match self {
            | CTy::Ret(v) => CTy::Ret(Box::new(v.subst_c(tv, with))),
            | CTy::Fun(a, c) => CTy::Fun(Box::new(a.subst_c(tv, with)), Box::new(c.subst_c(tv, with))),
            | CTy::Codata(_) | CTy::OS => self.clone(),
            | CTy::Var(v) => {
                if *v == tv {
                    with.clone()
                } else {
                    self.clone()
                }
            }
            | CTy::Forall(v, c) => CTy::Forall(*v, Box::new(c.subst_c(tv, with))),
            | CTy::ForallC(v, c) => CTy::ForallC(*v, Box::new(c.subst_c(tv, with))),
        }
    }
    pub fn mentions_tyvar(&self) -> bool {
        match self {
            | CTy::Ret(v) => v.mentions_tyvar(),
            | CTy::Fun(a, c) => a.mentions_tyvar() || c.mentions_tyvar(),
            | CTy::Codata(_) | CTy::OS => false,
            | CTy::Var(_) => true,
            | CTy::Forall(_, c) | CTy::ForallC(_, c) => c.mentions_tyvar(),
        }
    }
    pub fn size(&self) -> usize {
        match self {
            | CTy::Ret(v) => 1 + v.size(),
            | CTy::Fun(a, c) => 1 + a.size() + c.size(),
            | CTy::Codata(_) | CTy::OS | CTy::Var(_) => 1,
            | CTy::Forall(_, c) | CTy::ForallC(_, c) => 1 + c.size(),
        }
    }
    /// Split `A1 -> … -> An -> R` (R not a function).
    pub fn uncurry(&self) -> (Vec<&VTy>, &CTy) {
        let mut args = Vec::new();
        let mut cur = self;
        while let CTy::Fun(a, c) = cur {
            args.push(a.as_ref());
            cur = c.as_ref();
        }
        (args, cur)
    }
}

#[derive(Clone, Copy, Debug, PartialEq, Eq)]
pub enum PrimOp {
    Add,
    Sub,
    Mul,
    ToString,
    Append,
}

#[derive(Clone, Copy, Debug, PartialEq, Eq)]
pub enum CmpOp {
    IntEq,
    IntLt,
    StrEq,
}

#[derive(Clone, Debug)]
pub enum Pat {
    Var(VarId),
    Wild,
    Unit,
    Tuple(Vec<Pat>),
    /// (decl, ctor index, payload pattern)
    Ctor(usize, usize, Box<Pat>),
    /// named-field pattern `(x = p, y = q)`, fields in declaration order
    Rec(Vec<(String, Pat)>),
    /// alias pattern `(p; q)`: all patterns bind the same value
    Alias(Vec<Pat>),
    /// `(T, p)`: opens a package, binding the abstract type `T` and matching the contents against `p`. The last field is
    /// for error injection only: a variable of the abstract type bound by `p`, and the witness the package was built with.
    Unpack(TyVarId, Box<Pat>, Option<(VarId, VTy)>),
}

#[derive(Clone, Debug)]
pub enum Val {
    Var(VarId),
    Int(i64),
    Str(String),
    Unit,
    Tuple(Vec<Val>),
    Rec(Vec<(String, Val)>),
    Ctor { decl: usize, targs: Vec<VTy>, ctor: usize, arg: Box<Val> },
    Thunk(Box<Comp>, CTy),
    /// projection of a named field: (head, field name, position, head type)
    Proj(Box<Val>, String, usize, VTy),
    /// `(W, v)` at an existential type: `v` has the body type at the witness `W`
    Pack { witness: VTy, body: Box<Val> },
}

#[derive(Clone, Debug)]
pub enum Comp {
    Ret(Val),
    Do { pat: Pat, bindee: Box<Comp>, bindee_ty: VTy, tail: Box<Comp> },
    Let { pat: Pat, val: Val, ty: VTy, tail: Box<Comp> },
    Fn { pat: Pat, ty: VTy, body: Box<Comp> },
    App { fun: Box<Comp>, arg: Val, arg_ty: VTy },
    Force(Val),
    Match { scrut: Val, scrut_ty: VTy, arms: Vec<(Pat, Comp)> },
    /// arms in *source* order (may differ from declaration order); each is (dtor index in decl, body)
    Comatch { decl: usize, arms: Vec<(usize, Comp)> },
    Dtor { head: Box<Comp>, decl: usize, dtor: usize },
    /// `fix (f : Thk ty) => body`, `f` bound to a thunk of the whole fix
    Fix { var: VarId, ty: CTy, body: Box<Comp> },
    /// `fn (X : VType) => body` / `fn (R : CType) => body`
    TyFn { tv: TyVarId, ckind: bool, body: Box<Comp> },
    TyAppV { fun: Box<Comp>, arg: VTy },
    TyAppC { fun: Box<Comp>, arg: CTy },
    /// host arithmetic / text returning a value
    Prim(PrimOp, Vec<Val>),
    /// host comparison selecting a branch; `res` is the result type passed as the `R` argument
    If { op: CmpOp, a: Val, b: Val, res: CTy, then: Box<Comp>, els: Box<Comp> },
    WriteLine(Val, Box<Comp>),
    Exit(Val),
    /// a closed function printed as an `@[monadic]` block instantiated at the identity monad and applied to `args`
    /// (C20); semantically the application of `body` to `args`
    Monadic { body: Box<Comp>, ty: CTy, args: Vec<(Val, VTy)> },
}

#[derive(Clone, Debug)]
pub struct Program {
    pub decls: Decls,
    /// of type OS
    pub body: Comp,
    pub features: BTreeSet<&'static str>,
    pub var_count: u32,
}

impl Pat {
    pub fn binders(&self, out: &mut Vec<VarId>) {
        match self {
            | Pat::Var(v) => out.push(*v),
            | Pat::Wild | Pat::Unit => {}
            | Pat::Tuple(ps) | Pat::Alias(ps) => ps.iter().for_each(|p| p.binders(out)),
            | Pat::Ctor(_, _, p) | Pat::Unpack(_, p, _) => p.binders(out),
            | Pat::Rec(fs) => fs.iter().for_each(|(_, p)| p.binders(out)),
        }
    }
    pub fn is_var_or_wild(&self) -> bool {
        matches!(self, Pat::Var(_) | Pat::Wild)
    }
    pub fn has_ctor(&self) -> bool {
        match self {
            | Pat::Var(_) | Pat::Wild | Pat::Unit => false,
            | Pat::Tuple(ps) | Pat::Alias(ps) => ps.iter().any(|p| p.has_ctor()),
            | Pat::Ctor(..) => true,
            | Pat::Rec(fs) => fs.iter().any(|(_, p)| p.has_ctor()),
            | Pat::Unpack(_, p, _) => p.has_ctor(),
        }
    }
}
