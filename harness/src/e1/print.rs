//! E1 printers: AST → surface text under a style (the metamorphic dimension).

use super::ast::*;
use crate::prelude::MiniPrelude;
use crate::util::rng::Rng;
use std::collections::HashMap;

#[derive(Clone, Copy, Debug, PartialEq, Eq)]
pub enum Naming {
    /// every binder gets a distinct name
    Distinct,
    /// maximal legal shadowing: reuse the name of an outer binder that is not free in the scope
    Shadow,
    /// small rotating pool of single letters (shadowing when legal)
    Pool,
    /// identifier-alphabet stress: primes, question marks, dashes, leading underscore
    Weird,
}

#[derive(Clone, Debug)]
pub struct Style {
    pub naming: Naming,
    /// annotate every binder / wrap every term whose type is known (`true`) or only where checking needs it
    pub annotate_all: bool,
    /// print transparent-eligible type declarations with `let` instead of `def`
    pub transparent_types: bool,
    /// add redundant parentheses around sub-terms
    pub extra_parens: bool,
    /// print top-level declarations with `that` (in a block) in this permutation seed; 0 = declaration order
    pub decl_shuffle: u64,
    /// print `(a, b, c)` as `(a, (b, c))`
    pub nest_tuples: bool,
    /// use telescopes `fn (x : A) (y : B) => …` for nested abstractions
    pub telescopes: bool,
    /// field names get this suffix (consistent renaming of named fields)
    pub field_suffix: &'static str,
    /// over lib/std/builtin.zy instead of the minimal signature
    pub standard_builtin: bool,
    /// print chains of `let` bindings as `begin let .. that let .. that body end` blocks
    pub block_lets: bool,
    /// permutation seed for the contributions of such blocks (0 = source order)
    pub block_shuffle: u64,
    /// print `Comp::Monadic` blocks without the `@[monadic]` annotation and the monad arguments (the plain twin)
    pub erase_monadic: bool,
    /// give an annotated variable binder the name of a type alias that is used only in its own annotation
    /// (`let ty7 = D0 that … fn (ty7 : ty7) => … ty7 …`): a binder does not scope over its own annotation
    pub pun_binders: bool,
    /// print abstractions in checked positions as copattern clauses: `comatch | .d p q r => body end` for a comatch arm whose
    /// body is a chain of abstractions, `comatch | p q r => body end` for a bare chain
    pub copattern_clauses: bool,
}

impl Style {
    pub fn plain() -> Self {
        Style {
            naming: Naming::Distinct,
            annotate_all: false,
            transparent_types: false,
            extra_parens: false,
            decl_shuffle: 0,
            nest_tuples: false,
            telescopes: false,
            field_suffix: "",
            standard_builtin: false,
            block_lets: false,
            block_shuffle: 0,
            erase_monadic: false,
            pun_binders: false,
            copattern_clauses: false,
        }
    }
    pub fn describe(&self) -> String {
        format!(
            "{:?}{}{}{}{}{}{}{}{}",
            self.naming,
            if self.annotate_all { "+ann" } else { "" },
            if self.transparent_types { "+let-types" } else { "" },
            if self.extra_parens { "+parens" } else { "" },
            if self.decl_shuffle != 0 { "+shuffled-decls" } else { "" },
            if self.nest_tuples { "+nested-tuples" } else { "" },
            if self.telescopes { "+telescopes" } else { "" },
            if self.field_suffix.is_empty() { "" } else { "+renamed-fields" },
            if self.standard_builtin { "+std-builtin" } else { "" },
        ) + if self.block_lets { "+blocks" } else { "" } + if self.block_shuffle != 0 { "+shuffled-blocks" } else { "" } + if self.pun_binders { "+pun-binders" } else { "" } + if self.copattern_clauses { "+copattern-clauses" } else { "" }
    }
}

/// Names that the prelude binds and that generated binders must not shadow (they are used by the body).
pub const RESERVED: &[&str] = &[
    "exit", "write_line", "add", "sub", "mul", "int_eq", "int_lt", "to_string", "append", "str_eq", "VType", "CType", "Thk", "Ret", "Unit",
    "Int64", "String", "OS", "Reader", "Writer", "Int8", "Int16", "Int32", "UInt8", "UInt16", "UInt32", "UInt64", "Float32", "Float64", "Char",
    "Bytes", "end", "begin", "data", "codata", "as", "def", "define", "let", "param", "in", "that", "do", "ret", "fn", "pi", "fix", "match",
    "comatch", "forall", "sigma", "exists",
];

pub struct Printer<'a> {
    pub decls: &'a Decls,
    pub style: &'a Style,
    names: HashMap<VarId, String>,
    tynames: HashMap<TyVarId, String>,
    counter: u32,
    rng: Rng,
    /// typed error injection: the site number at which to print an ill-typed variant
    pub mutation: Option<usize>,
    pub sites: usize,
    pub applied: Option<String>,
    /// the kind of every injection site passed, in order
    pub site_kinds: Vec<String>,
    /// type aliases introduced for punned binders: (alias name, type text), printed with the declarations
    pub aliases: Vec<(String, String)>,
}

const POOL: &[&str] = &["a", "b", "c", "x", "y", "z"];

impl<'a> Printer<'a> {
    pub fn new(decls: &'a Decls, style: &'a Style, seed: u64) -> Self {
        Printer {
            decls,
            style,
            names: HashMap::new(),
            tynames: HashMap::new(),
            counter: 0,
            rng: Rng::new(seed),
            mutation: None,
            sites: 0,
            applied: None,
            site_kinds: Vec::new(),
            aliases: Vec::new(),
        }
    }

    /// Under `pun_binders`: rename the variable binder `v` (already named, last in `vis`) to a fresh type alias of its
    /// closed annotation and return the alias, which is then printed both as the binder and as its annotation.
    fn pun_binder(&mut self, pat: &Pat, ty_text: &str, closed: bool, vis: &mut Vec<(String, VarId)>) -> Option<String> {
        let Pat::Var(v) = pat else { return None };
        if !self.style.pun_binders || !closed || self.mutation.is_some() || !self.rng.chance(1, 2) {
            return None;
        }
        self.counter += 1;
        let alias = format!("ty{}", self.counter);
        self.names.insert(*v, alias.clone());
        if let Some(last) = vis.iter_mut().rev().find(|(_, x)| x == v) {
            last.0 = alias.clone();
        }
        self.aliases.push((alias.clone(), ty_text.to_string()));
        Some(alias)
    }

    /// Count an error-injection site; true if this is the one to mutate.
    fn site(&mut self, kind: &str) -> bool {
        let idx = self.sites;
        self.sites += 1;
        self.site_kinds.push(kind.to_string());
        if self.mutation == Some(idx) {
            self.applied = Some(kind.to_string());
            true
        } else {
            false
        }
    }

    /// A closed term that definitely does not have type `ty` (no inference can make it fit).
    fn wrong_value(&mut self, ty: &VTy) -> String {
        // sometimes a sort confusion instead of a type confusion
        match self.rng.below(8) {
            | 0 => {
                self.applied = Some("type-where-value-expected".into());
                return "Int64".to_string();
            }
            | 1 => {
                self.applied = Some("computation-where-value-expected".into());
                return "(ret 5)".to_string();
            }
            | _ => {}
        }
        match ty {
            | VTy::Int => (*self.rng.pick(&["\"wrong\"", "()", "{ ret 1 }", "(1, 2)"])).to_string(),
            | VTy::Str => (*self.rng.pick(&["17", "()", "{ ret \"s\" }"])).to_string(),
            | VTy::Unit => (*self.rng.pick(&["17", "\"wrong\"", "(1, 2)"])).to_string(),
            | VTy::Prod(_) | VTy::Named(_) => (*self.rng.pick(&["17", "\"wrong\"", "()", "{ ret 1 }"])).to_string(),
            | VTy::Data(..) => (*self.rng.pick(&["17", "\"wrong\"", "(1, 2)", "{ ret 1 }", "+Zz9()"])).to_string(),
            | VTy::Thk(c) => match &**c {
                | CTy::Ret(a) if matches!(**a, VTy::Int) => (*self.rng.pick(&["17", "{ ret \"wrong\" }", "{ fn (q : Int64) => ret q }"])).to_string(),
                | CTy::Ret(_) => (*self.rng.pick(&["17", "{ ret 17 }", "{ fn (q : Int64) => ret q }"])).to_string(),
                | _ => (*self.rng.pick(&["17", "{ ret 17 }", "\"wrong\""])).to_string(),
            },
            | VTy::Var(_) => (*self.rng.pick(&["17", "\"wrong\"", "()"])).to_string(),
            | VTy::Exists(..) => (*self.rng.pick(&["17", "\"wrong\"", "{ ret 1 }"])).to_string(),
        }
    }

    fn field(&self, f: &str) -> String {
        format!("{}{}", f, self.style.field_suffix)
    }

    fn tyvar(&mut self, tv: TyVarId) -> String {
        if let Some(n) = self.tynames.get(&tv) {
            return n.clone();
        }
        let n = format!("T{}", tv);
        self.tynames.insert(tv, n.clone());
        n
    }

    /* ------------------------------- naming ------------------------------- */

    /// Choose a name for binder `v` whose scope is `scope` (a computation) plus `also` (further terms in
    /// scope); `visible` lists the names currently in scope with the variable each denotes.
    fn choose_name(&mut self, v: VarId, free_in_scope: &dyn Fn(VarId) -> bool, visible: &[(String, VarId)]) -> String {
        self.counter += 1;
        let fresh = |c: u32| format!("v{}", c);
        // a candidate is legal iff no variable free in the scope currently goes by that name
        let legal = |name: &str| -> bool {
            if RESERVED.contains(&name) {
                return false;
            }
            // innermost binding of `name` among visible: if it denotes a variable that is free in the scope, capture
            match visible.iter().rev().find(|(n, _)| n == name) {
                | Some((_, denoted)) => !free_in_scope(*denoted),
                | None => true,
            }
        };
        let name = match self.style.naming {
            | Naming::Distinct => fresh(self.counter),
            | Naming::Shadow => {
                // prefer reusing the most recent visible name that is legal
                let reuse = visible.iter().rev().map(|(n, _)| n.clone()).find(|n| legal(n));
                match reuse {
                    | Some(n) if self.rng.chance(3, 4) => n,
                    | _ => fresh(self.counter),
                }
            }
            | Naming::Pool => {
                let start = self.rng.below(POOL.len());
                let pick = (0..POOL.len()).map(|i| POOL[(start + i) % POOL.len()]).find(|n| legal(n));
                match pick {
                    | Some(n) => n.to_string(),
                    | None => fresh(self.counter),
                }
            }
            | Naming::Weird => {
                let c = self.counter;
                let candidates = [format!("x{}'", c), format!("a{}?", c), format!("f-{}", c), format!("_y{}", c), format!("k{}''", c), format!("n*{}", c), format!("q~{}", c), format!("w={}", c), format!("p+{}", c)];
                candidates[self.rng.below(candidates.len())].clone()
            }
        };
        self.names.insert(v, name.clone());
        name
    }

    /* -------------------------------- types -------------------------------- */

    /// precedence levels: 0 atom, 2 application, 3 product, 4 arrow, 5 quantifier
    pub fn vty(&mut self, t: &VTy, level: u8) -> String {
        let (s, l) = match t {
            | VTy::Int => ("Int64".to_string(), 0),
            | VTy::Str => ("String".to_string(), 0),
            | VTy::Unit => ("Unit".to_string(), 0),
            | VTy::Var(tv) => (self.tyvar(*tv), 0),
            | VTy::Prod(items) => {
                let parts: Vec<String> = items.iter().map(|i| self.vty(i, 2)).collect();
                (parts.join(" * "), 3)
            }
            | VTy::Named(items) => {
                let parts: Vec<String> = items.iter().map(|(n, i)| format!("({} :: {})", self.field(n), self.vty(i, 5))).collect();
                (parts.join(" * "), 3)
            }
            | VTy::Data(d, args) => {
                let name = self.decls.data[*d].name.clone();
                if args.is_empty() {
                    (name, 0)
                } else {
                    let parts: Vec<String> = args.iter().map(|a| self.vty(a, 0)).collect();
                    (format!("{} {}", name, parts.join(" ")), 2)
                }
            }
            | VTy::Thk(c) => (format!("Thk {}", self.cty(c, 0)), 2),
            | VTy::Exists(tv, body) => (format!("exists ({} : VType) . {}", self.tyvar(*tv), self.vty(body, 5)), 5),
        };
        if l > level { format!("({})", s) } else { s }
    }

    pub fn cty(&mut self, t: &CTy, level: u8) -> String {
        let (s, l) = match t {
            | CTy::Ret(v) => (format!("Ret {}", self.vty(v, 0)), 2),
            | CTy::Fun(a, c) => (format!("{} -> {}", self.vty(a, 3), self.cty(c, 4)), 4),
            | CTy::Codata(d) => (self.decls.codata[*d].name.clone(), 0),
            | CTy::OS => ("OS".to_string(), 0),
            | CTy::Var(tv) => (self.tyvar(*tv), 0),
            | CTy::Forall(tv, c) => (format!("forall ({} : VType) . {}", self.tyvar(*tv), self.cty(c, 5)), 5),
            | CTy::ForallC(tv, c) => (format!("forall ({} : CType) . {}", self.tyvar(*tv), self.cty(c, 5)), 5),
        };
        if l > level { format!("({})", s) } else { s }
    }

    /* ------------------------------- patterns ------------------------------- */

    fn pat_names(&mut self, p: &Pat, free_in_scope: &dyn Fn(VarId) -> bool, visible: &mut Vec<(String, VarId)>, bound_here: &mut Vec<String>) {
        let mut vars = Vec::new();
        p.binders(&mut vars);
        for v in vars {
            // binders of one pattern must be pairwise distinct names
            let mut name = self.choose_name(v, free_in_scope, visible);
            if bound_here.contains(&name) {
                self.counter += 1;
                name = format!("v{}", self.counter);
                self.names.insert(v, name.clone());
            }
            bound_here.push(name.clone());
            visible.push((name, v));
        }
    }

    fn pat(&mut self, p: &Pat) -> String {
        match p {
            | Pat::Var(v) => self.names.get(v).cloned().unwrap_or_else(|| format!("UNNAMED{}", v)),
            | Pat::Wild => "_".into(),
            | Pat::Unit => "()".into(),
            | Pat::Tuple(ps) => {
                let parts: Vec<String> = ps.iter().map(|p| self.pat(p)).collect();
                self.tuple_text(parts)
            }
            | Pat::Ctor(d, c, p) => {
                let inner = self.pat(p);
                let name = &self.decls.data[*d].ctors[*c].0;
                if inner.starts_with('(') { format!("{}{}", name, inner) } else { format!("{}({})", name, inner) }
            }
            | Pat::Rec(fs) => {
                let parts: Vec<String> = fs.iter().map(|(n, p)| format!("{} = {}", self.field(n), self.pat(p))).collect();
                format!("({})", parts.join(", "))
            }
            | Pat::Alias(ps) => {
                let parts: Vec<String> = ps.iter().map(|p| self.pat(p)).collect();
                format!("({})", parts.join("; "))
            }
            | Pat::Unpack(tv, inner, _) => {
                let t = self.tyvar(*tv);
                let p = self.pat(inner);
                // the contents keep their own delimiters: `(T, (a, b))`, never the flattened `(T, a, b)`
                if p.starts_with('(') { format!("({}, {})", t, p) } else { format!("({}, ({}))", t, p) }
            }
        }
    }

    /// A tuple (value or pattern). Under `nest_tuples` each occurrence independently groups some tail of its right spine
    /// into a nested tuple, recursively: `(a, b, c, d)`, `(a, (b, c, d))`, `(a, b, (c, d))`, `(a, (b, (c, d)))` all denote
    /// the same product, so a value and the pattern that takes it apart usually differ in shape.
    fn tuple_text(&mut self, parts: Vec<String>) -> String {
        if self.style.nest_tuples && parts.len() > 2 && self.rng.chance(3, 4) {
            let i = 1 + self.rng.below(parts.len() - 2);
            let tail = self.tuple_text(parts[i..].to_vec());
            let mut head = parts[..i].to_vec();
            head.push(tail);
            format!("({})", head.join(", "))
        } else {
            format!("({})", parts.join(", "))
        }
    }

    /* -------------------------------- values -------------------------------- */

    fn paren_if(&self, s: String, needed: bool) -> String {
        if needed || (self.style.extra_parens && !s.starts_with('(')) { format!("({})", s) } else { s }
    }

    /// Print a value in a position where an atom is required. `checked`: the position supplies the type.
    pub fn val(&mut self, v: &Val, ty: &VTy, checked: bool, vis: &Vec<(String, VarId)>) -> String {
        if checked && self.site("wrong-value-at-checked-position") {
            return self.wrong_value(ty);
        }
        // a typed term hole: accepted by design (its type is reported), but never executable
        if checked && self.site("term-hole") {
            return "_".to_string();
        }
        let needs_ann = !checked && matches!(v, Val::Ctor { .. } | Val::Pack { .. });
        let s = match v {
            | Val::Var(x) => self.names.get(x).cloned().unwrap_or_else(|| format!("UNBOUND{}", x)),
            | Val::Int(i) => format!("{}", i),
            | Val::Str(s) => format!("{:?}", s),
            | Val::Unit => "()".into(),
            | Val::Tuple(items) => {
                let tys: Vec<VTy> = match ty {
                    | VTy::Prod(ts) => ts.clone(),
                    | _ => vec![VTy::Unit; items.len()],
                };
                let parts: Vec<String> = items.iter().zip(tys.iter()).map(|(i, t)| self.val_any(i, t, checked, vis)).collect();
                self.tuple_text(parts)
            }
            | Val::Rec(fields) => {
                let tys: Vec<VTy> = match ty {
                    | VTy::Named(ts) => ts.iter().map(|(_, t)| t.clone()).collect(),
                    | _ => vec![VTy::Unit; fields.len()],
                };
                let parts: Vec<String> =
                    fields.iter().zip(tys.iter()).map(|((n, i), t)| format!("{} = {}", self.field(n), self.val_any(i, t, checked, vis))).collect();
                format!("({})", parts.join(", "))
            }
            | Val::Ctor { decl, targs, ctor, arg } => {
                let d = &self.decls.data[*decl];
                let mut payload_ty = d.ctors[*ctor].1.clone();
                for (p, a) in d.params.iter().zip(targs.iter()) {
                    payload_ty = payload_ty.subst(*p, a);
                }
                let name = if self.site("unknown-constructor") { "+Zz9".to_string() } else { d.ctors[*ctor].0.clone() };
                let inner = self.val(arg, &payload_ty, true, vis);
                if inner.starts_with('(') { format!("{}{}", name, inner) } else { format!("{}({})", name, inner) }
            }
            | Val::Thunk(c, cty) => {
                let body = self.comp(c, cty, checked, vis);
                format!("{{ {} }}", body)
            }
            | Val::Proj(head, field, _, head_ty) => {
                let h = self.val(head, head_ty, false, vis);
                // `ret v/f` parses as `(ret v)/f`: a projection is not an atom
                let f = if self.site("unknown-field") { "zz9".to_string() } else { self.field(field) };
                format!("({}/{})", h, f)
            }
            | Val::Pack { witness, body } => {
                let body_ty = match ty {
                    | VTy::Exists(tv, b) => b.subst(*tv, witness),
                    | _ => VTy::Unit,
                };
                let w = if self.site("wrong-witness") { (if matches!(witness, VTy::Int) { "String" } else { "Int64" }).to_string() } else { self.vty(witness, 0) };
                let b = self.val(body, &body_ty, true, vis);
                if b.starts_with('(') { format!("({}, {})", w, b) } else { format!("({}, ({}))", w, b) }
            }
        };
        if needs_ann || (self.style.annotate_all && !matches!(v, Val::Var(_)) && !ty.mentions_tyvar_free()) {
            format!("({} : {})", s, self.vty(ty, 5))
        } else {
            self.paren_if(s, false)
        }
    }

    /// Print a value in a position that accepts any term (tuple component, binding right-hand side).
    fn val_any(&mut self, v: &Val, ty: &VTy, checked: bool, vis: &Vec<(String, VarId)>) -> String {
        self.val(v, ty, checked, vis)
    }

    /* ----------------------------- computations ----------------------------- */

    /// Print a computation; the result may be a loose (binder-level) term. `checked`: the position supplies `ty`.
    pub fn comp(&mut self, c: &Comp, ty: &CTy, checked: bool, vis: &Vec<(String, VarId)>) -> String {
        match c {
            | Comp::Ret(v) => {
                let vt = match ty {
                    | CTy::Ret(t) => (**t).clone(),
                    | _ => VTy::Unit,
                };
                format!("ret {}", self.val(v, &vt, checked, vis))
            }
            | Comp::Do { pat, bindee, bindee_ty, tail } => {
                let b = self.comp(bindee, &ret(bindee_ty.clone()), false, vis);
                let b = if loose(bindee) { format!("({})", b) } else { b };
                let b = if self.site("do-on-non-returner") {
                    (*self.rng.pick(&["(fn (q : Int64) => ret q)", "17", "{ ret 17 }", "(comatch end)"])).to_string()
                } else {
                    b
                };
                let mut vis2 = vis.clone();
                let tail_ref: &Comp = tail;
                self.pat_names(pat, &|x| free_in_comp(tail_ref, x), &mut vis2, &mut Vec::new());
                let p = self.pat_atom(pat, bindee_ty);
                let t = self.comp(tail, ty, checked, &vis2);
                format!("do {} <- {};\n{}", p, b, t)
            }
            | Comp::Let { tail, .. } if self.style.block_lets && matches!(**tail, Comp::Let { .. }) && self.mutation.is_none() => {
                // a chain of lets as one block: every contribution is visible throughout the block and the
                // checker orders them by dependency, not by position
                let mut chain: Vec<(&Pat, &Val, &VTy)> = Vec::new();
                let mut cur: &Comp = c;
                while let Comp::Let { pat, val, ty: vt, tail } = cur {
                    chain.push((pat, val, vt));
                    cur = tail;
                    if chain.len() >= 6 {
                        break;
                    }
                }
                let body: &Comp = cur;
                // names: pairwise distinct, and legal with respect to the *whole* block
                let in_block = |x: VarId| chain.iter().any(|(_, v, _)| free_in_val(v, x)) || free_in_comp(body, x);
                let mut vis2 = vis.clone();
                let mut bound_here = Vec::new();
                for (pat, _, _) in &chain {
                    self.pat_names(pat, &in_block, &mut vis2, &mut bound_here);
                }
                let mut contributions: Vec<String> = Vec::new();
                for (pat, val, vt) in &chain {
                    let annotate = self.style.annotate_all || matches!(val, Val::Ctor { .. }) || needs_check(val);
                    let v = self.val_any(val, vt, annotate, &vis2);
                    let p = self.pat(pat);
                    if annotate {
                        let tys = self.vty(vt, 5);
                        contributions.push(format!("let {} : {} = {} that", p, tys, v));
                    } else {
                        contributions.push(format!("let {} = {} that", p, v));
                    }
                }
                if self.style.block_shuffle != 0 {
                    let mut r = Rng::new(self.style.block_shuffle ^ (contributions.len() as u64) << 7 ^ self.counter as u64);
                    r.shuffle(&mut contributions);
                }
                let t = self.comp(body, ty, checked, &vis2);
                format!("begin\n{}\n{}\nend", contributions.join("\n"), t)
            }
            | Comp::Let { pat, val, ty: vt, tail } => {
                let annotate = self.style.annotate_all || matches!(val, Val::Ctor { .. }) || needs_check(val);
                let v = self.val_any(val, vt, annotate, vis);
                let mut vis2 = vis.clone();
                let tail_ref: &Comp = tail;
                self.pat_names(pat, &|x| free_in_comp(tail_ref, x), &mut vis2, &mut Vec::new());
                let p = self.binder_pat(pat, vt);
                // an opened package: its witness is abstract, and must not escape the opening
                let mut injected_before = String::new();
                let mut injected_after = String::new();
                if let Pat::Unpack(_, _, Some((abstract_var, witness))) = pat {
                    let a = self.names.get(abstract_var).cloned().unwrap_or_default();
                    if self.site("existential-witness-escapes") {
                        injected_before = format!("do zz8 <- (let {} = {} in ret {});\n", p, v, a);
                    }
                    if self.site("abstract-type-used-at-its-representation") {
                        injected_after = format!("let zz9 : {} = {} in\n", self.vty(witness, 5), a);
                    }
                }
                let punned = if annotate { let closed = !vt.mentions_tyvar(); let text = self.vty(vt, 5); self.pun_binder(pat, &text, closed, &mut vis2) } else { None };
                let t = self.comp(tail, ty, checked, &vis2);
                if let Some(alias) = punned {
                    return format!("let {} : {} = {} in\n{}", alias, alias, v, t);
                }
                if annotate {
                    let tys = self.vty(vt, 5);
                    let tys = if self.site("wrong-annotation") {
                        match self.rng.below(4) {
                            | 0 => {
                                self.applied = Some("term-where-type-expected".into());
                                "17".to_string()
                            }
                            | 1 => {
                                self.applied = Some("kind-where-type-expected".into());
                                "VType".to_string()
                            }
                            | _ => (if matches!(vt, VTy::Int) { "String" } else { "Int64" }).to_string(),
                        }
                    } else {
                        tys
                    };
                    format!("{}let {} : {} = {} in\n{}{}", injected_before, p, tys, v, injected_after, t)
                } else {
                    format!("{}let {} = {} in\n{}{}", injected_before, p, v, injected_after, t)
                }
            }
            | Comp::Fn { .. } if self.style.copattern_clauses && checked && self.mutation.is_none() && matches!(ty, CTy::Fun(..)) => {
                let (pats, inner, inner_ty, vis2) = self.clause_patterns(c, ty.clone(), vis);
                let b = self.comp(inner, &inner_ty, true, &vis2);
                format!("comatch\n| {} => {}\nend", pats.join(" "), b)
            }
            | Comp::Fn { pat, ty: pty, body } => {
                let result = match ty {
                    | CTy::Fun(_, r) => (**r).clone(),
                    | _ => CTy::OS,
                };
                let mut vis2 = vis.clone();
                let body_ref: &Comp = body;
                self.pat_names(pat, &|x| free_in_comp(body_ref, x), &mut vis2, &mut Vec::new());
                let p = self.binder_pat(pat, pty);
                let tys = self.vty(pty, 5);
                let tys = if checked && self.site("wrong-parameter-annotation") {
                    (if matches!(pty, VTy::Int) { "String" } else { "Int64" }).to_string()
                } else {
                    tys
                };
                let (p, tys) = match self.pun_binder(pat, &tys, !pty.mentions_tyvar(), &mut vis2) {
                    | Some(alias) => (alias.clone(), alias),
                    | None => (p, tys),
                };
                let b = self.comp(body, &result, checked, &vis2);
                if self.style.telescopes && b.starts_with("fn ") {
                    format!("fn ({} : {}) {}", p, tys, &b[3..])
                } else {
                    format!("fn ({} : {}) =>\n{}", p, tys, b)
                }
            }
            | Comp::App { fun, arg, arg_ty } => {
                let fty = super::ast::fun(arg_ty.clone(), ty.clone());
                let f = self.comp_head(fun, &fty, vis);
                let a = self.val(arg, arg_ty, true, vis);
                format!("{} {}", f, a)
            }
            | Comp::Force(v) => {
                let vt = thk(ty.clone());
                let s = self.val(v, &vt, checked, vis);
                let s = if self.site("force-non-thunk") { (*self.rng.pick(&["17", "\"wrong\"", "()", "(1, 2)"])).to_string() } else { s };
                format!("! {}", s)
            }
            | Comp::Match { scrut, scrut_ty, arms } => {
                let s = self.val_any(scrut, scrut_ty, false, vis);
                let has_ctor_arm = arms.iter().any(|(p, _)| matches!(p, Pat::Ctor(..)));
                let s = if has_ctor_arm && self.site("match-on-non-data") {
                    (*self.rng.pick(&["17", "\"wrong\"", "(1, 2)", "{ ret 1 }"])).to_string()
                } else {
                    s
                };
                let mut out = format!("match {}", s);
                // dropping one arm of a match that has exactly one irrefutable-payload arm per constructor is definitely
                // non-exhaustive (biased to the constructor declared last)
                let one_arm_per_ctor = match scrut_ty {
                    | VTy::Data(d, _) if arms.len() >= 2 && arms.len() == self.decls.data[*d].ctors.len() => {
                        let mut seen = std::collections::BTreeSet::new();
                        arms.iter().all(|(p, _)| matches!(p, Pat::Ctor(pd, c, inner) if pd == d && !inner.has_ctor() && seen.insert(*c)))
                    }
                    | _ => false,
                };
                let dropped: Option<usize> = if one_arm_per_ctor && self.site("missing-match-arm") {
                    let last_declared = arms.iter().enumerate().max_by_key(|(_, (p, _))| if let Pat::Ctor(_, c, _) = p { *c } else { 0 }).map(|(k, _)| k);
                    if self.rng.chance(1, 2) { last_declared } else { Some(self.rng.below(arms.len())) }
                } else {
                    None
                };
                for (k, (p, body)) in arms.iter().enumerate() {
                    if dropped == Some(k) {
                        continue;
                    }
                    let mut vis2 = vis.clone();
                    self.pat_names(p, &|x| free_in_comp(body, x), &mut vis2, &mut Vec::new());
                    let ps = self.pat(p);
                    let b = self.comp(body, ty, checked, &vis2);
                    out.push_str(&format!("\n| {} => {}", ps, b));
                }
                out.push_str("\nend");
                if !checked && arms.is_empty() { format!("({} : {})", out, self.cty(ty, 5)) } else { out }
            }
            | Comp::Comatch { decl, arms } => {
                let d = self.decls.codata[*decl].clone();
                let mut out = "comatch".to_string();
                let dropped: Option<usize> = if !arms.is_empty() && self.site("missing-comatch-arm") { Some(self.rng.below(arms.len())) } else { None };
                for (k, (idx, body)) in arms.iter().enumerate() {
                    if dropped == Some(k) {
                        continue;
                    }
                    if self.style.copattern_clauses && self.mutation.is_none() && matches!(body, Comp::Fn { .. }) {
                        let (pats, inner, inner_ty, vis2) = self.clause_patterns(body, d.dtors[*idx].1.clone(), vis);
                        let b = self.comp(inner, &inner_ty, true, &vis2);
                        out.push_str(&format!("\n| {} {} => {}", d.dtors[*idx].0, pats.join(" "), b));
                        continue;
                    }
                    let b = self.comp(body, &d.dtors[*idx].1, true, vis);
                    out.push_str(&format!("\n| {} => {}", d.dtors[*idx].0, b));
                }
                out.push_str("\nend");
                if !checked { format!("({} : {})", out, self.cty(ty, 5)) } else { out }
            }
            | Comp::Dtor { head, decl, dtor } => {
                let h = self.comp_head(head, &CTy::Codata(*decl), vis);
                if self.site("unknown-destructor") {
                    return format!("{} .zz9", h);
                }
                if self.site("destructor-on-function") {
                    return format!("(fn (q : Int64) => ret q : Int64 -> Ret Int64) {}", self.decls.codata[*decl].dtors[*dtor].0);
                }
                format!("{} {}", h, self.decls.codata[*decl].dtors[*dtor].0)
            }
            | Comp::Fix { var, ty: fty, body } => {
                let mut vis2 = vis.clone();
                let body_ref: &Comp = body;
                let name = self.choose_name(*var, &|x| free_in_comp(body_ref, x), &vis2);
                vis2.push((name.clone(), *var));
                let tys = self.vty(&thk(fty.clone()), 5);
                let (name, tys) = match self.pun_binder(&Pat::Var(*var), &tys, !fty.mentions_tyvar(), &mut vis2) {
                    | Some(alias) => (alias.clone(), alias),
                    | None => (name, tys),
                };
                let b = self.comp(body, fty, true, &vis2);
                format!("fix ({} : {}) =>\n{}", name, tys, b)
            }
            | Comp::TyFn { tv, ckind, body } => {
                let result = match ty {
                    | CTy::Forall(_, r) | CTy::ForallC(_, r) => (**r).clone(),
                    | _ => CTy::OS,
                };
                let n = self.tyvar(*tv);
                let b = self.comp(body, &result, checked, vis);
                format!("fn ({} : {}) =>\n{}", n, if *ckind { "CType" } else { "VType" }, b)
            }
            | Comp::TyAppV { fun, arg } => {
                // the head's type is not reconstructed here: heads of type applications are variables/forces
                let f = self.comp_head(fun, &CTy::OS, vis);
                format!("{} {}", f, self.vty(arg, 0))
            }
            | Comp::TyAppC { fun, arg } => {
                let f = self.comp_head(fun, &CTy::OS, vis);
                format!("{} {}", f, self.cty(arg, 0))
            }
            | Comp::Prim(op, args) => {
                let (name, tys): (&str, Vec<VTy>) = match op {
                    | PrimOp::Add => ("add", vec![VTy::Int, VTy::Int]),
                    | PrimOp::Sub => ("sub", vec![VTy::Int, VTy::Int]),
                    | PrimOp::Mul => ("mul", vec![VTy::Int, VTy::Int]),
                    | PrimOp::ToString => ("to_string", vec![VTy::Int]),
                    | PrimOp::Append => ("append", vec![VTy::Str, VTy::Str]),
                };
                let mut parts: Vec<String> = args.iter().zip(tys.iter()).map(|(a, t)| self.val(a, t, true, vis)).collect();
                if self.site("extra-argument") {
                    parts.push("17".into());
                } else if checked && parts.len() >= 2 && self.site("missing-argument") {
                    // definite only where the context fixes the expected type (an unused synthesised thunk may legally
                    // hold a partial application)
                    parts.pop();
                }
                format!("! {} {}", name, parts.join(" "))
            }
            | Comp::If { op, a, b, res, then, els } => {
                let (name, t) = match op {
                    | CmpOp::IntEq => ("int_eq", VTy::Int),
                    | CmpOp::IntLt => ("int_lt", VTy::Int),
                    | CmpOp::StrEq => ("str_eq", VTy::Str),
                };
                let r = self.cty(res, 0);
                let x = self.val(a, &t, true, vis);
                let y = self.val(b, &t, true, vis);
                let th = self.comp(then, res, true, vis);
                let el = self.comp(els, res, true, vis);
                let wrong = if matches!(res, CTy::Ret(_)) { "! exit 1" } else { "ret 1" };
                let th = if self.site("branch-type-mismatch") { wrong.to_string() } else { th };
                let el = if self.site("branch-type-mismatch") { wrong.to_string() } else { el };
                format!("! {} {} {} {} {{ {} }} {{ {} }}", name, r, x, y, th, el)
            }
            | Comp::WriteLine(v, k) => {
                let s = self.val(v, &VTy::Str, true, vis);
                let kk = self.comp(k, &CTy::OS, true, vis);
                let kk = if self.site("wrong-continuation-type") { "ret 1".to_string() } else { kk };
                format!("! write_line {} {{\n{} }}", s, kk)
            }
            | Comp::Exit(v) => {
                let s = self.val(v, &VTy::Int, true, vis);
                format!("! exit {}", s)
            }
            | Comp::Monadic { body, ty, args } => {
                self.counter += 1;
                let name = format!("mo_block{}", self.counter);
                // the block is closed: its only free names are the host operations, which it takes as parameters
                let ops = "(add : Thk (Int64 -> Int64 -> Ret Int64)) (sub : Thk (Int64 -> Int64 -> Ret Int64)) (mul : Thk (Int64 -> Int64 -> Ret Int64)) \
                           (to_string : Thk (Int64 -> Ret String)) (append : Thk (String -> String -> Ret String))";
                let b = self.comp(body, ty, false, &Vec::new());
                let parts: Vec<String> = args.iter().map(|(a, t)| self.val(a, t, true, vis)).collect();
                if self.style.erase_monadic {
                    format!("let ! {name} = fn {ops} =>\n{b}\nin\n! {name} add sub mul to_string append {}", parts.join(" "))
                } else {
                    format!("let ! {name} = @[monadic] begin\nfn {ops} =>\n{b}\nend in\n! {name} Ret {{ ! ret_monad }} add sub mul to_string append {}", parts.join(" "))
                }
            }
        }
    }

    /// The leading abstractions of `c` as copattern-clause patterns: returns (patterns text, body, body type, scope).
    /// Binders are named as for `fn`; their annotations are dropped (the clause is printed in a checked position).
    fn clause_patterns<'c>(&mut self, mut c: &'c Comp, mut ty: CTy, vis: &Vec<(String, VarId)>) -> (Vec<String>, &'c Comp, CTy, Vec<(String, VarId)>) {
        let mut vis2 = vis.clone();
        let mut pats = Vec::new();
        while let Comp::Fn { pat, ty: _, body } = c {
            let result = match &ty {
                | CTy::Fun(_, r) => (**r).clone(),
                | _ => break,
            };
            let body_ref: &Comp = body;
            self.pat_names(pat, &|x| free_in_comp(body_ref, x), &mut vis2, &mut Vec::new());
            let p = self.pat(pat);
            // a constructor pattern is an application: delimit it
            pats.push(if p.starts_with('+') { format!("({})", p) } else { p });
            c = body;
            ty = result;
        }
        (pats, c, ty, vis2)
    }

    /// Print a computation in head position of an application / destructor (must synthesise, must be tight).
    fn comp_head(&mut self, c: &Comp, ty: &CTy, vis: &Vec<(String, VarId)>) -> String {
        match c {
            | Comp::Force(_) | Comp::App { .. } | Comp::Dtor { .. } | Comp::TyAppV { .. } | Comp::TyAppC { .. } => self.comp(c, ty, false, vis),
            | Comp::Prim(..) => self.comp(c, ty, false, vis),
            | _ => {
                // abstractions, matches, comatches … in head position: annotate so that the head synthesises
                let s = self.comp(c, ty, true, vis);
                format!("({} : {})", s, self.cty(ty, 5))
            }
        }
    }

    fn pat_atom(&mut self, p: &Pat, ty: &VTy) -> String {
        self.binder_pat(p, ty)
    }

    /// A pattern in a binder position (let / do / fn). Injection site: the same pattern aliased with a constructor
    /// pattern of its data type, `(p; +C(_))` — it binds the same names but no longer covers the type.
    fn binder_pat(&mut self, p: &Pat, ty: &VTy) -> String {
        let s = self.pat(p);
        if let VTy::Data(d, _) = ty {
            let n = self.decls.data[*d].ctors.len();
            if n >= 2 && !p.has_ctor() && self.site("refutable-binder") {
                let c = self.rng.below(n);
                return format!("({}; {}(_))", s, self.decls.data[*d].ctors[c].0);
            }
        }
        s
    }
}

/// Does printing `c` yield a binder-level (loosest) term that must be parenthesised in operand positions?
fn loose(c: &Comp) -> bool {
    matches!(c, Comp::Do { .. } | Comp::Let { .. } | Comp::Fn { .. } | Comp::Fix { .. } | Comp::TyFn { .. } | Comp::Monadic { .. })
}

/// Values whose printed form cannot synthesise a type on its own.
fn needs_check(v: &Val) -> bool {
    match v {
        | Val::Ctor { .. } | Val::Pack { .. } => true,
        | Val::Tuple(items) => items.iter().any(needs_check),
        | Val::Rec(items) => items.iter().any(|(_, v)| needs_check(v)),
        | Val::Thunk(c, _) => comp_needs_check(c),
        | _ => false,
    }
}

fn comp_needs_check(c: &Comp) -> bool {
    match c {
        | Comp::Comatch { .. } => true,
        | Comp::Ret(v) => needs_check(v),
        | Comp::Fn { body, .. } | Comp::TyFn { body, .. } => comp_needs_check(body),
        | Comp::Do { tail, .. } | Comp::Let { tail, .. } => comp_needs_check(tail),
        | Comp::Match { arms, .. } => arms.is_empty() || arms.iter().any(|(_, c)| comp_needs_check(c)),
        | Comp::If { .. } => false,
        | _ => false,
    }
}

impl VTy {
    fn mentions_tyvar_free(&self) -> bool {
        false
    }
}

/* ------------------------------- free variables ------------------------------- */

pub fn free_in_val(v: &Val, x: VarId) -> bool {
    match v {
        | Val::Var(y) => *y == x,
        | Val::Int(_) | Val::Str(_) | Val::Unit => false,
        | Val::Tuple(items) => items.iter().any(|i| free_in_val(i, x)),
        | Val::Rec(items) => items.iter().any(|(_, i)| free_in_val(i, x)),
        | Val::Ctor { arg, .. } => free_in_val(arg, x),
        | Val::Thunk(c, _) => free_in_comp(c, x),
        | Val::Proj(h, ..) => free_in_val(h, x),
        | Val::Pack { body, .. } => free_in_val(body, x),
    }
}

/// Binder ids are unique in a program, so "occurs" = "occurs free" for a variable bound outside.
pub fn free_in_comp(c: &Comp, x: VarId) -> bool {
    match c {
        | Comp::Ret(v) | Comp::Force(v) | Comp::Exit(v) => free_in_val(v, x),
        | Comp::Do { bindee, tail, .. } => free_in_comp(bindee, x) || free_in_comp(tail, x),
        | Comp::Let { val, tail, .. } => free_in_val(val, x) || free_in_comp(tail, x),
        | Comp::Fn { body, .. } | Comp::Fix { body, .. } | Comp::TyFn { body, .. } => free_in_comp(body, x),
        | Comp::App { fun, arg, .. } => free_in_comp(fun, x) || free_in_val(arg, x),
        | Comp::Match { scrut, arms, .. } => free_in_val(scrut, x) || arms.iter().any(|(_, c)| free_in_comp(c, x)),
        | Comp::Comatch { arms, .. } => arms.iter().any(|(_, c)| free_in_comp(c, x)),
        | Comp::Dtor { head, .. } => free_in_comp(head, x),
        | Comp::TyAppV { fun, .. } | Comp::TyAppC { fun, .. } => free_in_comp(fun, x),
        | Comp::Monadic { body, args, .. } => free_in_comp(body, x) || args.iter().any(|(a, _)| free_in_val(a, x)),
        | Comp::Prim(_, args) => args.iter().any(|a| free_in_val(a, x)),
        | Comp::If { a, b, then, els, .. } => free_in_val(a, x) || free_in_val(b, x) || free_in_comp(then, x) || free_in_comp(els, x),
        | Comp::WriteLine(v, k) => free_in_val(v, x) || free_in_comp(k, x),
    }
}

/* --------------------------------- programs --------------------------------- */

pub fn decl_texts(p: &mut Printer, decls: &Decls) -> Vec<String> {
    let mut out = Vec::new();
    for d in &decls.data {
        let kw = if d.sealed || d.recursive || !p.style.transparent_types { "def" } else { "let" };
        let mut params = String::new();
        for tv in &d.params {
            params.push_str(&format!(" ({} : VType)", p.tyvar(*tv)));
        }
        let mut body = "data".to_string();
        for (name, payload) in &d.ctors {
            body.push_str(&format!(" | {} : {}", name, p.vty(payload, 5)));
        }
        body.push_str(" end");
        out.push(format!("{} {}{} : VType = {}", kw, d.name, params, body));
    }
    for d in &decls.codata {
        let kw = if d.sealed || d.recursive || !p.style.transparent_types { "def" } else { "let" };
        let mut body = "codata".to_string();
        for (name, t) in &d.dtors {
            body.push_str(&format!(" | {} : {}", name, p.cty(t, 5)));
        }
        body.push_str(" end");
        out.push(format!("{} {} : CType = {}", kw, d.name, body));
    }
    out
}

pub const STD_PRELUDE: &str = r#"param (
  (/core; /representations; /numeric; /text; /system) :
  @(import("/repo/lib/std/builtin.zy"))
) in
let (/VType; /CType; /Thk; /Ret; /Unit) = core in
let (/Scalar = Int64) = representations/i64 in
let (/Scalar = String) = representations/string in
let (/OS; /process; /stdio) = system in
let exit = process/exit in
let write_line = stdio/write_line in
let (Scalar = NumericInt64, int64) = numeric/int64 in
let add = int64/add in
let sub = int64/sub in
let mul = int64/mul in
let int_eq = int64/eq in
let int_lt = int64/lt in
let to_string = int64/to_string in
let append = text/string/append in
let str_eq = text/string/eq in
"#;

/// Whole program text: prelude, declarations (in a block, with `that`), body.
pub fn program_text(program: &Program, style: &Style, seed: u64) -> String {
    program_text_mut(program, style, seed, None).0
}

/// The kinds of the injection sites of a program, in site order (site numbering does not depend on the style).
pub fn program_site_kinds(program: &Program, style: &Style, seed: u64) -> Vec<String> {
    let mut p = Printer::new(&program.decls, style, seed);
    let _ = decl_texts(&mut p, &program.decls);
    let _ = p.comp(&program.body, &CTy::OS, false, &Vec::new());
    p.site_kinds
}

/// As `program_text`, with one typed error injected at site number `mutation` (if any).
/// Returns (text, number of injection sites seen, description of the injected error).
pub fn program_text_mut(program: &Program, style: &Style, seed: u64, mutation: Option<usize>) -> (String, usize, Option<String>) {
    let mut p = Printer::new(&program.decls, style, seed);
    p.mutation = mutation;
    let mut text = if style.standard_builtin { STD_PRELUDE.to_string() } else { MiniPrelude::core().text() };
    let mut decls = decl_texts(&mut p, &program.decls);
    if style.decl_shuffle != 0 {
        let mut r = Rng::new(style.decl_shuffle);
        r.shuffle(&mut decls);
    }
    let body = p.comp(&program.body, &CTy::OS, false, &Vec::new());
    for (alias, ty) in &p.aliases {
        decls.push(format!("let {} = {}", alias, ty));
    }
    if decls.is_empty() {
        text.push_str(&body);
        text.push('\n');
    } else {
        text.push_str("begin\n");
        for d in decls {
            text.push_str(&d);
            text.push_str(" that\n");
        }
        text.push_str(&body);
        text.push_str("\nend\n");
    }
    (text, p.sites, p.applied)
}
