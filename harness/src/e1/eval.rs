//! E1 reference evaluator: call-by-push-value semantics of the core AST, written independently of the
//! repository's interpreter. It never looks at types, names or file structure.

use super::ast::*;
use std::rc::Rc;

#[derive(Clone, Debug)]
pub enum RV {
    Int(i64),
    Str(Rc<str>),
    Unit,
    Tuple(Vec<RV>),
    Ctor(usize, usize, Box<RV>),
    Thunk(Rc<Comp>, Env),
}

#[derive(Clone, Debug, Default)]
pub struct Env(Option<Rc<EnvNode>>);

#[derive(Debug)]
struct EnvNode {
    var: VarId,
    value: RV,
    next: Env,
}

impl Env {
    pub fn new() -> Self {
        Env(None)
    }
    pub fn bind(&self, var: VarId, value: RV) -> Env {
        Env(Some(Rc::new(EnvNode { var, value, next: self.clone() })))
    }
    pub fn get(&self, var: VarId) -> Option<&RV> {
        let mut cur = &self.0;
        while let Some(node) = cur {
            if node.var == var {
                return Some(&node.value);
            }
            cur = &node.next.0;
        }
        None
    }
}

#[derive(Clone, Debug, PartialEq, Eq)]
pub enum RefEnd {
    Exit(i32),
    /// returned value rendered in the same structural notation as `pipeline::render_sem`
    Ret(String),
    FuelOut,
    /// the *reference* got stuck: a harness bug (ill-typed generated program), never a verdict on zydeco
    Stuck(String),
}

#[derive(Clone, Debug)]
pub struct RefRun {
    pub stdout: Vec<u8>,
    pub end: RefEnd,
    pub steps: u64,
}

enum Frame {
    Kont(Pat, Rc<Comp>, Env),
    Arg(RV),
    Dtor(usize, usize),
}

fn eval_val(v: &Val, env: &Env) -> Result<RV, String> {
    Ok(match v {
        | Val::Var(x) => env.get(*x).cloned().ok_or_else(|| format!("unbound variable v{}", x))?,
        | Val::Int(i) => RV::Int(*i),
        | Val::Str(s) => RV::Str(Rc::from(s.as_str())),
        | Val::Unit => RV::Unit,
        | Val::Tuple(items) => RV::Tuple(items.iter().map(|i| eval_val(i, env)).collect::<Result<_, _>>()?),
        | Val::Rec(fields) => RV::Tuple(fields.iter().map(|(_, i)| eval_val(i, env)).collect::<Result<_, _>>()?),
        | Val::Ctor { decl, ctor, arg, .. } => RV::Ctor(*decl, *ctor, Box::new(eval_val(arg, env)?)),
        | Val::Thunk(c, _) => RV::Thunk(Rc::new((**c).clone()), env.clone()),
        | Val::Proj(head, _, position, _) => match eval_val(head, env)? {
            | RV::Tuple(items) => items.get(*position).cloned().ok_or("projection out of range")?,
            | other => return Err(format!("projection from non-product {:?}", other)),
        },
        // types are erased: a package is its contents
        | Val::Pack { body, .. } => eval_val(body, env)?,
    })
}

/// Positional pattern binding; `Ok(None)` = refutable pattern did not match.
fn bind(p: &Pat, v: &RV, env: Env) -> Result<Option<Env>, String> {
    Ok(match (p, v) {
        | (Pat::Var(x), _) => Some(env.bind(*x, v.clone())),
        | (Pat::Wild, _) => Some(env),
        | (Pat::Unit, RV::Unit) => Some(env),
        | (Pat::Tuple(ps), RV::Tuple(vs)) => {
            // a pattern may have fewer components than the value: the last one takes the remaining tail
            if ps.len() > vs.len() || ps.len() < 2 {
                return Err(format!("tuple pattern arity {} against value arity {}", ps.len(), vs.len()));
            }
            let mut env = env;
            for (i, p) in ps.iter().enumerate() {
                let component = if i + 1 == ps.len() && ps.len() < vs.len() { RV::Tuple(vs[i..].to_vec()) } else { vs[i].clone() };
                match bind(p, &component, env)? {
                    | Some(e) => env = e,
                    | None => return Ok(None),
                }
            }
            Some(env)
        }
        | (Pat::Rec(fs), RV::Tuple(vs)) => {
            if fs.len() != vs.len() {
                return Err("named pattern arity".into());
            }
            let mut env = env;
            for ((_, p), v) in fs.iter().zip(vs) {
                match bind(p, v, env)? {
                    | Some(e) => env = e,
                    | None => return Ok(None),
                }
            }
            Some(env)
        }
        | (Pat::Ctor(_, idx, p), RV::Ctor(_, vidx, payload)) => {
            if idx != vidx {
                None
            } else {
                bind(p, payload, env)?
            }
        }
        | (Pat::Unpack(_, p, _), _) => bind(p, v, env)?,
        | (Pat::Alias(ps), _) => {
            let mut env = env;
            for p in ps {
                match bind(p, v, env)? {
                    | Some(e) => env = e,
                    | None => return Ok(None),
                }
            }
            Some(env)
        }
        | (p, v) => return Err(format!("pattern {:?} against value {:?}", p, v)),
    })
}

pub fn render(v: &RV, decls: &Decls) -> String {
    match v {
        | RV::Int(i) => format!("{}:Int64", i),
        | RV::Str(s) => format!("{:?}", &**s),
        | RV::Unit => "()".into(),
        | RV::Tuple(items) => {
            // the interpreter's products are right-nested spines: flatten a trailing tuple
            let mut parts: Vec<String> = Vec::new();
            fn go(items: &[RV], decls: &Decls, parts: &mut Vec<String>) {
                for (i, item) in items.iter().enumerate() {
                    if i + 1 == items.len() {
                        if let RV::Tuple(inner) = item {
                            go(inner, decls, parts);
                            continue;
                        }
                    }
                    parts.push(render(item, decls));
                }
            }
            go(items, decls, &mut parts);
            format!("[{}]", parts.join(","))
        }
        | RV::Ctor(d, i, payload) => format!("{}({})", decls.data[*d].ctors[*i].0, render(payload, decls)),
        | RV::Thunk(..) => "<thunk>".into(),
    }
}

pub fn run(program: &Program, fuel: u64) -> RefRun {
    run_comp(&program.body, &program.decls, fuel)
}

pub fn run_comp(body: &Comp, decls: &Decls, fuel: u64) -> RefRun {
    let mut stdout: Vec<u8> = Vec::new();
    let mut stack: Vec<Frame> = Vec::new();
    let mut comp: Rc<Comp> = Rc::new(body.clone());
    let mut env = Env::new();
    let mut steps = 0u64;
    macro_rules! stuck {
        ($($arg:tt)*) => {
            return RefRun { stdout, end: RefEnd::Stuck(format!($($arg)*)), steps }
        };
    }
    macro_rules! val {
        ($v:expr, $env:expr) => {
            match eval_val($v, $env) {
                | Ok(v) => v,
                | Err(e) => stuck!("{}", e),
            }
        };
    }
    loop {
        if steps >= fuel {
            return RefRun { stdout, end: RefEnd::FuelOut, steps };
        }
        steps += 1;
        // a computation that produced a value: return it to the nearest continuation
        let mut returned: Option<RV> = None;
        let current = comp.clone();
        match current.as_ref() {
            | Comp::Ret(v) => returned = Some(val!(v, &env)),
            | Comp::Prim(op, args) => {
                let args: Vec<RV> = {
                    let mut out = Vec::new();
                    for a in args {
                        out.push(val!(a, &env));
                    }
                    out
                };
                let value = match (op, args.as_slice()) {
                    | (PrimOp::Add, [RV::Int(a), RV::Int(b)]) => RV::Int(a.wrapping_add(*b)),
                    | (PrimOp::Sub, [RV::Int(a), RV::Int(b)]) => RV::Int(a.wrapping_sub(*b)),
                    | (PrimOp::Mul, [RV::Int(a), RV::Int(b)]) => RV::Int(a.wrapping_mul(*b)),
                    | (PrimOp::ToString, [RV::Int(a)]) => RV::Str(Rc::from(a.to_string().as_str())),
                    | (PrimOp::Append, [RV::Str(a), RV::Str(b)]) => RV::Str(Rc::from(format!("{}{}", a, b).as_str())),
                    | other => stuck!("primitive applied to {:?}", other),
                };
                returned = Some(value);
            }
            | Comp::Do { pat, bindee, tail, .. } => {
                stack.push(Frame::Kont(pat.clone(), Rc::new((**tail).clone()), env.clone()));
                comp = Rc::new((**bindee).clone());
            }
            | Comp::Let { pat, val, tail, .. } => {
                let v = val!(val, &env);
                match bind(pat, &v, env.clone()) {
                    | Ok(Some(e)) => env = e,
                    | Ok(None) => stuck!("let pattern did not match"),
                    | Err(e) => stuck!("{}", e),
                }
                comp = Rc::new((**tail).clone());
            }
            | Comp::Fn { pat, body, .. } => match stack.pop() {
                | Some(Frame::Arg(v)) => {
                    match bind(pat, &v, env.clone()) {
                        | Ok(Some(e)) => env = e,
                        | Ok(None) => stuck!("function pattern did not match"),
                        | Err(e) => stuck!("{}", e),
                    }
                    comp = Rc::new((**body).clone());
                }
                | _ => stuck!("function without an argument on the stack"),
            },
            | Comp::App { fun, arg, .. } => {
                let v = val!(arg, &env);
                stack.push(Frame::Arg(v));
                comp = Rc::new((**fun).clone());
            }
            | Comp::Force(v) => match val!(v, &env) {
                | RV::Thunk(c, e) => {
                    comp = c;
                    env = e;
                }
                | other => stuck!("force of {:?}", other),
            },
            | Comp::Match { scrut, arms, .. } => {
                let v = val!(scrut, &env);
                let mut chosen = None;
                for (p, c) in arms {
                    match bind(p, &v, env.clone()) {
                        | Ok(Some(e)) => {
                            chosen = Some((e, c));
                            break;
                        }
                        | Ok(None) => {}
                        | Err(e) => stuck!("{}", e),
                    }
                }
                match chosen {
                    | Some((e, c)) => {
                        env = e;
                        comp = Rc::new(c.clone());
                    }
                    | None => stuck!("no arm matches {:?}", v),
                }
            }
            | Comp::Comatch { arms, .. } => match stack.pop() {
                | Some(Frame::Dtor(_, idx)) => match arms.iter().find(|(d, _)| *d == idx) {
                    | Some((_, c)) => comp = Rc::new(c.clone()),
                    | None => stuck!("comatch has no arm for destructor {}", idx),
                },
                | _ => stuck!("comatch without a destructor on the stack"),
            },
            | Comp::Dtor { head, decl, dtor } => {
                stack.push(Frame::Dtor(*decl, *dtor));
                comp = Rc::new((**head).clone());
            }
            | Comp::Fix { var, .. } => {
                let Comp::Fix { body, .. } = current.as_ref() else { unreachable!() };
                let me = RV::Thunk(current.clone(), env.clone());
                env = env.bind(*var, me);
                comp = Rc::new((**body).clone());
            }
            | Comp::TyFn { body, .. } => comp = Rc::new((**body).clone()),
            | Comp::Monadic { body, args, .. } => {
                let mut c = (**body).clone();
                for (a, t) in args {
                    c = Comp::App { fun: Box::new(c), arg: a.clone(), arg_ty: t.clone() };
                }
                comp = Rc::new(c);
            }
            | Comp::TyAppV { fun, .. } | Comp::TyAppC { fun, .. } => comp = Rc::new((**fun).clone()),
            | Comp::If { op, a, b, then, els, .. } => {
                let (x, y) = (val!(a, &env), val!(b, &env));
                let c = match (op, &x, &y) {
                    | (CmpOp::IntEq, RV::Int(x), RV::Int(y)) => x == y,
                    | (CmpOp::IntLt, RV::Int(x), RV::Int(y)) => x < y,
                    | (CmpOp::StrEq, RV::Str(x), RV::Str(y)) => x == y,
                    | other => stuck!("comparison of {:?}", other),
                };
                comp = Rc::new(if c { (**then).clone() } else { (**els).clone() });
            }
            | Comp::WriteLine(v, k) => {
                match val!(v, &env) {
                    | RV::Str(s) => {
                        stdout.extend_from_slice(s.as_bytes());
                        stdout.push(b'\n');
                    }
                    | other => stuck!("write_line of {:?}", other),
                }
                comp = Rc::new((**k).clone());
            }
            | Comp::Exit(v) => match val!(v, &env) {
                | RV::Int(code) => return RefRun { stdout, end: RefEnd::Exit(code as i32), steps },
                | other => stuck!("exit of {:?}", other),
            },
        }
        if let Some(v) = returned {
            match stack.pop() {
                | Some(Frame::Kont(pat, tail, saved)) => {
                    match bind(&pat, &v, saved) {
                        | Ok(Some(e)) => env = e,
                        | Ok(None) => stuck!("do pattern did not match"),
                        | Err(e) => stuck!("{}", e),
                    }
                    comp = tail;
                }
                | None => return RefRun { stdout, end: RefEnd::Ret(render(&v, decls)), steps },
                | Some(_) => stuck!("value returned to a non-continuation frame"),
            }
        }
    }
}
