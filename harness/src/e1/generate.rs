//! E1 type-directed generator: closed, well-typed, terminating programs of type OS whose every literal is
//! unique and whose observable output is built with order-sensitive operations.

use super::ast::*;
use crate::util::rng::Rng;
use std::collections::BTreeSet;

#[derive(Clone, Debug)]
pub struct GenCfg {
    /// node budget for the whole program
    pub size: i64,
    pub max_depth: usize,
    pub statements: usize,
    pub polymorphism: bool,
    pub codata: bool,
    pub recursion: bool,
    /// allow `match` arms with nested constructor patterns / non-variable fix binders … (backend-limited shapes)
    pub nested_patterns: bool,
    pub named_products: bool,
    /// C20: statements that run a closed function as an `@[monadic]` block at the identity monad
    pub monadic: bool,
}

impl GenCfg {
    pub fn default_for(rng: &mut Rng) -> Self {
        GenCfg {
            size: 120 + rng.below(260) as i64,
            max_depth: 3 + rng.below(3),
            statements: 2 + rng.below(5),
            polymorphism: rng.chance(2, 3),
            codata: rng.chance(3, 4),
            recursion: rng.chance(3, 4),
            nested_patterns: rng.chance(1, 2),
            named_products: rng.chance(2, 3),
            monadic: false,
        }
    }
}

#[derive(Clone, Debug, Default)]
pub struct Ctx {
    pub vars: Vec<(VarId, VTy)>,
}

impl Ctx {
    fn with(&self, v: VarId, t: VTy) -> Ctx {
        let mut c = self.clone();
        c.vars.push((v, t));
        c
    }
    fn with_all(&self, vs: &[(VarId, VTy)]) -> Ctx {
        let mut c = self.clone();
        c.vars.extend(vs.iter().cloned());
        c
    }
}

pub struct Gen {
    pub rng: Rng,
    pub cfg: GenCfg,
    pub decls: Decls,
    next_var: VarId,
    next_tv: TyVarId,
    next_lit: i64,
    next_field: u32,
    budget: i64,
    pub features: BTreeSet<&'static str>,
    /// inside a monadic block: only the constructs the algebra translation supports, no `OS`
    pure_mode: bool,
}

const CTOR_NAMES: &[&str] = &["+Aa", "+Bb", "+Cc", "+Dd", "+Ee", "+Ff", "+Gg", "+Hh", "+Ii", "+Jj", "+Kk", "+Ll", "+Mm", "+Nn", "+Oo", "+Pp"];
const DTOR_NAMES: &[&str] = &[".aa", ".bb", ".cc", ".dd", ".ee", ".ff", ".gg", ".hh", ".ii", ".jj", ".kk", ".ll"];
const FIELD_NAMES: &[&str] = &["fa", "fb", "fc", "fd", "fe"];

impl Gen {
    pub fn new(rng: Rng, cfg: GenCfg) -> Self {
        let budget = cfg.size;
        Gen { rng, cfg, decls: Decls::default(), next_var: 0, next_tv: 0, next_lit: 0, next_field: 0, budget, features: BTreeSet::new(), pure_mode: false }
    }

    pub fn fresh_var(&mut self) -> VarId {
        self.next_var += 1;
        self.next_var
    }
    fn fresh_tv(&mut self) -> TyVarId {
        self.next_tv += 1;
        self.next_tv
    }
    /// unique integer literal (small, so sums stay readable; arithmetic wraps anyway)
    fn lit_int(&mut self) -> Val {
        self.next_lit += 1;
        let k = self.next_lit;
        Val::Int(if self.rng.chance(1, 6) { -(k * 7 + 3) } else { k * 11 + 1 })
    }
    fn lit_str(&mut self) -> Val {
        self.next_lit += 1;
        let k = self.next_lit;
        let extras = ["", " ", "é", "λ", "-", "_x", "\\n"];
        let e = extras[self.rng.below(extras.len())];
        Val::Str(format!("s{}{}", k, if e == "\\n" { "\n" } else { e }))
    }
    fn feat(&mut self, f: &'static str) {
        self.features.insert(f);
    }
    fn spend(&mut self, n: i64) {
        self.budget -= n;
    }
    fn low(&self) -> bool {
        self.budget <= 0
    }

    /* ------------------------------- declarations ------------------------------- */

    pub fn gen_decls(&mut self) {
        let n_data = 1 + self.rng.below(4);
        let mut ctor_pool: Vec<&str> = CTOR_NAMES.to_vec();
        self.rng.shuffle(&mut ctor_pool);
        let mut ctor_i = 0;
        let mut next_ctor = |g: &mut Gen| -> String {
            let n = ctor_pool[ctor_i % ctor_pool.len()].to_string();
            ctor_i += 1;
            let _ = g;
            if ctor_i > ctor_pool.len() { format!("{}{}", n, ctor_i) } else { n }
        };
        for i in 0..n_data {
            let name = format!("D{}", i);
            let kind = self.rng.below(8);
            let idx = self.decls.data.len();
            let decl = match kind {
                | 0 => {
                    // enumeration
                    let n = 2 + self.rng.below(3);
                    let ctors = (0..n).map(|_| (next_ctor(self), VTy::Unit)).collect();
                    DataDecl { name, params: vec![], ctors, sealed: self.rng.chance(1, 2), recursive: false }
                }
                | 1 => {
                    // option-like with a random payload
                    let payload = self.gen_vty(1, false);
                    let ctors = vec![(next_ctor(self), VTy::Unit), (next_ctor(self), payload)];
                    DataDecl { name, params: vec![], ctors, sealed: self.rng.chance(1, 2), recursive: false }
                }
                | 2 if self.cfg.recursion => {
                    self.feat("recursive-data");
                    // naturals
                    let ctors = vec![(next_ctor(self), VTy::Unit), (next_ctor(self), VTy::Data(idx, vec![]))];
                    DataDecl { name, params: vec![], ctors, sealed: true, recursive: true }
                }
                | 3 if self.cfg.recursion => {
                    self.feat("recursive-data");
                    self.feat("parametric-data");
                    // lists
                    let tv = self.fresh_tv();
                    let ctors = vec![
                        (next_ctor(self), VTy::Unit),
                        (next_ctor(self), prod(vec![VTy::Var(tv), VTy::Data(idx, vec![VTy::Var(tv)])])),
                    ];
                    DataDecl { name, params: vec![tv], ctors, sealed: true, recursive: true }
                }
                | 4 if self.cfg.recursion => {
                    self.feat("recursive-data");
                    // trees
                    let leaf = self.gen_vty(0, false);
                    let ctors = vec![
                        (next_ctor(self), leaf),
                        (next_ctor(self), prod(vec![VTy::Data(idx, vec![]), VTy::Data(idx, vec![])])),
                    ];
                    DataDecl { name, params: vec![], ctors, sealed: true, recursive: true }
                }
                | 5 => {
                    self.feat("parametric-data");
                    // parametric pair-or-nothing
                    let tv = self.fresh_tv();
                    let ctors = vec![(next_ctor(self), VTy::Unit), (next_ctor(self), prod(vec![VTy::Var(tv), VTy::Int]))];
                    DataDecl { name, params: vec![tv], ctors, sealed: self.rng.chance(1, 2), recursive: false }
                }
                | 7 => {
                    // wide enumeration: ten or more constructors, a few with payloads
                    self.feat("wide-data");
                    let n = 10 + self.rng.below(4);
                    let ctors = (0..n)
                        .map(|_| {
                            let payload = match self.rng.below(8) {
                                | 0 => VTy::Int,
                                | 1 => VTy::Str,
                                | _ => VTy::Unit,
                            };
                            (next_ctor(self), payload)
                        })
                        .collect();
                    DataDecl { name, params: vec![], ctors, sealed: self.rng.chance(1, 2), recursive: false }
                }
                | _ => {
                    // random sum
                    let n = 1 + self.rng.below(4);
                    let ctors = (0..n).map(|_| (next_ctor(self), self.gen_vty(1, false))).collect();
                    DataDecl { name, params: vec![], ctors, sealed: self.rng.chance(1, 2), recursive: false }
                }
            };
            self.decls.data.push(decl);
        }
        if self.cfg.codata {
            let n_codata = 1 + self.rng.below(2);
            let mut dtor_pool: Vec<&str> = DTOR_NAMES.to_vec();
            self.rng.shuffle(&mut dtor_pool);
            let mut di = 0;
            for i in 0..n_codata {
                let name = format!("K{}", i);
                let idx = self.decls.codata.len();
                if self.cfg.recursion && self.rng.chance(1, 3) {
                    self.feat("recursive-codata");
                    let head = self.gen_vty(0, false);
                    let dtors = vec![(dtor_pool[di].to_string(), ret(head)), (dtor_pool[di + 1].to_string(), CTy::Codata(idx))];
                    di += 2;
                    self.decls.codata.push(CodataDecl { name, dtors, sealed: true, recursive: true });
                } else {
                    let n = 1 + self.rng.below(3);
                    let mut dtors = Vec::new();
                    for _ in 0..n {
                        let t = match self.rng.below(4) {
                            | 0 => fun(self.gen_vty(0, false), ret(self.gen_vty(1, false))),
                            | 1 => fun(thk(fun(VTy::Int, CTy::OS)), CTy::OS),
                            | _ => ret(self.gen_vty(1, false)),
                        };
                        dtors.push((dtor_pool[di].to_string(), t));
                        di += 1;
                    }
                    self.decls.codata.push(CodataDecl { name, dtors, sealed: self.rng.chance(1, 2), recursive: false });
                }
            }
            self.feat("codata");
        }
    }

    /* ---------------------------------- types ---------------------------------- */

    pub fn gen_vty(&mut self, depth: usize, thunks: bool) -> VTy {
        let mut weights = vec![6u32, 3, 1, 0, 0, 0, 0];
        if depth > 0 {
            weights[3] = 3; // product
            weights[4] = if self.cfg.named_products { 1 } else { 0 }; // named product
            weights[6] = if thunks { 3 } else { 0 }; // thunk
        }
        if !self.decls.data.is_empty() {
            weights[5] = 4;
        }
        match self.rng.weighted(&weights) {
            | 0 => VTy::Int,
            | 1 => VTy::Str,
            | 2 => VTy::Unit,
            | 3 => {
                let n = if self.rng.chance(1, 5) { 4 + self.rng.below(2) } else { 2 + self.rng.below(2) };
                prod((0..n).map(|_| self.gen_vty(depth - 1, thunks)).collect())
            }
            | 4 => {
                self.feat("named-product");
                let n = 2 + self.rng.below(2);
                // field names are unique per program: `/f` searches nested labels, so reuse would be ambiguous
                VTy::Named(
                    (0..n)
                        .map(|i| {
                            self.next_field += 1;
                            (format!("{}{}", FIELD_NAMES[i], self.next_field), self.gen_vty(depth - 1, thunks))
                        })
                        .collect(),
                )
            }
            | 5 => {
                let d = self.rng.below(self.decls.data.len());
                let params = self.decls.data[d].params.len();
                let args = (0..params).map(|_| self.gen_vty(depth.saturating_sub(1), false)).collect();
                VTy::Data(d, args)
            }
            | _ => thk(self.gen_cty(depth - 1)),
        }
    }

    pub fn gen_cty(&mut self, depth: usize) -> CTy {
        let mut weights = vec![6u32, 0, 0, 1];
        if depth > 0 {
            weights[1] = 4;
        }
        if !self.decls.codata.is_empty() {
            weights[2] = 2;
        }
        if self.pure_mode {
            weights[2] = 0;
            weights[3] = 0;
        }
        match self.rng.weighted(&weights) {
            | 0 => ret(self.gen_vty(depth, depth > 0)),
            | 1 => {
                let a = self.gen_vty(depth - 1, true);
                let c = self.gen_cty(depth - 1);
                fun(a, c)
            }
            | 2 => CTy::Codata(self.rng.below(self.decls.codata.len())),
            | _ => CTy::OS,
        }
    }

    fn payload_ty(&self, decl: usize, targs: &[VTy], ctor: usize) -> VTy {
        let d = &self.decls.data[decl];
        let mut t = d.ctors[ctor].1.clone();
        for (p, a) in d.params.iter().zip(targs.iter()) {
            t = t.subst(*p, a);
        }
        t
    }

    /* ---------------------------------- values ---------------------------------- */

    pub fn gen_val(&mut self, ctx: &Ctx, ty: &VTy, depth: usize) -> Val {
        self.spend(1);
        // variables of exactly this type
        let candidates: Vec<VarId> = ctx.vars.iter().filter(|(_, t)| t == ty).map(|(v, _)| *v).collect();
        if !candidates.is_empty() && (self.low() || depth == 0 || self.rng.chance(1, 2)) {
            // prefer recent binders
            let k = candidates.len();
            let i = if self.rng.chance(1, 2) { k - 1 } else { self.rng.below(k) };
            return Val::Var(candidates[i]);
        }
        // projections out of named products in scope
        if self.rng.chance(1, 4) {
            let mut projs = Vec::new();
            for (v, t) in &ctx.vars {
                if let VTy::Named(fields) = t {
                    for (pos, (name, ft)) in fields.iter().enumerate() {
                        if ft == ty {
                            projs.push((*v, name.clone(), pos, t.clone()));
                        }
                    }
                }
            }
            if !projs.is_empty() {
                self.feat("projection");
                let (v, name, pos, t) = projs[self.rng.below(projs.len())].clone();
                return Val::Proj(Box::new(Val::Var(v)), name, pos, t);
            }
        }
        let d = depth.saturating_sub(1);
        match ty {
            | VTy::Int => self.lit_int(),
            | VTy::Str => self.lit_str(),
            | VTy::Unit => Val::Unit,
            | VTy::Prod(items) => {
                self.feat("tuple");
                Val::Tuple(items.iter().map(|t| self.gen_val(ctx, t, d)).collect())
            }
            | VTy::Named(items) => Val::Rec(items.iter().map(|(n, t)| (n.clone(), self.gen_val(ctx, t, d))).collect()),
            | VTy::Data(decl, targs) => {
                let decl_ref = &self.decls.data[*decl];
                let n = decl_ref.ctors.len();
                // when shallow or poor, avoid recursive constructors
                let non_rec: Vec<usize> = (0..n).filter(|i| !mentions_data(&decl_ref.ctors[*i].1, *decl)).collect();
                let ctor = if (depth == 0 || self.low()) && !non_rec.is_empty() { non_rec[self.rng.below(non_rec.len())] } else { self.rng.below(n) };
                let pt = self.payload_ty(*decl, targs, ctor);
                self.feat("constructor");
                Val::Ctor { decl: *decl, targs: targs.clone(), ctor, arg: Box::new(self.gen_val(ctx, &pt, d)) }
            }
            | VTy::Thk(c) => {
                self.feat("thunk");
                Val::Thunk(Box::new(self.gen_comp(ctx, c, d)), (**c).clone())
            }
            | VTy::Var(_) | VTy::Exists(..) => {
                // only reachable through variables; callers make sure one exists
                match candidates.last() {
                    | Some(v) => Val::Var(*v),
                    | None => panic!("generator asked for a value of an abstract type with none in scope"),
                }
            }
        }
    }

    /* ------------------------------- computations ------------------------------- */

    /// Irrefutable pattern for a value of type `ty`, returning the variables it binds.
    pub fn gen_pat(&mut self, ty: &VTy, depth: usize, binds: &mut Vec<(VarId, VTy)>) -> Pat {
        let choice = if depth == 0 { 0 } else { self.rng.below(5) };
        match (ty, choice) {
            | (VTy::Prod(items), 1..=3) => {
                self.feat("tuple-pattern");
                // possibly bind the tail with one pattern
                if items.len() > 2 && self.rng.chance(1, 4) {
                    self.feat("tuple-tail-pattern");
                    let first = self.gen_pat(&items[0], depth - 1, binds);
                    let rest = prod(items[1..].to_vec());
                    let tail = self.gen_pat(&rest, 0, binds);
                    return Pat::Tuple(vec![first, tail]);
                }
                Pat::Tuple(items.iter().map(|t| self.gen_pat(t, depth - 1, binds)).collect())
            }
            | (VTy::Named(items), 1..=3) => {
                self.feat("named-pattern");
                Pat::Rec(items.iter().map(|(n, t)| (n.clone(), self.gen_pat(t, depth - 1, binds))).collect())
            }
            | (VTy::Unit, 1..=2) => Pat::Unit,
            | (_, 4) if !matches!(ty, VTy::Unit) => {
                self.feat("alias-pattern");
                let v = self.fresh_var();
                binds.push((v, ty.clone()));
                let other = self.gen_pat(ty, depth - 1, binds);
                if self.rng.chance(1, 2) { Pat::Alias(vec![Pat::Var(v), other]) } else { Pat::Alias(vec![other, Pat::Var(v)]) }
            }
            | _ => {
                if self.rng.chance(1, 10) {
                    Pat::Wild
                } else {
                    let v = self.fresh_var();
                    binds.push((v, ty.clone()));
                    Pat::Var(v)
                }
            }
        }
    }

    pub fn gen_comp(&mut self, ctx: &Ctx, ty: &CTy, depth: usize) -> Comp {
        self.spend(1);
        if depth > 0 && !self.low() {
            // generic productions usable at any computation type
            // inside monadic blocks binds are what the translation rewrites: generate them more often
            let pick = if self.pure_mode && self.rng.chance(2, 5) {
                0
            } else if self.pure_mode && self.rng.chance(1, 5) {
                13
            } else {
                self.rng.below(16)
            };
            match pick {
                | 0 | 1 => {
                    // do x <- M; N
                    self.feat("do");
                    let a = self.gen_vty(1, depth > 1);
                    let bindee = self.gen_comp(ctx, &ret(a.clone()), depth - 1);
                    let mut binds = Vec::new();
                    let pat = self.gen_pat(&a, 1, &mut binds);
                    let tail = self.gen_comp(&ctx.with_all(&binds), ty, depth - 1);
                    return Comp::Do { pat, bindee: Box::new(bindee), bindee_ty: a, tail: Box::new(tail) };
                }
                | 2 => {
                    self.feat("let");
                    let a = self.gen_vty(2, true);
                    let val = self.gen_val(ctx, &a, depth - 1);
                    let mut binds = Vec::new();
                    let pat = self.gen_pat(&a, 2, &mut binds);
                    let tail = self.gen_comp(&ctx.with_all(&binds), ty, depth - 1);
                    return Comp::Let { pat, val, ty: a, tail: Box::new(tail) };
                }
                | 3 | 4 => {
                    if let Some(c) = self.gen_match(ctx, ty, depth) {
                        return c;
                    }
                }
                | 5 if !self.pure_mode => {
                    self.feat("branch");
                    let (op, t) = match self.rng.below(3) {
                        | 0 => (CmpOp::IntEq, VTy::Int),
                        | 1 => (CmpOp::IntLt, VTy::Int),
                        | _ => (CmpOp::StrEq, VTy::Str),
                    };
                    let a = self.gen_val(ctx, &t, 1);
                    let b = if self.rng.chance(1, 3) { a.clone() } else { self.gen_val(ctx, &t, 1) };
                    let then = self.gen_comp(ctx, ty, depth - 1);
                    let els = self.gen_comp(ctx, ty, depth - 1);
                    return Comp::If { op, a, b, res: ty.clone(), then: Box::new(then), els: Box::new(els) };
                }
                | 6 | 7 => {
                    if let Some(c) = self.gen_call(ctx, ty, depth) {
                        return c;
                    }
                }
                | 8 => {
                    // beta redex
                    self.feat("beta-redex");
                    let a = self.gen_vty(1, true);
                    let arg = self.gen_val(ctx, &a, depth - 1);
                    let mut binds = Vec::new();
                    let pat = self.gen_pat(&a, 1, &mut binds);
                    let body = self.gen_comp(&ctx.with_all(&binds), ty, depth - 1);
                    return Comp::App { fun: Box::new(Comp::Fn { pat, ty: a.clone(), body: Box::new(body) }), arg, arg_ty: a };
                }
                | 9 => {
                    // force of a thunk literal
                    self.feat("force-thunk-literal");
                    let body = self.gen_comp(ctx, ty, depth - 1);
                    return Comp::Force(Val::Thunk(Box::new(body), ty.clone()));
                }
                | 10 if !self.pure_mode => {
                    if let Some(c) = self.gen_dtor_use(ctx, ty, depth) {
                        return c;
                    }
                }
                | 11 if self.cfg.polymorphism && !self.pure_mode => {
                    if let Some(c) = self.gen_poly_use(ctx, ty, depth) {
                        return c;
                    }
                }
                | 12 if self.cfg.recursion && !self.pure_mode => {
                    if let Some(c) = self.gen_loop(ctx, ty, depth) {
                        return c;
                    }
                }
                | 15 if !self.pure_mode && self.rng.chance(1, 3) => {
                    let goal = ty.clone();
                    let show = goal == CTy::OS;
                    return self.gen_package(ctx, depth, show, &mut |g: &mut Gen, c: &Ctx| g.gen_comp(c, &goal, depth - 1));
                }
                | 14 => {
                    // do (x1, .., xn) <- M; ret xi   — a destructuring bind whose tail returns one component
                    if let CTy::Ret(a) = ty {
                        self.feat("do-destructure-return");
                        let a = (**a).clone();
                        let n = 2 + self.rng.below(3);
                        let at = self.rng.below(n);
                        let items: Vec<VTy> = (0..n).map(|i| if i == at { a.clone() } else { self.gen_vty(0, false) }).collect();
                        // a trailing product component would be flattened into the tuple: keep the shape by not ending with one
                        if !matches!(items.last(), Some(VTy::Prod(_))) {
                            let whole = prod(items.clone());
                            let bindee = self.gen_comp(ctx, &ret(whole.clone()), depth - 1);
                            let vars: Vec<VarId> = items.iter().map(|_| self.fresh_var()).collect();
                            let tuple = Pat::Tuple(vars.iter().map(|v| Pat::Var(*v)).collect());
                            let pat = if self.rng.chance(1, 4) {
                                self.feat("alias-pattern");
                                Pat::Alias(vec![Pat::Var(self.fresh_var()), tuple])
                            } else {
                                tuple
                            };
                            return Comp::Do { pat, bindee: Box::new(bindee), bindee_ty: whole, tail: Box::new(Comp::Ret(Val::Var(vars[at]))) };
                        }
                    }
                }
                | 13 => {
                    // let (p1, .., pj, rest) = (v1, .., vn) in let (q..) = rest in …
                    // a tuple literal taken apart by a pattern with fewer positions: the last one binds the remaining product
                    self.feat("tuple-regroup-let");
                    let n = 3 + self.rng.below(3);
                    let items: Vec<VTy> = (0..n).map(|_| if self.rng.chance(1, 2) { VTy::Int } else { self.gen_vty(0, false) }).collect();
                    let whole = prod(items.clone());
                    let vals: Vec<Val> = items.iter().map(|t| self.gen_val(ctx, t, 1)).collect();
                    let j = 1 + self.rng.below(n - 2);
                    let mut binds = Vec::new();
                    let mut pats: Vec<Pat> = (0..j).map(|i| self.gen_pat(&items[i], 0, &mut binds)).collect();
                    let rest_ty = prod(items[j..].to_vec());
                    let rest = self.fresh_var();
                    pats.push(Pat::Var(rest));
                    let mut inner_binds = Vec::new();
                    let inner_pats: Vec<Pat> = items[j..].iter().map(|t| self.gen_pat(t, 0, &mut inner_binds)).collect();
                    let mut all = binds.clone();
                    all.push((rest, rest_ty.clone()));
                    all.extend(inner_binds.iter().cloned());
                    let tail = self.gen_comp(&ctx.with_all(&all), ty, depth - 1);
                    let inner = Comp::Let { pat: Pat::Tuple(inner_pats), val: Val::Var(rest), ty: rest_ty, tail: Box::new(tail) };
                    return Comp::Let { pat: Pat::Tuple(pats), val: Val::Tuple(vals), ty: whole, tail: Box::new(inner) };
                }
                | _ => {}
            }
        }
        // a variable thunk of exactly this computation type
        if self.rng.chance(1, 3) || self.low() {
            let want = thk(ty.clone());
            let cands: Vec<VarId> = ctx.vars.iter().filter(|(_, t)| *t == want).map(|(v, _)| *v).collect();
            if !cands.is_empty() {
                self.feat("force-variable");
                return Comp::Force(Val::Var(cands[self.rng.below(cands.len())]));
            }
        }
        // type-directed introduction forms
        let d = depth.saturating_sub(1);
        match ty {
            | CTy::Ret(a) => {
                if !self.low() && depth > 0 {
                    match (&**a, self.rng.below(3)) {
                        | (VTy::Int, 0 | 1) => {
                            self.feat("arithmetic");
                            let op = *self.rng.pick(&[PrimOp::Add, PrimOp::Sub, PrimOp::Sub, PrimOp::Mul]);
                            let x = self.gen_val(ctx, &VTy::Int, d);
                            let y = self.gen_val(ctx, &VTy::Int, d);
                            return Comp::Prim(op, vec![x, y]);
                        }
                        | (VTy::Str, 0) => {
                            self.feat("string-append");
                            let x = self.gen_val(ctx, &VTy::Str, d);
                            let y = self.gen_val(ctx, &VTy::Str, d);
                            return Comp::Prim(PrimOp::Append, vec![x, y]);
                        }
                        | (VTy::Str, 1) => {
                            let x = self.gen_val(ctx, &VTy::Int, d);
                            return Comp::Prim(PrimOp::ToString, vec![x]);
                        }
                        | _ => {}
                    }
                }
                Comp::Ret(self.gen_val(ctx, a, d))
            }
            | CTy::Fun(a, c) => {
                self.feat("function");
                let mut binds = Vec::new();
                let pat = self.gen_pat(a, 1, &mut binds);
                let body = self.gen_comp(&ctx.with_all(&binds), c, d);
                Comp::Fn { pat, ty: (**a).clone(), body: Box::new(body) }
            }
            | CTy::Codata(decl) => {
                self.feat("comatch");
                let dtors = self.decls.codata[*decl].dtors.clone();
                let recursive = self.decls.codata[*decl].recursive;
                let mut order: Vec<usize> = (0..dtors.len()).collect();
                if self.rng.chance(1, 2) {
                    self.rng.shuffle(&mut order);
                    if order.iter().enumerate().any(|(i, o)| i != *o) {
                        self.feat("comatch-permuted-arms");
                    }
                }
                // a recursive codata object is tied through `fix`: its self-typed destructors return itself
                let me = if recursive { Some(self.fresh_var()) } else { None };
                let arms = order
                    .into_iter()
                    .map(|i| {
                        if let (Some(me), true) = (me, dtors[i].1 == CTy::Codata(*decl)) {
                            (i, Comp::Force(Val::Var(me)))
                        } else {
                            (i, self.gen_comp(ctx, &dtors[i].1, d))
                        }
                    })
                    .collect();
                let comatch = Comp::Comatch { decl: *decl, arms };
                match me {
                    | Some(me) => {
                        self.feat("fix");
                        Comp::Fix { var: me, ty: ty.clone(), body: Box::new(comatch) }
                    }
                    | None => comatch,
                }
            }
            | CTy::OS => {
                if !self.low() && depth > 0 && self.rng.chance(2, 3) {
                    self.feat("write-line");
                    let s = self.gen_val(ctx, &VTy::Str, 1);
                    let k = self.gen_comp(ctx, &CTy::OS, d);
                    Comp::WriteLine(s, Box::new(k))
                } else {
                    self.next_lit += 1;
                    Comp::Exit(Val::Int(self.next_lit % 200))
                }
            }
            | CTy::Forall(..) | CTy::ForallC(..) | CTy::Var(_) => {
                panic!("generator asked for an introduction form at a polymorphic / abstract computation type")
            }
        }
    }

    /// An abstract data type as an existential package, built, opened and used:
    ///   let pkg : exists (T : VType) . (init :: T) * (step :: Thk (T -> A -> Ret T)) * (read :: Thk (T -> Ret B)) = (W, (..)) in
    ///   let (T', (init = i, step = s, read = r)) = pkg in
    ///   do a <- ! s i x1; do b <- ! s a x2; do n <- ! r b; <tail with i, a, b, s, r, n in scope>
    /// The contents are a named product or a plain one; the tail's type never mentions the abstract type.
    fn gen_package(&mut self, ctx: &Ctx, depth: usize, show: bool, tail: &mut dyn FnMut(&mut Gen, &Ctx) -> Comp) -> Comp {
        self.feat("existential-package");
        let d = depth.saturating_sub(1);
        let tv = self.fresh_tv();
        let t = VTy::Var(tv);
        let witness = self.gen_vty(1, false);
        let a = if self.rng.chance(1, 2) { VTy::Int } else { VTy::Str };
        let b = self.gen_vty(1, false);
        let step_ty = |s: &VTy| fun(s.clone(), fun(a.clone(), ret(s.clone())));
        let read_ty = |s: &VTy| fun(s.clone(), ret(b.clone()));
        let named = self.rng.chance(1, 2);
        let (f_init, f_step, f_read) = {
            self.next_field += 1;
            let k = self.next_field;
            (format!("init{k}"), format!("step{k}"), format!("read{k}"))
        };
        let body_of = |s: &VTy| -> VTy {
            let items = vec![s.clone(), thk(step_ty(s)), thk(read_ty(s))];
            if named { VTy::Named(vec![(f_init.clone(), items[0].clone()), (f_step.clone(), items[1].clone()), (f_read.clone(), items[2].clone())]) } else { VTy::Prod(items) }
        };
        let ex_ty = VTy::Exists(tv, Box::new(body_of(&t)));
        // contents at the witness
        let init_v = self.gen_val(ctx, &witness, d);
        let step_v = Val::Thunk(Box::new(self.gen_comp(ctx, &step_ty(&witness), d)), step_ty(&witness));
        let read_v = Val::Thunk(Box::new(self.gen_comp(ctx, &read_ty(&witness), d)), read_ty(&witness));
        let contents = if named {
            Val::Rec(vec![(f_init.clone(), init_v), (f_step.clone(), step_v), (f_read.clone(), read_v)])
        } else {
            Val::Tuple(vec![init_v, step_v, read_v])
        };
        let pkg = self.fresh_var();
        // opening: a fresh name for the abstract type
        let tv2 = self.fresh_tv();
        let t2 = VTy::Var(tv2);
        let (i, s, r) = (self.fresh_var(), self.fresh_var(), self.fresh_var());
        let inner_pat = if named {
            self.feat("named-pattern");
            Pat::Rec(vec![(f_init.clone(), Pat::Var(i)), (f_step.clone(), Pat::Var(s)), (f_read.clone(), Pat::Var(r))])
        } else {
            Pat::Tuple(vec![Pat::Var(i), Pat::Var(s), Pat::Var(r)])
        };
        let open = Pat::Unpack(tv2, Box::new(inner_pat), Some((i, witness.clone())));
        // use: a few steps, then read
        let steps = 1 + self.rng.below(3);
        let mut states = vec![i];
        let mut ctx2 = ctx.with(pkg, ex_ty.clone()).with(i, t2.clone()).with(s, thk(step_ty(&t2))).with(r, thk(read_ty(&t2)));
        let mut step_args: Vec<Val> = Vec::new();
        for _ in 0..steps {
            step_args.push(self.gen_val(ctx, &a, 1));
            let next = self.fresh_var();
            ctx2 = ctx2.with(next, t2.clone());
            states.push(next);
        }
        let n = self.fresh_var();
        let ctx3 = ctx2.with(n, b.clone());
        let rest = tail(self, &ctx3);
        // show the read result so that the package's behaviour is observed even if the tail ignores it
        // (only where the whole computation is the program's own `OS`)
        let mut body = if show { self.gen_show(&ctx3, Val::Var(n), &b, 2, rest) } else { rest };
        body = Comp::Do {
            pat: Pat::Var(n),
            bindee: Box::new(Comp::App { fun: Box::new(Comp::Force(Val::Var(r))), arg: Val::Var(*states.last().unwrap()), arg_ty: t2.clone() }),
            bindee_ty: b.clone(),
            tail: Box::new(body),
        };
        for k in (0..steps).rev() {
            let call = Comp::App {
                fun: Box::new(Comp::App { fun: Box::new(Comp::Force(Val::Var(s))), arg: Val::Var(states[k]), arg_ty: t2.clone() }),
                arg: step_args[k].clone(),
                arg_ty: a.clone(),
            };
            body = Comp::Do { pat: Pat::Var(states[k + 1]), bindee: Box::new(call), bindee_ty: t2.clone(), tail: Box::new(body) };
        }
        let opened = Comp::Let { pat: open, val: Val::Var(pkg), ty: ex_ty.clone(), tail: Box::new(body) };
        Comp::Let { pat: Pat::Var(pkg), val: Val::Pack { witness, body: Box::new(contents) }, ty: ex_ty, tail: Box::new(opened) }
    }

    fn gen_match(&mut self, ctx: &Ctx, ty: &CTy, depth: usize) -> Option<Comp> {
        if self.decls.data.is_empty() {
            return None;
        }
        // scrutinee: a variable of data type if available, else a fresh value
        let vars: Vec<(VarId, VTy)> = ctx.vars.iter().filter(|(_, t)| matches!(t, VTy::Data(..))).cloned().collect();
        let (scrut, scrut_ty) = if !vars.is_empty() && self.rng.chance(2, 3) {
            let (v, t) = vars[self.rng.below(vars.len())].clone();
            (Val::Var(v), t)
        } else {
            let d = self.rng.below(self.decls.data.len());
            let params = self.decls.data[d].params.len();
            let targs: Vec<VTy> = (0..params).map(|_| self.gen_vty(0, false)).collect();
            let t = VTy::Data(d, targs);
            (self.gen_val(ctx, &t, 2), t)
        };
        let VTy::Data(decl, targs) = &scrut_ty else { return None };
        self.feat("match");
        let n = self.decls.data[*decl].ctors.len();
        let mut arms = Vec::new();
        let mut deferred: Vec<(Pat, Comp)> = Vec::new();
        let mut order: Vec<usize> = (0..n).collect();
        if self.rng.chance(1, 2) {
            self.rng.shuffle(&mut order);
        }
        // optionally a catch-all arm replaces the last constructors
        let cut = if n > 1 && self.rng.chance(1, 4) { 1 + self.rng.below(n - 1) } else { n };
        for (k, ctor) in order.iter().enumerate() {
            if k >= cut {
                break;
            }
            let pt = self.payload_ty(*decl, targs, *ctor);
            // split the arm on the constructors of a data-typed payload: `+C(+K1(p)) | +C(+K2(q))`
            if let VTy::Data(d2, targs2) = &pt {
                let n2 = self.decls.data[*d2].ctors.len();
                if self.cfg.nested_patterns && n2 <= 3 && self.rng.chance(1, 3) {
                    self.feat("nested-ctor-pattern");
                    // either one arm per inner constructor, or specific arms for some of them and a general arm for
                    // the same outer constructor further down (arms overlap: the first that matches is taken)
                    let specific = if n2 >= 2 && self.rng.chance(1, 2) { 1 + self.rng.below(n2 - 1) } else { n2 };
                    let mut inner_order: Vec<usize> = (0..n2).collect();
                    if specific < n2 {
                        self.feat("overlapping-arms");
                        self.rng.shuffle(&mut inner_order);
                    }
                    for k2 in inner_order.into_iter().take(specific) {
                        let pt2 = self.payload_ty(*d2, targs2, k2);
                        let mut binds = Vec::new();
                        let inner2 = self.gen_pat(&pt2, 0, &mut binds);
                        let body = self.gen_comp(&ctx.with_all(&binds), ty, depth - 1);
                        arms.push((Pat::Ctor(*decl, *ctor, Box::new(Pat::Ctor(*d2, k2, Box::new(inner2)))), body));
                    }
                    if specific < n2 {
                        let mut binds = Vec::new();
                        let inner = self.gen_pat(&pt, 0, &mut binds);
                        let body = self.gen_comp(&ctx.with_all(&binds), ty, depth - 1);
                        deferred.push((Pat::Ctor(*decl, *ctor, Box::new(inner)), body));
                    }
                    continue;
                }
            }
            let mut binds = Vec::new();
            let inner = if self.cfg.nested_patterns && self.rng.chance(1, 3) {
                self.gen_pat(&pt, 2, &mut binds)
            } else {
                self.gen_pat(&pt, 0, &mut binds)
            };
            if !inner.is_var_or_wild() {
                self.feat("match-arm-structured-payload");
            }
            let body = self.gen_comp(&ctx.with_all(&binds), ty, depth - 1);
            arms.push((Pat::Ctor(*decl, *ctor, Box::new(inner)), body));
        }
        // general arms of split constructors come after all other constructor arms
        arms.extend(deferred);
        // now and then an arm that can never be taken: a constructor that an earlier arm already covers
        if self.cfg.nested_patterns && !arms.is_empty() && self.rng.chance(1, 10) {
            let k = self.rng.below(arms.len());
            if let Pat::Ctor(d, c, _) = &arms[k].0 {
                let (d, c) = (*d, *c);
                self.feat("overlapping-arms");
                let body = self.gen_comp(ctx, ty, depth - 1);
                arms.push((Pat::Ctor(d, c, Box::new(Pat::Wild)), body));
            }
        }
        if cut < n {
            self.feat("match-catch-all");
            let (pat, binds) = if self.rng.chance(1, 2) {
                (Pat::Wild, vec![])
            } else {
                let v = self.fresh_var();
                (Pat::Var(v), vec![(v, scrut_ty.clone())])
            };
            let body = self.gen_comp(&ctx.with_all(&binds), ty, depth - 1);
            arms.push((pat, body));
        }
        Some(Comp::Match { scrut, scrut_ty: scrut_ty.clone(), arms })
    }

    /// Call a function-typed thunk variable whose final result is `ty`.
    fn gen_call(&mut self, ctx: &Ctx, ty: &CTy, depth: usize) -> Option<Comp> {
        let mut cands: Vec<(VarId, Vec<VTy>)> = Vec::new();
        for (v, t) in &ctx.vars {
            if let VTy::Thk(c) = t {
                // any suffix of the arrow spine may be the goal
                let mut args: Vec<VTy> = Vec::new();
                let mut cur: &CTy = c;
                loop {
                    if cur == ty && !args.is_empty() {
                        cands.push((*v, args.clone()));
                    }
                    match cur {
                        | CTy::Fun(a, r) => {
                            args.push((**a).clone());
                            cur = r;
                        }
                        | _ => break,
                    }
                }
            }
        }
        if cands.is_empty() {
            return None;
        }
        self.feat("call");
        let (v, args) = cands[self.rng.below(cands.len())].clone();
        if args.len() >= 2 {
            self.feat("multi-argument-call");
        }
        // build the type of each intermediate head for annotations
        let mut result_tys: Vec<CTy> = Vec::new();
        let mut t = ty.clone();
        for a in args.iter().rev() {
            result_tys.push(t.clone());
            t = fun(a.clone(), t);
        }
        result_tys.reverse();
        let mut head = Comp::Force(Val::Var(v));
        for a in args.iter() {
            let arg = self.gen_val(ctx, a, depth - 1);
            head = Comp::App { fun: Box::new(head), arg, arg_ty: a.clone() };
        }
        Some(head)
    }

    fn gen_dtor_use(&mut self, ctx: &Ctx, ty: &CTy, depth: usize) -> Option<Comp> {
        // a comatch eliminated on the spot: `(comatch … : K) .d args`
        if self.rng.chance(1, 3) {
            let mut cands: Vec<(usize, usize, Vec<VTy>)> = Vec::new();
            for (decl, d) in self.decls.codata.iter().enumerate() {
                if d.recursive {
                    continue;
                }
                for (i, (_, dt)) in d.dtors.iter().enumerate() {
                    let (args, result) = dt.uncurry();
                    if result == ty {
                        cands.push((decl, i, args.into_iter().cloned().collect()));
                    }
                }
            }
            if !cands.is_empty() {
                self.feat("comatch-redex");
                self.feat("destructor");
                let (decl, dtor, args) = cands[self.rng.below(cands.len())].clone();
                let object = self.gen_comp(ctx, &CTy::Codata(decl), depth - 1);
                let mut head = Comp::Dtor { head: Box::new(object), decl, dtor };
                for a in &args {
                    let arg = self.gen_val(ctx, a, depth - 1);
                    head = Comp::App { fun: Box::new(head), arg, arg_ty: a.clone() };
                }
                return Some(head);
            }
        }
        // a codata-typed thunk in scope with a destructor (after arguments) of the goal type
        let mut cands: Vec<(VarId, usize, usize, Vec<VTy>)> = Vec::new();
        for (v, t) in &ctx.vars {
            if let VTy::Thk(c) = t {
                if let CTy::Codata(decl) = &**c {
                    for (i, (_, dt)) in self.decls.codata[*decl].dtors.iter().enumerate() {
                        let (args, result) = dt.uncurry();
                        if result == ty {
                            cands.push((*v, *decl, i, args.into_iter().cloned().collect()));
                        }
                        if dt == ty && !matches!(dt, CTy::Fun(..)) {
                            // already covered by the uncurry case with zero args
                        }
                    }
                }
            }
        }
        if cands.is_empty() {
            return None;
        }
        self.feat("destructor");
        let (v, decl, dtor, args) = cands[self.rng.below(cands.len())].clone();
        let mut head = Comp::Dtor { head: Box::new(Comp::Force(Val::Var(v))), decl, dtor };
        for a in &args {
            let arg = self.gen_val(ctx, a, depth - 1);
            head = Comp::App { fun: Box::new(head), arg, arg_ty: a.clone() };
        }
        Some(head)
    }

    /// Use of a polymorphic library function (defined inline as a thunk literal) at the goal type.
    fn gen_poly_use(&mut self, ctx: &Ctx, ty: &CTy, depth: usize) -> Option<Comp> {
        let d = depth - 1;
        match ty {
            | CTy::Ret(a) if !self.rng.chance(1, 3) => {
                self.feat("forall-vtype");
                let a = (**a).clone();
                match self.rng.below(3) {
                    | 0 => {
                        // id : forall X . X -> Ret X
                        let tv = self.fresh_tv();
                        let x = self.fresh_var();
                        let idf = Comp::TyFn {
                            tv,
                            ckind: false,
                            body: Box::new(Comp::Fn { pat: Pat::Var(x), ty: VTy::Var(tv), body: Box::new(Comp::Ret(Val::Var(x))) }),
                        };
                        let idt = CTy::Forall(tv, Box::new(fun(VTy::Var(tv), ret(VTy::Var(tv)))));
                        let f = self.fresh_var();
                        let arg = self.gen_val(ctx, &a, d);
                        let call = Comp::App {
                            fun: Box::new(Comp::TyAppV { fun: Box::new(Comp::Force(Val::Var(f))), arg: a.clone() }),
                            arg,
                            arg_ty: a.clone(),
                        };
                        Some(Comp::Let { pat: Pat::Var(f), val: Val::Thunk(Box::new(idf), idt.clone()), ty: thk(idt), tail: Box::new(call) })
                    }
                    | 1 => {
                        // konst : forall X . forall Y . X -> Y -> Ret X
                        let (tx, tyv) = (self.fresh_tv(), self.fresh_tv());
                        let (x, y) = (self.fresh_var(), self.fresh_var());
                        let body = Comp::TyFn {
                            tv: tx,
                            ckind: false,
                            body: Box::new(Comp::TyFn {
                                tv: tyv,
                                ckind: false,
                                body: Box::new(Comp::Fn {
                                    pat: Pat::Var(x),
                                    ty: VTy::Var(tx),
                                    body: Box::new(Comp::Fn { pat: Pat::Var(y), ty: VTy::Var(tyv), body: Box::new(Comp::Ret(Val::Var(x))) }),
                                }),
                            }),
                        };
                        let t = CTy::Forall(tx, Box::new(CTy::Forall(tyv, Box::new(fun(VTy::Var(tx), fun(VTy::Var(tyv), ret(VTy::Var(tx))))))));
                        let b = self.gen_vty(1, false);
                        let f = self.fresh_var();
                        let arg1 = self.gen_val(ctx, &a, d);
                        let arg2 = self.gen_val(ctx, &b, d);
                        let call = Comp::App {
                            fun: Box::new(Comp::App {
                                fun: Box::new(Comp::TyAppV {
                                    fun: Box::new(Comp::TyAppV { fun: Box::new(Comp::Force(Val::Var(f))), arg: a.clone() }),
                                    arg: b.clone(),
                                }),
                                arg: arg1,
                                arg_ty: a.clone(),
                            }),
                            arg: arg2,
                            arg_ty: b,
                        };
                        Some(Comp::Let { pat: Pat::Var(f), val: Val::Thunk(Box::new(body), t.clone()), ty: thk(t), tail: Box::new(call) })
                    }
                    | _ => {
                        // swap : forall X . forall Y . X * Y -> Ret (Y * X), used when the goal is a pair
                        let VTy::Prod(items) = &a else { return None };
                        if items.len() != 2 {
                            return None;
                        }
                        let (ya, xa) = (items[0].clone(), items[1].clone());
                        if matches!(xa, VTy::Prod(_)) {
                            return None; // flattening would change the shape
                        }
                        let (tx, tyv) = (self.fresh_tv(), self.fresh_tv());
                        let (x, y) = (self.fresh_var(), self.fresh_var());
                        let pair_in = prod(vec![VTy::Var(tx), VTy::Var(tyv)]);
                        let pair_out = prod(vec![VTy::Var(tyv), VTy::Var(tx)]);
                        let body = Comp::TyFn {
                            tv: tx,
                            ckind: false,
                            body: Box::new(Comp::TyFn {
                                tv: tyv,
                                ckind: false,
                                body: Box::new(Comp::Fn {
                                    pat: Pat::Tuple(vec![Pat::Var(x), Pat::Var(y)]),
                                    ty: pair_in.clone(),
                                    body: Box::new(Comp::Ret(Val::Tuple(vec![Val::Var(y), Val::Var(x)]))),
                                }),
                            }),
                        };
                        let t = CTy::Forall(tx, Box::new(CTy::Forall(tyv, Box::new(fun(pair_in, ret(pair_out))))));
                        let f = self.fresh_var();
                        let arg_ty = prod(vec![xa.clone(), ya.clone()]);
                        if let VTy::Prod(check) = &arg_ty {
                            if check.len() != 2 {
                                return None;
                            }
                        }
                        let arg = self.gen_val(ctx, &arg_ty, d);
                        let call = Comp::App {
                            fun: Box::new(Comp::TyAppV {
                                fun: Box::new(Comp::TyAppV { fun: Box::new(Comp::Force(Val::Var(f))), arg: xa }),
                                arg: ya,
                            }),
                            arg,
                            arg_ty,
                        };
                        Some(Comp::Let { pat: Pat::Var(f), val: Val::Thunk(Box::new(body), t.clone()), ty: thk(t), tail: Box::new(call) })
                    }
                }
            }
            | _ => {
                // twice-like: forall (R : CType) . Thk (Thk R -> R) -> Thk R -> R   at R := ty
                self.feat("forall-ctype");
                let tr = self.fresh_tv();
                let (k, z) = (self.fresh_var(), self.fresh_var());
                let r = CTy::Var(tr);
                let kty = thk(fun(thk(r.clone()), r.clone()));
                let body = Comp::TyFn {
                    tv: tr,
                    ckind: true,
                    body: Box::new(Comp::Fn {
                        pat: Pat::Var(k),
                        ty: kty.clone(),
                        body: Box::new(Comp::Fn {
                            pat: Pat::Var(z),
                            ty: thk(r.clone()),
                            body: Box::new(Comp::App {
                                fun: Box::new(Comp::Force(Val::Var(k))),
                                arg: Val::Thunk(
                                    Box::new(Comp::App { fun: Box::new(Comp::Force(Val::Var(k))), arg: Val::Var(z), arg_ty: thk(r.clone()) }),
                                    r.clone(),
                                ),
                                arg_ty: thk(r.clone()),
                            }),
                        }),
                    }),
                };
                let t = CTy::ForallC(tr, Box::new(fun(kty, fun(thk(r.clone()), r.clone()))));
                let f = self.fresh_var();
                // k := { fn (w : Thk ty) => … ! w … }  — a wrapper that runs its argument (after optional output for OS)
                let w = self.fresh_var();
                let kbody = Comp::Force(Val::Var(w));
                let kbody = if *ty == CTy::OS {
                    self.feat("write-line");
                    Comp::WriteLine(self.lit_str(), Box::new(kbody))
                } else {
                    kbody
                };
                let kval = Val::Thunk(Box::new(Comp::Fn { pat: Pat::Var(w), ty: thk(ty.clone()), body: Box::new(kbody) }), fun(thk(ty.clone()), ty.clone()));
                let zcomp = self.gen_comp(ctx, ty, d);
                let zval = Val::Thunk(Box::new(zcomp), ty.clone());
                let call = Comp::App {
                    fun: Box::new(Comp::App {
                        fun: Box::new(Comp::TyAppC { fun: Box::new(Comp::Force(Val::Var(f))), arg: ty.clone() }),
                        arg: kval,
                        arg_ty: thk(fun(thk(ty.clone()), ty.clone())),
                    }),
                    arg: zval,
                    arg_ty: thk(ty.clone()),
                };
                Some(Comp::Let { pat: Pat::Var(f), val: Val::Thunk(Box::new(body), t.clone()), ty: thk(t), tail: Box::new(call) })
            }
        }
    }

    /// A counted loop through `fix`: terminates by construction (the step does not see the recursive binder).
    fn gen_loop(&mut self, ctx: &Ctx, ty: &CTy, depth: usize) -> Option<Comp> {
        let CTy::Ret(acc_ty) = ty else { return None };
        let acc_ty = (**acc_ty).clone();
        self.feat("fix");
        let d = depth - 1;
        let f = self.fresh_var();
        let n = self.fresh_var();
        let acc = self.fresh_var();
        let n2 = self.fresh_var();
        let acc2 = self.fresh_var();
        let fty = fun(VTy::Int, fun(acc_ty.clone(), ret(acc_ty.clone())));
        // step : uses n and acc, not f
        let step_ctx = ctx.with(n, VTy::Int).with(acc, acc_ty.clone());
        let step = self.gen_comp(&step_ctx, &ret(acc_ty.clone()), d.min(2));
        let recurse = Comp::App {
            fun: Box::new(Comp::App { fun: Box::new(Comp::Force(Val::Var(f))), arg: Val::Var(n2), arg_ty: VTy::Int }),
            arg: Val::Var(acc2),
            arg_ty: acc_ty.clone(),
        };
        let body = Comp::Fn {
            pat: Pat::Var(n),
            ty: VTy::Int,
            body: Box::new(Comp::Fn {
                pat: Pat::Var(acc),
                ty: acc_ty.clone(),
                body: Box::new(Comp::If {
                    op: CmpOp::IntLt,
                    a: Val::Int(0),
                    b: Val::Var(n),
                    res: ret(acc_ty.clone()),
                    then: Box::new(Comp::Do {
                        pat: Pat::Var(n2),
                        bindee: Box::new(Comp::Prim(PrimOp::Sub, vec![Val::Var(n), Val::Int(1)])),
                        bindee_ty: VTy::Int,
                        tail: Box::new(Comp::Do { pat: Pat::Var(acc2), bindee: Box::new(step), bindee_ty: acc_ty.clone(), tail: Box::new(recurse) }),
                    }),
                    els: Box::new(Comp::Ret(Val::Var(acc))),
                }),
            }),
        };
        let count = Val::Int(self.rng.below(4) as i64);
        let init = self.gen_val(ctx, &acc_ty, d);
        Some(Comp::App {
            fun: Box::new(Comp::App { fun: Box::new(Comp::Fix { var: f, ty: fty, body: Box::new(body) }), arg: count, arg_ty: VTy::Int }),
            arg: init,
            arg_ty: acc_ty,
        })
    }

    /* ------------------------------- observation ------------------------------- */

    /// Code that prints `v : ty` (to a bounded depth) and continues with `k : OS`.
    pub fn gen_show(&mut self, ctx: &Ctx, v: Val, ty: &VTy, depth: usize, k: Comp) -> Comp {
        match ty {
            | VTy::Int => {
                let s = self.fresh_var();
                Comp::Do {
                    pat: Pat::Var(s),
                    bindee: Box::new(Comp::Prim(PrimOp::ToString, vec![v])),
                    bindee_ty: VTy::Str,
                    tail: Box::new(Comp::WriteLine(Val::Var(s), Box::new(k))),
                }
            }
            | VTy::Str => Comp::WriteLine(v, Box::new(k)),
            | VTy::Unit => Comp::Let { pat: Pat::Unit, val: v, ty: VTy::Unit, tail: Box::new(Comp::WriteLine(Val::Str("unit".into()), Box::new(k))) },
            | VTy::Var(_) => Comp::WriteLine(Val::Str("<abstract>".into()), Box::new(k)),
            | VTy::Exists(..) => Comp::WriteLine(Val::Str("<package>".into()), Box::new(k)),
            | VTy::Prod(items) => {
                let vars: Vec<VarId> = items.iter().map(|_| self.fresh_var()).collect();
                let mut body = k;
                let inner_ctx = ctx.with_all(&vars.iter().cloned().zip(items.iter().cloned()).collect::<Vec<_>>());
                for (x, t) in vars.iter().zip(items.iter()).rev() {
                    body = self.gen_show(&inner_ctx, Val::Var(*x), t, depth, body);
                }
                Comp::Let { pat: Pat::Tuple(vars.into_iter().map(Pat::Var).collect()), val: v, ty: ty.clone(), tail: Box::new(body) }
            }
            | VTy::Named(items) => {
                if self.rng.chance(1, 2) {
                    // through projections
                    self.feat("projection");
                    let x = self.fresh_var();
                    let mut body = k;
                    let inner_ctx = ctx.with(x, ty.clone());
                    for (pos, (name, t)) in items.iter().enumerate().rev() {
                        body = self.gen_show(&inner_ctx, Val::Proj(Box::new(Val::Var(x)), name.clone(), pos, ty.clone()), t, depth, body);
                    }
                    Comp::Let { pat: Pat::Var(x), val: v, ty: ty.clone(), tail: Box::new(body) }
                } else {
                    self.feat("named-pattern");
                    let vars: Vec<VarId> = items.iter().map(|_| self.fresh_var()).collect();
                    let mut body = k;
                    let inner_ctx = ctx.with_all(&vars.iter().cloned().zip(items.iter().map(|(_, t)| t.clone())).collect::<Vec<_>>());
                    for (x, (_, t)) in vars.iter().zip(items.iter()).rev() {
                        body = self.gen_show(&inner_ctx, Val::Var(*x), t, depth, body);
                    }
                    Comp::Let {
                        pat: Pat::Rec(items.iter().map(|(n, _)| n.clone()).zip(vars.into_iter().map(Pat::Var)).collect()),
                        val: v,
                        ty: ty.clone(),
                        tail: Box::new(body),
                    }
                }
            }
            | VTy::Data(decl, targs) => {
                if depth == 0 {
                    return Comp::WriteLine(Val::Str("...".into()), Box::new(k));
                }
                self.feat("match");
                // share the continuation: let kk = { k } in match …
                let kk = self.fresh_var();
                let ctors = self.decls.data[*decl].ctors.clone();
                let mut arms = Vec::new();
                for (i, (name, _)) in ctors.iter().enumerate() {
                    let pt = self.payload_ty(*decl, targs, i);
                    let x = self.fresh_var();
                    let inner = self.gen_show(&ctx.with(x, pt.clone()), Val::Var(x), &pt, depth - 1, Comp::Force(Val::Var(kk)));
                    arms.push((Pat::Ctor(*decl, i, Box::new(Pat::Var(x))), Comp::WriteLine(Val::Str(name.clone()), Box::new(inner))));
                }
                Comp::Let {
                    pat: Pat::Var(kk),
                    val: Val::Thunk(Box::new(k), CTy::OS),
                    ty: thk(CTy::OS),
                    tail: Box::new(Comp::Match { scrut: v, scrut_ty: ty.clone(), arms }),
                }
            }
            | VTy::Thk(c) => {
                if depth == 0 {
                    return Comp::WriteLine(Val::Str("<thunk>".into()), Box::new(k));
                }
                self.gen_observe(ctx, Comp::Force(v), c, depth - 1, k)
            }
        }
    }

    /// Observe a computation of type `ty` (apply to arguments, take destructors, print results), then `k`.
    fn gen_observe(&mut self, ctx: &Ctx, c: Comp, ty: &CTy, depth: usize, k: Comp) -> Comp {
        match ty {
            | CTy::Ret(a) => {
                let x = self.fresh_var();
                let shown = self.gen_show(&ctx.with(x, (**a).clone()), Val::Var(x), a, depth, k);
                Comp::Do { pat: Pat::Var(x), bindee: Box::new(c), bindee_ty: (**a).clone(), tail: Box::new(shown) }
            }
            | CTy::Fun(a, r) => {
                let arg = self.gen_val(ctx, a, 1);
                self.gen_observe(ctx, Comp::App { fun: Box::new(c), arg, arg_ty: (**a).clone() }, r, depth, k)
            }
            | CTy::Codata(decl) => {
                if depth == 0 {
                    return Comp::WriteLine(Val::Str("<object>".into()), Box::new(k));
                }
                self.feat("destructor");
                // bind the object once, observe each destructor in a random order
                let obj = self.fresh_var();
                let dtors = self.decls.codata[*decl].dtors.clone();
                let mut order: Vec<usize> = (0..dtors.len()).collect();
                self.rng.shuffle(&mut order);
                let octx = ctx.with(obj, thk(ty.clone()));
                let mut body = k;
                for i in order {
                    let (_, dt) = &dtors[i];
                    let (_, result) = dt.uncurry();
                    if *result == CTy::OS {
                        continue; // would end the program
                    }
                    let head = Comp::Dtor { head: Box::new(Comp::Force(Val::Var(obj))), decl: *decl, dtor: i };
                    body = self.gen_observe(&octx, head, dt, depth - 1, body);
                }
                Comp::Let { pat: Pat::Var(obj), val: Val::Thunk(Box::new(c), ty.clone()), ty: thk(ty.clone()), tail: Box::new(body) }
            }
            | CTy::OS | CTy::Forall(..) | CTy::ForallC(..) | CTy::Var(_) => Comp::WriteLine(Val::Str("<computation>".into()), Box::new(k)),
        }
    }

    /* --------------------------------- programs --------------------------------- */

    pub fn gen_program(mut self) -> Program {
        self.gen_decls();
        let body = self.gen_statements(&Ctx::default(), self.cfg.statements);
        Program { decls: self.decls, body, features: self.features, var_count: self.next_var }
    }

    fn gen_statements(&mut self, ctx: &Ctx, remaining: usize) -> Comp {
        if remaining == 0 {
            self.next_lit += 1;
            return Comp::Exit(Val::Int(self.next_lit % 200));
        }
        let depth = self.cfg.max_depth;
        // refill a share of the budget per statement so that late statements are not starved
        self.budget = self.budget.max(self.cfg.size / (self.cfg.statements as i64).max(1));
        if self.cfg.monadic && self.rng.chance(5, 8) {
            // do x <- (monadic block) args; show x; rest
            self.feat("monadic-block");
            let n = self.rng.below(4);
            self.pure_mode = true;
            let params: Vec<(VarId, VTy)> = (0..n).map(|_| (self.fresh_var(), self.gen_vty(1, true))).collect();
            let a = self.gen_vty(2, false);
            let block_ctx = Ctx::default().with_all(&params);
            let mut body = self.gen_comp(&block_ctx, &ret(a.clone()), depth);
            self.pure_mode = false;
            for (v, t) in params.iter().rev() {
                body = Comp::Fn { pat: Pat::Var(*v), ty: t.clone(), body: Box::new(body) };
            }
            let fty = funs(params.iter().map(|(_, t)| t.clone()).collect(), ret(a.clone()));
            // arguments come from the enclosing program (they may use anything)
            let args: Vec<(Val, VTy)> = params.iter().map(|(_, t)| (self.gen_val(ctx, t, 2), t.clone())).collect();
            let x = self.fresh_var();
            let ctx2 = ctx.with(x, a.clone());
            let rest = self.gen_statements(&ctx2, remaining - 1);
            let shown = self.gen_show(&ctx2, Val::Var(x), &a, 3, rest);
            return Comp::Do { pat: Pat::Var(x), bindee: Box::new(Comp::Monadic { body: Box::new(body), ty: fty, args }), bindee_ty: a, tail: Box::new(shown) };
        }
        match self.rng.below(10) {
            | 8 => {
                let remaining_after = remaining - 1;
                self.gen_package(ctx, depth, true, &mut |g: &mut Gen, c: &Ctx| g.gen_statements(c, remaining_after))
            }

            | 0 | 1 | 2 => {
                // do x <- M : Ret A; show x; rest
                self.feat("do");
                let a = self.gen_vty(2, true);
                let m = self.gen_comp(ctx, &ret(a.clone()), depth);
                let x = self.fresh_var();
                let ctx2 = ctx.with(x, a.clone());
                let rest = self.gen_statements(&ctx2, remaining - 1);
                let shown = self.gen_show(&ctx2, Val::Var(x), &a, 3, rest);
                Comp::Do { pat: Pat::Var(x), bindee: Box::new(m), bindee_ty: a, tail: Box::new(shown) }
            }
            | 3 => {
                // let p = V in rest  (variables stay in scope)
                self.feat("let");
                let a = self.gen_vty(2, true);
                let v = self.gen_val(ctx, &a, depth);
                let mut binds = Vec::new();
                let pat = self.gen_pat(&a, 2, &mut binds);
                let ctx2 = ctx.with_all(&binds);
                let rest = self.gen_statements(&ctx2, remaining - 1);
                // show the first bound variable
                let tail = match binds.first() {
                    | Some((x, t)) => self.gen_show(&ctx2, Val::Var(*x), &t.clone(), 2, rest),
                    | None => rest,
                };
                Comp::Let { pat, val: v, ty: a, tail: Box::new(tail) }
            }
            | 4 | 5 => {
                // a named function: let f = { fn … } in rest
                self.feat("function");
                let n = 1 + self.rng.below(3);
                let args: Vec<VTy> = (0..n).map(|_| self.gen_vty(1, true)).collect();
                let result = if self.rng.chance(1, 4) { CTy::OS } else { ret(self.gen_vty(1, false)) };
                let fty = funs(args, result);
                let body = self.gen_comp(ctx, &fty, depth);
                let f = self.fresh_var();
                let ctx2 = ctx.with(f, thk(fty.clone()));
                let rest = self.gen_statements(&ctx2, remaining - 1);
                // observe the function once right away, too
                let tail = if matches!(fty.uncurry().1, CTy::OS) { rest } else { self.gen_show(&ctx2, Val::Var(f), &thk(fty.clone()), 2, rest) };
                Comp::Let { pat: Pat::Var(f), val: Val::Thunk(Box::new(body), fty.clone()), ty: thk(fty), tail: Box::new(tail) }
            }
            | 6 if !self.decls.codata.is_empty() => {
                // an object
                let decl = self.rng.below(self.decls.codata.len());
                let cty = CTy::Codata(decl);
                let body = self.gen_comp(ctx, &cty, depth);
                let o = self.fresh_var();
                let ctx2 = ctx.with(o, thk(cty.clone()));
                let rest = self.gen_statements(&ctx2, remaining - 1);
                let tail = self.gen_show(&ctx2, Val::Var(o), &thk(cty.clone()), 3, rest);
                Comp::Let { pat: Pat::Var(o), val: Val::Thunk(Box::new(body), cty.clone()), ty: thk(cty), tail: Box::new(tail) }
            }
            | _ => {
                self.feat("write-line");
                let s = self.lit_str();
                let rest = self.gen_statements(ctx, remaining - 1);
                Comp::WriteLine(s, Box::new(rest))
            }
        }
    }
}

fn mentions_data(t: &VTy, decl: usize) -> bool {
    match t {
        | VTy::Int | VTy::Str | VTy::Unit | VTy::Var(_) => false,
        | VTy::Prod(items) => items.iter().any(|t| mentions_data(t, decl)),
        | VTy::Named(items) => items.iter().any(|(_, t)| mentions_data(t, decl)),
        | VTy::Data(d, args) => *d == decl || args.iter().any(|t| mentions_data(t, decl)),
        | VTy::Thk(_) => false,
        | VTy::Exists(_, body) => mentions_data(body, decl),
    }
}

pub fn generate(seed: u64, tag: &str, index: u64) -> Program {
    let mut rng = Rng::for_case(seed, tag, index);
    let cfg = GenCfg::default_for(&mut rng);
    Gen::new(rng, cfg).gen_program()
}

/// C20: programs whose statements run closed functions as `@[monadic]` blocks (translation-supported subset inside).
pub fn generate_monadic(seed: u64, tag: &str, index: u64) -> Program {
    let mut rng = Rng::for_case(seed, tag, index);
    let mut cfg = GenCfg::default_for(&mut rng);
    cfg.polymorphism = false;
    cfg.codata = false;
    cfg.recursion = false;
    cfg.monadic = true;
    cfg.statements = 1 + rng.below(3);
    let mut g = Gen::new(rng, cfg);
    g.gen_decls();
    // the translation inlines the data types a block mentions: they must be transparent
    for d in g.decls.data.iter_mut() {
        d.sealed = false;
    }
    let body = g.gen_statements(&Ctx::default(), g.cfg.statements);
    Program { decls: g.decls, body, features: g.features, var_count: g.next_var }
}
