//! E1 — core-language engine: AST, type-directed generator, reference evaluator, printers.
pub mod ast;
pub mod eval;
pub mod generate;
pub mod print;
