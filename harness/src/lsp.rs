//! A minimal LSP client over stdio for driving the repository's language server (`cajun`) as a black box.
//!
//! Every message sent or received is stamped from one logical clock (an atomic counter shared with the reader thread):
//! a send is stamped *before* the bytes are written, a receipt *after* the message has been read completely. Hence
//! `stamp(receipt of A) < stamp(send of B)` implies that A had arrived before B was sent, in real time.

use serde_json::{Value, json};
use std::io::{BufRead, BufReader, Read, Write};
use std::path::Path;
use std::process::{Child, ChildStdin, Command, Stdio};
use std::sync::atomic::{AtomicU64, Ordering};
use std::sync::mpsc::{Receiver, RecvTimeoutError, channel};
use std::sync::Arc;
use std::time::{Duration, Instant};

pub struct Received {
    pub stamp: u64,
    pub at: Instant,
    pub message: Value,
}

pub struct Lsp {
    child: Child,
    /// messages go to a writer thread: a server that has stopped reading its input must not block the monitor (a
    /// document of a few megabytes does not fit into the pipe), it has to run into the monitor's own silence bound
    input: Option<std::sync::mpsc::Sender<Vec<u8>>>,
    incoming: Receiver<Received>,
    clock: Arc<AtomicU64>,
    next_id: u64,
    /// everything received so far, in arrival order
    pub log: Vec<Received>,
    /// (stamp, id or 0, method, uri, version) of everything sent
    pub sent: Vec<(u64, u64, String, String, i64)>,
}

pub enum Wait {
    Got(usize),
    /// the server closed its output (exit or crash)
    Closed,
    /// nothing arrived for the whole quiet period
    Silent,
}

impl Lsp {
    /// `stderr_to`: file that receives the server's standard error (panic messages), if given.
    pub fn start(binary: &Path, stderr_to: Option<&Path>) -> std::io::Result<Self> {
        let stderr = match stderr_to.and_then(|p| std::fs::File::create(p).ok()) {
            | Some(f) => Stdio::from(f),
            | None => Stdio::null(),
        };
        let mut command = Command::new(binary);
        command.env("RUST_BACKTRACE", "0").stdin(Stdio::piped()).stdout(Stdio::piped()).stderr(stderr);
        // the server must not outlive the monitor (a shard killed by the watchdog cannot run destructors)
        unsafe {
            use std::os::unix::process::CommandExt;
            command.pre_exec(|| {
                libc::prctl(libc::PR_SET_PDEATHSIG, libc::SIGKILL);
                Ok(())
            });
        }
        let mut child = command.spawn()?;
        let mut stdin: ChildStdin = child.stdin.take().expect("piped stdin");
        let (input_tx, input_rx) = channel::<Vec<u8>>();
        std::thread::spawn(move || {
            for bytes in input_rx {
                if stdin.write_all(&bytes).is_err() || stdin.flush().is_err() {
                    return;
                }
            }
        });
        let input = Some(input_tx);
        let output = child.stdout.take().expect("piped stdout");
        let clock = Arc::new(AtomicU64::new(1));
        let (tx, rx) = channel();
        let reader_clock = clock.clone();
        std::thread::spawn(move || {
            let mut reader = BufReader::new(output);
            loop {
                let mut length: Option<usize> = None;
                loop {
                    let mut line = String::new();
                    match reader.read_line(&mut line) {
                        | Ok(0) | Err(_) => return,
                        | Ok(_) => {}
                    }
                    if line == "\r\n" {
                        break;
                    }
                    if let Some(rest) = line.to_ascii_lowercase().strip_prefix("content-length:") {
                        length = rest.trim().parse().ok();
                    }
                }
                let Some(length) = length else { return };
                let mut body = vec![0u8; length];
                if reader.read_exact(&mut body).is_err() {
                    return;
                }
                let Ok(message) = serde_json::from_slice::<Value>(&body) else { return };
                let stamp = reader_clock.fetch_add(1, Ordering::SeqCst);
                if tx.send(Received { stamp, at: Instant::now(), message }).is_err() {
                    return;
                }
            }
        });
        Ok(Lsp { child, input, incoming: rx, clock, next_id: 1, log: Vec::new(), sent: Vec::new() })
    }

    fn write(&mut self, message: &Value) -> bool {
        let body = serde_json::to_vec(message).unwrap_or_default();
        let Some(input) = self.input.as_ref() else { return false };
        let mut bytes = format!("Content-Length: {}\r\n\r\n", body.len()).into_bytes();
        bytes.extend_from_slice(&body);
        input.send(bytes).is_ok()
    }

    fn describe(params: &Value) -> (String, i64) {
        let doc = &params["textDocument"];
        (doc["uri"].as_str().unwrap_or("").to_string(), doc["version"].as_i64().unwrap_or(-1))
    }

    /// Returns the stamp of the send.
    pub fn notify(&mut self, method: &str, params: Value) -> u64 {
        let stamp = self.clock.fetch_add(1, Ordering::SeqCst);
        let (uri, version) = Self::describe(&params);
        self.sent.push((stamp, 0, method.to_string(), uri, version));
        self.write(&json!({"jsonrpc": "2.0", "method": method, "params": params}));
        stamp
    }

    /// Posts a request without waiting for the answer. Returns (id, stamp of the send).
    pub fn post(&mut self, method: &str, params: Value) -> (u64, u64) {
        let id = self.next_id;
        self.next_id += 1;
        let stamp = self.clock.fetch_add(1, Ordering::SeqCst);
        let (uri, version) = Self::describe(&params);
        self.sent.push((stamp, id, method.to_string(), uri, version));
        self.write(&json!({"jsonrpc": "2.0", "id": id, "method": method, "params": params}));
        (id, stamp)
    }

    /// Moves everything that has arrived into the log.
    pub fn drain(&mut self) {
        while let Ok(r) = self.incoming.try_recv() {
            self.log.push(r);
        }
    }

    /// Waits until a logged message at or after `from` satisfies `pred`; `quiet` bounds the time without *any* arrival.
    pub fn wait_for(&mut self, from: usize, quiet: Duration, mut pred: impl FnMut(&Received) -> bool) -> Wait {
        let mut next = from;
        loop {
            while next < self.log.len() {
                if pred(&self.log[next]) {
                    return Wait::Got(next);
                }
                next += 1;
            }
            match self.incoming.recv_timeout(quiet) {
                | Ok(r) => self.log.push(r),
                | Err(RecvTimeoutError::Timeout) => return Wait::Silent,
                | Err(RecvTimeoutError::Disconnected) => return Wait::Closed,
            }
        }
    }

    pub fn response(&mut self, id: u64, quiet: Duration) -> Result<&Received, Wait> {
        match self.wait_for(0, quiet, |r| r.message.get("method").is_none() && r.message["id"].as_u64() == Some(id)) {
            | Wait::Got(i) => Ok(&self.log[i]),
            | other => Err(other),
        }
    }

    pub fn request(&mut self, method: &str, params: Value, quiet: Duration) -> Result<Value, Wait> {
        let (id, _) = self.post(method, params);
        self.response(id, quiet).map(|r| r.message.clone())
    }

    pub fn alive(&mut self) -> bool {
        matches!(self.child.try_wait(), Ok(None))
    }

    pub fn finish(mut self) {
        let _ = self.request("shutdown", Value::Null, Duration::from_secs(5));
        self.write(&json!({"jsonrpc": "2.0", "method": "exit"}));
        self.input = None;
        let deadline = Instant::now() + Duration::from_secs(5);
        while Instant::now() < deadline {
            if let Ok(Some(_)) = self.child.try_wait() {
                return;
            }
            std::thread::sleep(Duration::from_millis(20));
        }
        let _ = self.child.kill();
        let _ = self.child.wait();
    }
}

impl Drop for Lsp {
    fn drop(&mut self) {
        let _ = self.child.kill();
        let _ = self.child.wait();
    }
}

pub fn file_uri(path: &Path) -> String {
    format!("file://{}", path.display())
}
