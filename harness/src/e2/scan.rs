//! E2 (i) — independent scanner: hand-written maximal munch over the lexical grammar as documented in
//! `lang/surface/src/textual/lexer.rs`. It is the oracle for "what text is code" and "what text is a comment".

#[derive(Clone, Copy, Debug, PartialEq, Eq)]
pub enum Kind {
    Upper,
    Lower,
    Ctor,
    Dtor,
    Keyword,
    Int,
    Float,
    Str,
    Char,
    Punct,
    /// `--` line comment (includes its newline if present)
    LineComment,
    /// `--|` documentation / text line
    DocLine,
    /// `/- … -/` with nesting
    BlockComment,
    /// `/- …` that is still open at the end of the input: not a comment but a lexical irregularity (the text after the
    /// opener is neither parsed nor skipped by a complete comment)
    UnterminatedComment,
    /// `-/` at comment depth 0
    StrayClose,
    /// any other single character
    Unknown,
}

#[derive(Clone, Debug, PartialEq, Eq)]
pub struct Token {
    pub kind: Kind,
    pub start: usize,
    pub end: usize,
}

impl Token {
    pub fn is_comment(&self) -> bool {
        matches!(self.kind, Kind::LineComment | Kind::DocLine | Kind::BlockComment)
    }
    /// part of the program text the parser must account for
    pub fn is_code(&self) -> bool {
        !self.is_comment()
    }
    pub fn is_irregular(&self) -> bool {
        matches!(self.kind, Kind::StrayClose | Kind::Unknown | Kind::UnterminatedComment)
    }
    pub fn text<'a>(&self, src: &'a str) -> &'a str {
        &src[self.start..self.end]
    }
}

pub const KEYWORDS: &[&str] = &[
    "end", "begin", "data", "codata", "as", "def", "define", "let", "param", "in", "that", "do", "ret", "fn", "pi", "fix", "match", "comatch",
    "forall", "sigma", "exists",
];

fn is_ident_char(b: u8) -> bool {
    b.is_ascii_alphanumeric() || matches!(b, b'_' | b'\'' | b'?' | b'+' | b'*' | b'-' | b'=' | b'~')
}

fn ident_run(bytes: &[u8], mut i: usize) -> usize {
    while i < bytes.len() && is_ident_char(bytes[i]) {
        i += 1;
    }
    i
}

fn digits(bytes: &[u8], mut i: usize) -> usize {
    while i < bytes.len() && bytes[i].is_ascii_digit() {
        i += 1;
    }
    i
}

/// Longest numeric literal starting at `i` (optional sign included): (end, is_float)
fn number(bytes: &[u8], i: usize) -> Option<(usize, bool)> {
    let mut j = i;
    if j < bytes.len() && (bytes[j] == b'+' || bytes[j] == b'-') {
        j += 1;
    }
    let d = digits(bytes, j);
    if d == j {
        return None;
    }
    let mut best = (d, false);
    // digits '.' digits ( [eE] [+-]? digits )?
    if d < bytes.len() && bytes[d] == b'.' {
        let f = digits(bytes, d + 1);
        if f > d + 1 {
            best = (f, true);
            if f < bytes.len() && (bytes[f] == b'e' || bytes[f] == b'E') {
                let mut k = f + 1;
                if k < bytes.len() && (bytes[k] == b'+' || bytes[k] == b'-') {
                    k += 1;
                }
                let e = digits(bytes, k);
                if e > k {
                    best = (e, true);
                }
            }
        }
    }
    // digits [eE] [+-]? digits
    if d < bytes.len() && (bytes[d] == b'e' || bytes[d] == b'E') {
        let mut k = d + 1;
        if k < bytes.len() && (bytes[k] == b'+' || bytes[k] == b'-') {
            k += 1;
        }
        let e = digits(bytes, k);
        if e > k && e > best.0 {
            best = (e, true);
        }
    }
    Some(best)
}

/// `"[^"\\]*(\\.[^"\\]*)*"` — `.` does not match a newline
fn string_lit(bytes: &[u8], i: usize) -> Option<usize> {
    let mut j = i + 1;
    loop {
        if j >= bytes.len() {
            return None;
        }
        match bytes[j] {
            | b'"' => return Some(j + 1),
            | b'\\' => {
                // `\\.`: any character except newline (a whole UTF-8 scalar)
                if j + 1 >= bytes.len() || bytes[j + 1] == b'\n' {
                    return None;
                }
                j += 1;
                j += utf8_len(bytes[j]);
            }
            | _ => j += 1,
        }
    }
}

fn utf8_len(first: u8) -> usize {
    if first < 0x80 {
        1
    } else if first >> 5 == 0b110 {
        2
    } else if first >> 4 == 0b1110 {
        3
    } else if first >> 3 == 0b11110 {
        4
    } else {
        1
    }
}

/// `'([ -~]|\\[nrt'|(\\)])'`
fn char_lit(bytes: &[u8], i: usize) -> Option<usize> {
    if i + 2 < bytes.len() && bytes[i + 1] == b'\\' {
        if i + 3 < bytes.len() && matches!(bytes[i + 2], b'n' | b'r' | b't' | b'\'' | b'|' | b'(' | b'\\' | b')') && bytes[i + 3] == b'\'' {
            return Some(i + 4);
        }
    }
    if i + 2 < bytes.len() && (b' '..=b'~').contains(&bytes[i + 1]) && bytes[i + 2] == b'\'' {
        return Some(i + 3);
    }
    None
}

const PUNCT: &[&str] = &["::", "=>", "->", "<-", "(", ")", "[", "]", "{", "}", ",", ":", "=", ";", "!", "/", "|", "+", "*", ".", "_", "@"];

/// One raw token at `i` (no comment nesting): (kind, end). Mirrors logos' longest match with
/// literal tokens winning ties against regexes.
fn raw_token(src: &str, i: usize) -> (RawKind, usize) {
    let bytes = src.as_bytes();
    let b = bytes[i];
    let mut best: Option<(RawKind, usize)> = None;
    let mut offer = |kind: RawKind, end: usize, best: &mut Option<(RawKind, usize)>| {
        if best.map_or(true, |(_, e)| end > e) {
            *best = Some((kind, end));
        }
    };
    // comments and comment brackets
    if src[i..].starts_with("--|") {
        let end = src[i..].find('\n').map(|p| i + p + 1).unwrap_or(src.len());
        offer(RawKind::DocLine, end, &mut best);
    } else if src[i..].starts_with("--") {
        let end = src[i..].find('\n').map(|p| i + p + 1).unwrap_or(src.len());
        offer(RawKind::LineComment, end, &mut best);
    }
    if src[i..].starts_with("/-") {
        offer(RawKind::Open, i + 2, &mut best);
    }
    if src[i..].starts_with("-/") {
        offer(RawKind::Close, i + 2, &mut best);
    }
    // identifiers
    if b.is_ascii_uppercase() {
        offer(RawKind::Tok(Kind::Upper), ident_run(bytes, i + 1), &mut best);
    }
    if b.is_ascii_lowercase() {
        let end = ident_run(bytes, i + 1);
        let kind = if KEYWORDS.contains(&&src[i..end]) { Kind::Keyword } else { Kind::Lower };
        offer(RawKind::Tok(kind), end, &mut best);
    }
    if b == b'_' {
        let end = ident_run(bytes, i + 1);
        if end > i + 1 {
            offer(RawKind::Tok(Kind::Lower), end, &mut best);
        }
    }
    if b == b'+' && i + 1 < bytes.len() && bytes[i + 1].is_ascii_uppercase() {
        offer(RawKind::Tok(Kind::Ctor), ident_run(bytes, i + 2), &mut best);
    }
    if b == b'.' && i + 1 < bytes.len() && bytes[i + 1].is_ascii_lowercase() {
        offer(RawKind::Tok(Kind::Dtor), ident_run(bytes, i + 2), &mut best);
    }
    // literals
    if b.is_ascii_digit() || b == b'+' || b == b'-' {
        if let Some((end, is_float)) = number(bytes, i) {
            offer(RawKind::Tok(if is_float { Kind::Float } else { Kind::Int }), end, &mut best);
        }
    }
    if b == b'"' {
        if let Some(end) = string_lit(bytes, i) {
            offer(RawKind::Tok(Kind::Str), end, &mut best);
        }
    }
    if b == b'\'' {
        if let Some(end) = char_lit(bytes, i) {
            offer(RawKind::Tok(Kind::Char), end, &mut best);
        }
    }
    // punctuation (ties with an identifier of the same length cannot happen: different first characters,
    // except `_` vs `_ident`, where the identifier is longer)
    for p in PUNCT {
        if src[i..].starts_with(p) {
            offer(RawKind::Tok(Kind::Punct), i + p.len(), &mut best);
        }
    }
    match best {
        | Some(b) => b,
        | None => {
            // any other single character (a whole UTF-8 scalar); a newline cannot reach here (it is whitespace)
            let len = src[i..].chars().next().map(|c| c.len_utf8()).unwrap_or(1);
            (RawKind::Tok(Kind::Unknown), i + len)
        }
    }
}

#[derive(Clone, Copy, Debug, PartialEq, Eq)]
enum RawKind {
    Tok(Kind),
    LineComment,
    DocLine,
    Open,
    Close,
}

/// Scan a whole source into tokens and comments with byte ranges.
pub fn scan(src: &str) -> Vec<Token> {
    let bytes = src.as_bytes();
    let mut out = Vec::new();
    let mut i = 0;
    let mut depth = 0usize;
    let mut comment_start = 0usize;
    while i < bytes.len() {
        let b = bytes[i];
        if matches!(b, b' ' | b'\t' | b'\n' | 0x0c) {
            i += 1;
            continue;
        }
        let (kind, end) = raw_token(src, i);
        if depth > 0 {
            match kind {
                | RawKind::Open => depth += 1,
                | RawKind::Close => {
                    depth -= 1;
                    if depth == 0 {
                        out.push(Token { kind: Kind::BlockComment, start: comment_start, end });
                    }
                }
                | _ => {}
            }
            i = end;
            continue;
        }
        match kind {
            | RawKind::Open => {
                depth = 1;
                comment_start = i;
            }
            | RawKind::Close => out.push(Token { kind: Kind::StrayClose, start: i, end }),
            | RawKind::LineComment => out.push(Token { kind: Kind::LineComment, start: i, end }),
            | RawKind::DocLine => out.push(Token { kind: Kind::DocLine, start: i, end }),
            | RawKind::Tok(k) => out.push(Token { kind: k, start: i, end }),
        }
        i = end;
    }
    if depth > 0 {
        out.push(Token { kind: Kind::UnterminatedComment, start: comment_start, end: src.len() });
    }
    out
}

pub fn code_tokens(tokens: &[Token]) -> Vec<&Token> {
    tokens.iter().filter(|t| t.is_code()).collect()
}

pub fn comments(tokens: &[Token]) -> Vec<&Token> {
    tokens.iter().filter(|t| t.is_comment()).collect()
}
