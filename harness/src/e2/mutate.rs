//! E2 (iii) — mutators over source text: token-level, byte-level, and meaning-preserving trivia mutators.

use super::scan::{self, Kind, Token};
use crate::util::rng::Rng;

/// Vocabulary for token-level insertion / replacement, including extreme literals.
pub fn vocabulary(rng: &mut Rng) -> String {
    const FIXED: &[&str] = &[
        "end", "begin", "data", "codata", "as", "def", "define", "let", "param", "in", "that", "do", "ret", "fn", "pi", "fix", "match",
        "comatch", "forall", "sigma", "exists", "(", ")", "[", "]", "{", "}", ",", ":", "::", "=", ";", "!", "/", "|", "+", "*", ".", "=>",
        "->", "<-", "_", "@", "x", "y", "Foo", "T", "+C", "+Some", ".d", ".head", "x'", "a?", "_y", "f-1", "0", "1", "-1", "+5", "007", "1.5",
        "-2.5e3", "1e5", "\"s\"", "\"\"", "\"a\\nb\"", "\"\\\"\"", "'c'", "'\\n'", "'\\''", "-/", "/-", "-- c\n", "--| doc\n", "/- c -/",
        "@[doc]", "@[literal]", "@(import(\"x.zy\"))", "@(import(0))", "@(import(-1))", "@(import())", "@(intrinsic(vtype))", "@(intrinsic(i64))",
        "@(intrinsic(nope))", "@[builtin(exit)]", "@[builtin(nope)]", "@[builtin(os)]", "@[format(width(1))]", "@[format(width(0))]",
        "@[format(verbatim)]", "@[format(layout(ignore))]", "@[format(indent(99999999999))]", "@[monadic]", "@[debug(\"x\")]", "@[foo(bar, 1, \"s\")]",
        "@[end]", "$", "#", "\\", "`", "?", "~", "<", ">", "\r", "\u{0}", "é", "λ", "🙂",
    ];
    match rng.below(24) {
        | 0 => {
            // long integer literal
            let n = 1 + rng.below(60);
            let mut s = String::new();
            if rng.chance(1, 3) {
                s.push(if rng.chance(1, 2) { '-' } else { '+' });
            }
            for _ in 0..n {
                s.push((b'0' + rng.below(10) as u8) as char);
            }
            s
        }
        | 1 => format!("{}e{}{}", rng.below(100), if rng.chance(1, 2) { "-" } else { "" }, rng.below(100_000)),
        | 2 => format!("{}.{}e{}", rng.below(1000), rng.below(1000), rng.below(400)),
        | 3 => format!("@[foo({})]", (0..rng.below(30)).map(|_| (b'0' + rng.below(10) as u8) as char).collect::<String>()),
        | 4 => format!("@(import({}))", (0..1 + rng.below(25)).map(|_| (b'0' + rng.below(10) as u8) as char).collect::<String>()),
        | 5 => format!("\"{}\"", "x".repeat(rng.below(300))),
        | _ => FIXED[rng.below(FIXED.len())].to_string(),
    }
}

/// Apply `k` token-level mutations (delete / duplicate / swap / replace / insert).
pub fn mutate_tokens(src: &str, rng: &mut Rng, k: usize) -> String {
    let tokens = scan::scan(src);
    if tokens.is_empty() {
        return vocabulary(rng);
    }
    // pieces: alternating gap text and token text, so whitespace is preserved
    let mut pieces: Vec<String> = Vec::new();
    let mut pos = 0;
    for t in &tokens {
        pieces.push(src[pos..t.start].to_string());
        pieces.push(src[t.start..t.end].to_string());
        pos = t.end;
    }
    pieces.push(src[pos..].to_string());
    let ntok = tokens.len();
    for _ in 0..k {
        let i = 1 + 2 * rng.below(ntok); // index of a token piece
        match rng.below(6) {
            | 0 => pieces[i].clear(),
            | 1 => {
                let d = pieces[i].clone();
                pieces[i] = format!("{} {}", d, d);
            }
            | 2 => {
                let j = 1 + 2 * rng.below(ntok);
                pieces.swap(i, j);
            }
            | 3 => pieces[i] = vocabulary(rng),
            | 4 => pieces[i] = format!("{} {}", vocabulary(rng), pieces[i]),
            | _ => pieces[i] = format!("{} {}", pieces[i], vocabulary(rng)),
        }
    }
    pieces.concat()
}

/// Byte-level mutation: flip / delete / insert / truncate; result made valid UTF-8 lossily.
pub fn mutate_bytes(src: &str, rng: &mut Rng, k: usize) -> String {
    let mut bytes = src.as_bytes().to_vec();
    for _ in 0..k {
        if bytes.is_empty() {
            bytes.push(rng.next() as u8);
            continue;
        }
        let i = rng.below(bytes.len());
        match rng.below(5) {
            | 0 => bytes[i] = rng.next() as u8,
            | 1 => {
                bytes.remove(i);
            }
            | 2 => bytes.insert(i, rng.next() as u8),
            | 3 => bytes.truncate(i),
            | _ => bytes[i] ^= 1 << rng.below(8),
        }
    }
    String::from_utf8_lossy(&bytes).to_string()
}

/// Token soup over the vocabulary with bounded nesting.
pub fn token_soup(rng: &mut Rng) -> String {
    let n = 1 + rng.below(60);
    let mut s = String::new();
    let mut depth = 0;
    for _ in 0..n {
        let t = vocabulary(rng);
        if matches!(t.as_str(), "(" | "{" | "[" | "begin" | "match" | "comatch" | "data" | "codata") {
            if depth >= 64 {
                continue;
            }
            depth += 1;
        }
        s.push_str(&t);
        s.push_str(match rng.below(6) {
            | 0 => "\n",
            | 1 => "",
            | _ => " ",
        });
    }
    s
}

/* ----------------------------- meaning-preserving trivia ----------------------------- */

#[derive(Clone, Copy, Debug, PartialEq, Eq)]
pub enum CommentKind {
    Line,
    Doc,
    Block,
    NestedBlock,
}

pub fn comment_text(kind: CommentKind, tag: usize) -> String {
    match kind {
        | CommentKind::Line => format!("-- c{}\n", tag),
        | CommentKind::Doc => format!("--| d{}\n", tag),
        | CommentKind::Block => format!("/- b{} -/", tag),
        | CommentKind::NestedBlock => format!("/- n{} /- inner -/ tail -/", tag),
    }
}

/// Rebuild `src` with `insert[i]` placed in the gap *before* code/comment token i (gap n = after the last token).
pub fn with_gap_inserts(src: &str, tokens: &[Token], inserts: &[(usize, String)]) -> String {
    let mut out = String::new();
    let mut pos = 0;
    for (i, t) in tokens.iter().enumerate() {
        out.push_str(&src[pos..t.start]);
        for (gap, text) in inserts {
            if *gap == i {
                out.push(' ');
                out.push_str(text);
                out.push(' ');
            }
        }
        out.push_str(&src[t.start..t.end]);
        pos = t.end;
    }
    out.push_str(&src[pos..]);
    for (gap, text) in inserts {
        if *gap >= tokens.len() {
            out.push(' ');
            out.push_str(text);
        }
    }
    out
}

/// Re-space horizontally: every run of spaces/tabs between tokens on one line becomes 1..3 spaces.
/// Line structure is preserved (line breaks carry layout intentions).
pub fn respace_horizontal(src: &str, rng: &mut Rng) -> String {
    let tokens = scan::scan(src);
    // the continuation lines of a block comment are positioned relative to its opener: blanks before the opener of a
    // multi-line block comment on its own line are part of that comment's layout, not free horizontal spacing
    let frozen_lines: Vec<(usize, usize)> = tokens
        .iter()
        .filter(|t| t.kind == Kind::BlockComment && src[t.start..t.end].contains('\n'))
        .map(|t| (src[..t.start].rfind('\n').map_or(0, |n| n + 1), t.start))
        .collect();
    let mut out = String::new();
    let mut pos = 0;
    for t in &tokens {
        let gap = &src[pos..t.start];
        let frozen = frozen_lines.iter().any(|(from, to)| *from <= pos && t.start <= *to);
        if gap.contains('\n') || pos == 0 || frozen {
            out.push_str(gap);
        } else if !gap.is_empty() {
            for _ in 0..1 + rng.below(3) {
                out.push(' ');
            }
        }
        out.push_str(&src[t.start..t.end]);
        pos = t.end;
    }
    out.push_str(&src[pos..]);
    out
}

pub fn is_atom(t: &Token) -> bool {
    matches!(t.kind, Kind::Upper | Kind::Lower | Kind::Ctor | Kind::Dtor | Kind::Int | Kind::Float | Kind::Str | Kind::Char)
}

/* ----------------------------- vertical layout, parentheses, puns ----------------------------- */

fn gap_is_plain(gap: &str) -> bool {
    gap.chars().all(|c| c == ' ' || c == '\t' || c == '\n')
}

/// Change the vertical layout: break lines at random token gaps, join lines at others. Gaps next to a comment are left
/// alone (a line comment needs its line break, documentation lines attach by adjacency). Meaning-preserving.
pub fn rebreak(src: &str, rng: &mut Rng, changes: usize) -> String {
    let tokens = scan::scan(src);
    if tokens.len() < 2 {
        return src.to_string();
    }
    let mut picks: Vec<usize> = (0..changes).map(|_| 1 + rng.below(tokens.len() - 1)).collect();
    picks.sort();
    picks.dedup();
    let mut out = String::new();
    let mut pos = 0;
    for (i, t) in tokens.iter().enumerate() {
        let gap = &src[pos..t.start];
        let near_comment = t.is_comment() || (i > 0 && tokens[i - 1].is_comment());
        if i > 0 && picks.contains(&i) && !near_comment && gap_is_plain(gap) {
            if gap.contains('\n') {
                // join (keep a blank between the tokens)
                out.push(' ');
            } else {
                out.push('\n');
                // sometimes a blank line
                if rng.chance(1, 4) {
                    out.push('\n');
                }
                for _ in 0..rng.below(9) {
                    out.push(' ');
                }
            }
        } else {
            out.push_str(gap);
        }
        out.push_str(&src[t.start..t.end]);
        pos = t.end;
    }
    out.push_str(&src[pos..]);
    out
}

/// Wrap one identifier / literal token in parentheses: `x` -> `(x)`, or with a line break before the closing parenthesis
/// (`(x⏎)`) / after the opening one when `single_line` is false. The caller must confirm that the result still parses
/// to the same desugared term (a token in label or binder-keyword position does not).
pub fn add_redundant_parens(src: &str, rng: &mut Rng, single_line: bool) -> Option<String> {
    let tokens = scan::scan(src);
    let candidates: Vec<&Token> = tokens.iter().filter(|t| matches!(t.kind, Kind::Lower | Kind::Upper | Kind::Int | Kind::Str)).collect();
    if candidates.is_empty() {
        return None;
    }
    let t = candidates[rng.below(candidates.len())];
    let inner = &src[t.start..t.end];
    let wrapped = if single_line {
        match rng.below(3) {
            | 0 => format!("({})", inner),
            | 1 => format!("( {} )", inner),
            | _ => format!("(({}))", inner),
        }
    } else {
        match rng.below(4) {
            | 0 => format!("({}\n)", inner),
            | 1 => format!("(\n{})", inner),
            | 2 => format!("(\n  {}\n)", inner),
            | _ => format!("({}\n      )", inner),
        }
    };
    Some(format!("{}{}{}", &src[..t.start], wrapped, &src[t.end..]))
}

/// Toggle one pun: `(= x` / `, = x` -> `x = x`, `x = x` -> `= x`, `/x = x` -> `/x`, `/x` (in a pattern list) -> `/x = x`.
/// The caller must confirm that the result still parses to the same desugared term.
pub fn toggle_pun(src: &str, rng: &mut Rng) -> Option<String> {
    let tokens: Vec<Token> = scan::scan(src).into_iter().filter(|t| t.is_code()).collect();
    let text = |k: usize| tokens[k].text(src);
    let ident = |k: usize| matches!(tokens[k].kind, Kind::Lower | Kind::Upper);
    let mut edits: Vec<(usize, usize, String)> = Vec::new();
    for k in 0..tokens.len() {
        // `x = x`  ->  `= x`
        if k + 2 < tokens.len() && ident(k) && text(k + 1) == "=" && ident(k + 2) && text(k) == text(k + 2) && k >= 1 && matches!(text(k - 1), "(" | "," | "/") {
            if text(k - 1) == "/" {
                edits.push((tokens[k].end, tokens[k + 2].end, String::new()));
            } else {
                edits.push((tokens[k].start, tokens[k + 1].start, String::new()));
            }
        }
        // `= x` after `(` or `,`  ->  `x = x`
        if k >= 1 && k + 1 < tokens.len() && text(k) == "=" && matches!(text(k - 1), "(" | ",") && ident(k + 1) {
            edits.push((tokens[k].start, tokens[k].start, format!("{} ", text(k + 1))));
        }
        // `/x` followed by `;` `)` `,`  ->  `/x = x`
        if k >= 1 && k + 1 < tokens.len() && text(k - 1) == "/" && ident(k) && matches!(text(k + 1), ";" | ")" | ",") && k >= 2 && matches!(text(k - 2), "(" | ";" | ",") {
            edits.push((tokens[k].end, tokens[k].end, format!(" = {}", text(k))));
        }
    }
    if edits.is_empty() {
        return None;
    }
    let (from, to, with) = edits[rng.below(edits.len())].clone();
    Some(format!("{}{}{}", &src[..from], with, &src[to..]))
}
