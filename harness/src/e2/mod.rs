//! E2 — surface engine: independent scanner, front-end wrappers, corpus, mutators, grammar-directed generator.
pub mod grammar;
pub mod hostile;
pub mod mutate;
pub mod scan;

use crate::util::panic::{PanicInfo, catch};
use std::path::{Path, PathBuf};
use std::sync::Arc;
use zydeco_surface::bitter::SourceUnitDesugarer;
use zydeco_surface::textual::fmt::{IndentWidth, LayoutIntentions, Parentheses, PrettyFormatter, PrettyOptions};
use zydeco_surface::textual::syntax::{EntityId, Parser};
use zydeco_surface::textual::{Lexer, ParseError, SourceUnitParser};
use zydeco_syntax::Ugly;
use zydeco_utils::pass::CompilerPass;
use zydeco_utils::span::{FileInfo, LocationCtx};

/// E3 — every maintained source under /repo/lib and /repo/docs/spell, read from the current tree.
pub fn corpus() -> Vec<(PathBuf, String)> {
    let mut out = Vec::new();
    for root in ["/repo/lib", "/repo/docs/spell"] {
        walk(Path::new(root), &mut out);
    }
    out.sort();
    out
}

fn walk(dir: &Path, out: &mut Vec<(PathBuf, String)>) {
    let Ok(entries) = std::fs::read_dir(dir) else { return };
    for e in entries.flatten() {
        let p = e.path();
        if p.is_dir() {
            walk(&p, out);
        } else if matches!(p.extension().and_then(|e| e.to_str()), Some("zy" | "zyi" | "zydeco")) {
            if let Ok(text) = std::fs::read_to_string(&p) {
                out.push((p, text));
            }
        }
    }
}

#[derive(Clone, Debug)]
pub struct ParseOk {
    /// byte span of the root term
    pub root: (usize, usize),
}

/// Parse exactly as `zydeco fmt` / the session loader do. Outer Err = panic.
pub fn parse(src: &str) -> Result<Result<ParseOk, String>, PanicInfo> {
    catch(|| {
        let file_info = FileInfo::new(src, Some(Arc::new(PathBuf::from("input.zy"))));
        let location = LocationCtx::File(file_info.clone());
        let mut parser = Parser::new();
        match SourceUnitParser::new().parse(src, &location, &mut parser, Lexer::new(src)) {
            | Ok(unit) => {
                let span = &parser.spans[&EntityId::Term(unit.root)];
                Ok(ParseOk { root: span.get_cursor1() })
            }
            | Err(error) => Err(ParseError { error, file_info: &file_info }.to_string()),
        }
    })
}

#[derive(Clone, Copy, Debug, PartialEq, Eq)]
pub struct FmtOptions {
    pub width: usize,
    pub indent: usize,
    pub layout: u8,
    pub parens: u8,
}

impl FmtOptions {
    pub fn default_options() -> Self {
        FmtOptions { width: 100, indent: 2, layout: 0, parens: 0 }
    }
    pub fn to_pretty(self) -> PrettyOptions {
        PrettyOptions {
            indent: IndentWidth::new(self.indent.max(1)).unwrap_or_default(),
            line_width: self.width.max(1),
            layout_intentions: match self.layout {
                | 0 => LayoutIntentions::Preserve,
                | 1 => LayoutIntentions::BlankLinesOnly,
                | _ => LayoutIntentions::Ignore,
            },
            parentheses: if self.parens == 0 { Parentheses::Minimal } else { Parentheses::Preserve },
        }
    }
    /// the same options spelled as a source directive
    pub fn directive(self) -> String {
        format!(
            "@[format(width({}), indent({}), layout({}), parentheses({}))]",
            self.width.max(1),
            self.indent.max(1),
            ["preserve", "blank_lines", "ignore"][self.layout.min(2) as usize],
            ["minimal", "preserve"][self.parens.min(1) as usize]
        )
    }
    pub fn describe(self) -> String {
        format!("w{}i{}l{}p{}", self.width, self.indent, self.layout, self.parens)
    }
}

/// Byte ranges `[start of the annotation, end of its payload)` of every *valid* `@[format(.. verbatim ..)]` annotation
/// of a parseable source, outermost regions only (sorted). The extent of a payload is a fact of the grammar, so it is
/// taken from the parser's spans; whether a directive is valid is the repository's own decoding (`FormatMeta`).
pub fn verbatim_regions(src: &str) -> Option<Vec<(usize, usize)>> {
    use zydeco_surface::metadata::FormatMeta;
    use zydeco_surface::textual::syntax::Term;
    use zydeco_syntax::MetaT;
    catch(|| {
        let file_info = FileInfo::new(src, Some(Arc::new(PathBuf::from("input.zy"))));
        let location = LocationCtx::File(file_info.clone());
        let mut parser = Parser::new();
        let _unit = SourceUnitParser::new().parse(src, &location, &mut parser, Lexer::new(src)).ok()?;
        let mut regions: Vec<(usize, usize)> = Vec::new();
        for (id, term) in parser.arena.terms.iter() {
            if let Term::Meta(MetaT(meta, inner)) = term {
                if let Ok(Some(directive)) = meta.specialize::<FormatMeta>() {
                    if directive.verbatim {
                        let (start, _) = parser.spans[&EntityId::Term(*id)].get_cursor1();
                        let (_, end) = parser.spans[&EntityId::Term(*inner)].get_cursor1();
                        if start < end && end <= src.len() {
                            regions.push((start, end));
                        }
                    }
                }
            }
        }
        regions.sort();
        let all = regions.clone();
        regions.retain(|r| !all.iter().any(|o| o != r && o.0 <= r.0 && r.1 <= o.1));
        Some(regions)
    })
    .ok()
    .flatten()
}

/// Format a source with the given options through the public formatter. Outer Err = panic.
pub fn format_with(src: &str, options: FmtOptions) -> Result<Result<String, String>, PanicInfo> {
    catch(|| {
        let file_info = FileInfo::new(src, Some(Arc::new(PathBuf::from("input.zy"))));
        let location = LocationCtx::File(file_info.clone());
        let mut parser = Parser::new();
        match SourceUnitParser::new().parse(src, &location, &mut parser, Lexer::new(src)) {
            | Ok(unit) => Ok(PrettyFormatter::with_options_source(&parser.arena, &parser.spans, options.to_pretty(), src).render_unit(unit)),
            | Err(error) => Err(ParseError { error, file_info: &file_info }.to_string()),
        }
    })
}

/// Format with default options (what `zydeco fmt` does).
pub fn format(src: &str) -> Result<Result<String, String>, PanicInfo> {
    catch(|| {
        let file_info = FileInfo::new(src, Some(Arc::new(PathBuf::from("input.zy"))));
        let location = LocationCtx::File(file_info.clone());
        let mut parser = Parser::new();
        match SourceUnitParser::new().parse(src, &location, &mut parser, Lexer::new(src)) {
            | Ok(unit) => Ok(PrettyFormatter::with_source(&parser.arena, &parser.spans, src).render_unit(unit)),
            | Err(error) => Err(ParseError { error, file_info: &file_info }.to_string()),
        }
    })
}

/// Canonical one-line rendering of the desugared term (structure after desugaring). Outer Err = panic.
pub fn desugared(src: &str) -> Result<Result<String, String>, PanicInfo> {
    catch(|| {
        let file_info = FileInfo::new(src, Some(Arc::new(PathBuf::from("input.zy"))));
        let location = LocationCtx::File(file_info.clone());
        let mut parser = Parser::new();
        let unit = match SourceUnitParser::new().parse(src, &location, &mut parser, Lexer::new(src)) {
            | Ok(unit) => unit,
            | Err(error) => return Err(format!("parse: {}", ParseError { error, file_info: &file_info })),
        };
        match SourceUnitDesugarer::new(&parser.spans, &parser.arena, unit).run() {
            | Ok(out) => {
                let formatter = zydeco_surface::bitter::fmt::Formatter::new(&out.arena);
                Ok(merge_sigma_telescopes(&out.root.ugly(&formatter)))
            }
            | Err(e) => Err(format!("desugar: {}", e)),
        }
    })
}

/// Desugaring wraps every `exists` keyword's telescope into one kind annotation: `exists a . exists b . c` and
/// `exists a b . c` become `(sigma a . sigma b . c : VType)`, but `exists a . (exists b . c)` becomes
/// `(sigma a . (sigma b . c : VType) : VType)`. The inner annotation says nothing the outer one does not (the body of a
/// sigma type is a value type), and the formatter, which merges telescopes through a redundant group by design, removes
/// it. The comparison of desugared terms therefore reads a `( .. : VType)` wrapper that is directly the body of a sigma
/// as its contents.
pub fn merge_sigma_telescopes(ugly: &str) -> String {
    let bytes = ugly.as_bytes();
    // matching parenthesis of every `(`, string literals skipped
    let mut partner = vec![usize::MAX; bytes.len()];
    let mut stack = Vec::new();
    let mut i = 0;
    while i < bytes.len() {
        match bytes[i] {
            | b'"' => {
                i += 1;
                while i < bytes.len() && bytes[i] != b'"' {
                    if bytes[i] == b'\\' {
                        i += 1;
                    }
                    i += 1;
                }
            }
            | b'(' => stack.push(i),
            | b')' => {
                if let Some(open) = stack.pop() {
                    partner[open] = i;
                }
            }
            | _ => {}
        }
        i += 1;
    }
    let mut drop = vec![false; bytes.len()];
    const OPEN: &str = ". (sigma ";
    const CLOSE: &str = " : VType)";
    let mut from = 0;
    while let Some(at) = ugly[from..].find(OPEN) {
        let open = from + at + 2;
        let close = partner[open];
        if close != usize::MAX && close + 1 >= CLOSE.len() && &ugly[close + 1 - CLOSE.len()..=close] == CLOSE {
            drop[open] = true;
            for d in drop.iter_mut().take(close + 1).skip(close + 1 - CLOSE.len()) {
                *d = true;
            }
        }
        from = open + 1;
    }
    ugly.char_indices().filter(|(i, _)| !drop[*i]).map(|(_, c)| c).collect()
}
