//! E2 (iv) — hostile lexical trivia: comment payloads and whole-file decorations chosen to stress comment capture,
//! indentation arithmetic and the renderers: multi-byte characters, Unicode white space at line starts, tabs, form
//! feeds, carriage returns, empty and blank continuation lines, comment openers after indentation, look-alikes of
//! comment delimiters. Everything here keeps the *code* token sequence of the decorated source unchanged (the
//! decorations are comments and skip characters), except `decorate_file`, which may also make the file unreadable.

use super::scan::{self, Token};
use crate::util::rng::Rng;

/// White space as seen by a human; only the first three are skip characters of the lexer, the others are ordinary
/// comment content when they occur inside a comment.
const BLANKS: &[&str] = &[" ", "  ", "\t", " \t ", "\u{00A0}", "\u{3000}", "\u{2003}", "\u{2028}", "\u{0085}", "\u{FEFF}", "\u{200B}", "\u{1680}"];
const WORDS: &[&str] = &[
    "c", "note", "TODO:", "é", "λx", "🙂", "日本語", "a\u{0301}", "-", "--", "- -", "/", "|", "\"q", "'", "@[doc]", "end", "{", ")", "\\", "\u{7f}", "x\ty", "=>", "-|",
    "*/", "//", "#", "\u{202E}rtl", "ß", "ﬁ", "０１",
];

fn blank(rng: &mut Rng) -> &'static str {
    BLANKS[rng.below(BLANKS.len())]
}

/// Comment content without line breaks and without anything that opens or closes a block comment. Always contains the
/// marker `h<tag>` so that comments of one source are pairwise distinct.
fn payload(rng: &mut Rng, tag: usize) -> String {
    let mut words: Vec<String> = (0..rng.below(4)).map(|_| WORDS[rng.below(WORDS.len())].to_string()).collect();
    let at = rng.below(words.len() + 1);
    words.insert(at, format!("h{}", tag));
    let mut out = String::new();
    for (i, w) in words.iter().enumerate() {
        if i > 0 {
            // never empty: `-` directly before `/` (or `/` before `-`) would be a comment delimiter
            out.push_str(blank(rng));
        }
        out.push_str(w);
    }
    debug_assert!(!out.contains("/-") && !out.contains("-/") && !out.contains('\n'));
    out
}

/// `-- …\n` with hostile content; never a documentation line.
pub fn line_comment(rng: &mut Rng, tag: usize) -> String {
    let mut s = String::from("--");
    match rng.below(4) {
        | 0 => {}
        | 1 => s.push('\t'),
        | 2 => s.push_str(blank(rng)),
        | _ => s.push(' '),
    }
    let p = payload(rng, tag);
    // `--|` starts a documentation line
    if s == "--" && p.starts_with('|') {
        s.push(' ');
    }
    s.push_str(&p);
    match rng.below(6) {
        | 0 => s.push_str("  "),
        | 1 => s.push('\t'),
        | 2 => s.push('\r'),
        | 3 => s.push_str(blank(rng)),
        | _ => {}
    }
    s.push('\n');
    s
}

/// `--| …\n` with hostile content (one or several adjacent lines).
pub fn doc_lines(rng: &mut Rng, tag: usize) -> String {
    let mut s = String::new();
    for k in 0..1 + rng.below(3) {
        s.push_str("--|");
        if rng.chance(3, 4) {
            s.push_str(blank(rng));
        }
        if rng.chance(5, 6) {
            s.push_str(&payload(rng, tag * 10 + k));
        }
        if rng.chance(1, 6) {
            s.push_str("  ");
        }
        s.push('\n');
    }
    s
}

/// A block comment, usually over several lines whose continuation lines start with arbitrary (also non-ASCII)
/// white space; sometimes with a nested comment, blank lines, or the terminator on its own line.
pub fn block_comment(rng: &mut Rng, tag: usize) -> String {
    let mut s = String::from("/-");
    if rng.chance(4, 5) {
        s.push_str(blank(rng));
    }
    let lines = 1 + rng.below(5);
    for k in 0..lines {
        if k > 0 {
            s.push('\n');
            for _ in 0..rng.below(4) {
                s.push_str(blank(rng));
            }
        }
        match rng.below(8) {
            | 0 => {} // empty or blank-only line
            | 1 => {
                s.push_str(&payload(rng, tag * 10 + k));
                s.push_str(" /- ");
                s.push_str(&payload(rng, tag * 10 + k + 5));
                if rng.chance(1, 2) {
                    s.push('\n');
                    s.push_str(blank(rng));
                }
                s.push_str(" -/ ");
            }
            | _ => s.push_str(&payload(rng, tag * 10 + k)),
        }
    }
    if rng.chance(1, 3) {
        s.push('\n');
        for _ in 0..rng.below(3) {
            s.push_str(blank(rng));
        }
        s.push_str("-/");
    } else {
        s.push_str(" -/");
    }
    s
}

/// One hostile comment of a random kind, wrapped so that it can be dropped into any token gap: block comments
/// often open after a line break and some indentation, line comments end their line.
pub fn comment(rng: &mut Rng, tag: usize) -> String {
    match rng.below(6) {
        | 0 | 1 => line_comment(rng, tag),
        | 2 => {
            // documentation lines start their own line
            format!("\n{}", doc_lines(rng, tag))
        }
        | _ => {
            let c = block_comment(rng, tag);
            match rng.below(4) {
                | 0 => c,
                | 1 => format!("{}\n", c),
                | _ => {
                    let indent: String = (0..rng.below(7)).map(|_| if rng.chance(1, 5) { '\t' } else { ' ' }).collect();
                    format!("\n{}{}{}", indent, c, if rng.chance(1, 2) { "\n" } else { " " })
                }
            }
        }
    }
}

/// Insert `n` hostile comments at random token gaps of `src` (which stays parseable iff it was).
pub fn with_comments(src: &str, rng: &mut Rng, n: usize) -> String {
    let tokens = scan::scan(src);
    if tokens.is_empty() {
        return src.to_string();
    }
    let inserts: Vec<(usize, String)> = (0..n).map(|k| (rng.below(tokens.len() + 1), comment(rng, k + 1))).collect();
    super::mutate::with_gap_inserts(src, &tokens, &inserts)
}

/// Replace some horizontal gaps between tokens by tabs / form feeds / runs of spaces (all skip characters), and
/// sometimes add trailing blanks before line breaks. Line structure is kept.
pub fn skip_character_spacing(src: &str, rng: &mut Rng) -> String {
    let tokens: Vec<Token> = scan::scan(src);
    let mut out = String::new();
    let mut pos = 0;
    for t in &tokens {
        let gap = &src[pos..t.start];
        if gap.is_empty() || pos == 0 {
            out.push_str(gap);
        } else if gap.contains('\n') {
            if rng.chance(1, 6) {
                out.push_str(*rng.pick(&[" ", "\t", "  \t", "\x0c"]));
            }
            out.push_str(gap);
        } else if rng.chance(1, 3) {
            out.push_str(*rng.pick(&["\t", "\t\t", " \t", "\x0c", "    ", " \x0c "]));
        } else {
            out.push_str(gap);
        }
        out.push_str(&src[t.start..t.end]);
        pos = t.end;
    }
    out.push_str(&src[pos..]);
    out
}

/// Whole-file decorations for totality checks; the result need not be readable any more.
pub fn decorate_file(src: &str, rng: &mut Rng) -> String {
    match rng.below(10) {
        | 0 => src.replace('\n', "\r\n"),
        | 1 => format!("\u{FEFF}{}", src),
        | 2 => format!("{}\u{0}", src),
        | 3 => src.trim_end().to_string(),
        | 4 => format!("{}\n\n\n", src),
        | 5 => format!("{}{}", src, block_comment(rng, 99).trim_end_matches("-/")), // unterminated trailing comment
        | 6 => format!("{}-- h98 no newline at end", src),
        | 7 => format!("\n\n{}", src),
        | 8 => src.replace("  ", "\t"),
        | _ => src.to_string(),
    }
}
