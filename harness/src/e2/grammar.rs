//! E2 (ii) — grammar-directed random generator over the productions of `parser.lalrpop`:
//! parse-valid by construction, not well-typed (nor well-scoped).

use crate::util::rng::Rng;

pub struct Gram<'a> {
    pub rng: &'a mut Rng,
    budget: i64,
    /// allow `@[format(...)]` directives (C12-C14 drive those separately)
    pub format_directives: bool,
    /// allow import directives (they make loading depend on other files)
    pub imports: bool,
}

const LOWER: &[&str] = &["x", "y", "z", "f", "g", "acc", "n'", "k?", "_t", "go-1", "a*b", "q=1", "v~"];
const UPPER: &[&str] = &["A", "B", "T", "Foo", "Int64", "List", "M'", "R?"];
const CTORS: &[&str] = &["+A", "+B", "+Some", "+None", "+Cons'", "+X1"];
const DTORS: &[&str] = &[".a", ".b", ".head", ".tail", ".run'", ".x1"];
const FIELDS: &[&str] = &["fa", "fb", "name", "val", "Fld"];

impl<'a> Gram<'a> {
    pub fn new(rng: &'a mut Rng, budget: i64) -> Self {
        Gram { rng, budget, format_directives: false, imports: false }
    }

    pub fn pick_below(&mut self, n: usize) -> usize {
        self.rng.below(n)
    }

    fn low(&mut self) -> bool {
        self.budget -= 1;
        self.budget <= 0
    }
    fn lower(&mut self) -> String {
        (*self.rng.pick(LOWER)).to_string()
    }
    fn upper(&mut self) -> String {
        (*self.rng.pick(UPPER)).to_string()
    }
    fn var(&mut self) -> String {
        if self.rng.chance(1, 3) { self.upper() } else { self.lower() }
    }
    fn field(&mut self) -> String {
        (*self.rng.pick(FIELDS)).to_string()
    }
    fn sp(&mut self) -> &'static str {
        match self.rng.below(10) {
            | 0 => "\n",
            | 1 => "\n  ",
            | 2 => "  ",
            | _ => " ",
        }
    }

    pub fn literal(&mut self) -> String {
        if self.rng.chance(1, 8) {
            // string literals with raw line breaks, blanks before a line break, non-ASCII content
            return (*self.rng.pick(&[
                "\"a\nb\"",
                "\"first  \n  second\n\"",
                "\"\n\"",
                "\"tab\there\"",
                "\"é λ 🙂\"",
                "\"-- not a comment\"",
                "\"/- nor this -/\"",
                "\"line\n      indented continuation\nlast\"",
                "'|'",
                "'\\''",
                "' '",
                // characters that a debug-style printer would escape in ways the lexer does not know
                "\"zero\u{200b}width\"",
                "\"del\u{7f}\"",
                "\"nul\u{0}\"",
                "\"bell\u{7}esc\u{1b}\"",
                "\"rtl\u{202e}\u{feff}\"",
                "\"cr\\r tab\\t\"",
                // a decimal beyond the range of Float64
                "1e999",
            ]))
            .to_string();
        }
        match self.rng.below(8) {
            | 0 => format!("{}", self.rng.range(-1000, 1000)),
            | 1 => format!("+{}", self.rng.below(100)),
            | 2 => format!("{}.{}", self.rng.below(100), self.rng.below(100)),
            | 3 => format!("{}e{}", self.rng.below(100), self.rng.below(30)),
            | 4 => "\"str\"".into(),
            | 5 => "\"a\\nb\\\"c\\\\\"".into(),
            | 6 => "'c'".into(),
            | _ => "'\\n'".into(),
        }
    }

    pub fn meta(&mut self, depth: usize) -> String {
        match self.rng.below(if depth == 0 { 3 } else { 5 }) {
            | 0 => "\"text\"".to_string(),
            | 1 => format!("{}", self.rng.range(-50, 50)),
            | 2 => (*self.rng.pick(&["doc", "literal", "monadic", "foo", "end", "let", "match", "Bar"])).to_string(),
            | _ => {
                let callee = (*self.rng.pick(&["foo", "debug", "doc", "literal", "builtin", "intrinsic", "bar", "data", "in"])).to_string();
                let n = self.rng.below(4);
                let args: Vec<String> = (0..n).map(|_| self.meta(depth - 1)).collect();
                let trailing = if n > 0 && self.rng.chance(1, 5) { "," } else { "" };
                format!("{}({}{})", callee, args.join(", "), trailing)
            }
        }
    }

    fn annotation(&mut self) -> String {
        if self.format_directives && self.rng.chance(1, 3) {
            let opts = [
                "width(40)", "width(1)", "width(200)", "indent(4)", "indent(1)", "layout(preserve)", "layout(blank_lines)", "layout(ignore)",
                "parentheses(minimal)", "parentheses(preserve)", "verbatim", "indent(1000000000000)", "width(1000000000000)", "indent(0)", "width(0)",
            ];
            // options that do not validate (misspelt, wrong argument shape, unknown value); a directive with one of them,
            // or with an option given twice, is inert and must format like a term without it
            let bad = ["indnet(4)", "verbatim(true)", "width()", "width(10, 20)", "width(\"80\")", "layout(sideways)", "100", "\"verbatim\"", "Width(40)", "parentheses()", "indent(-1)"];
            let n = 1 + self.rng.below(2);
            let mut chosen: Vec<&str> = Vec::new();
            let allow_repeats = self.rng.chance(1, 8);
            for _ in 0..n {
                let o = *self.rng.pick(&opts);
                let key = o.split('(').next().unwrap();
                if allow_repeats || !chosen.iter().any(|c| c.split('(').next().unwrap() == key) {
                    chosen.push(o);
                }
            }
            if self.rng.chance(1, 8) {
                let at = self.rng.below(chosen.len() + 1);
                chosen.insert(at, *self.rng.pick(&bad));
            }
            return format!("@[format({})]", chosen.join(", "));
        }
        if self.imports && self.rng.chance(1, 4) {
            return format!("@[import({})]", self.rng.pick(&["\"p.zy\"", "\"\"", "0", "1", "-1", "\"a\", \"b\"", "foo"]));
        }
        format!("@[{}]", self.meta(2))
    }

    /* -------------------------------- patterns -------------------------------- */

    pub fn pattern(&mut self, depth: usize) -> String {
        if depth == 0 || self.low() {
            return match self.rng.below(4) {
                | 0 => "_".into(),
                | 1 => "()".into(),
                | _ => self.var(),
            };
        }
        match self.rng.below(9) {
            | 0 => "_".into(),
            | 1 => self.var(),
            | 2 => format!("{} {}", self.rng.pick(CTORS), self.pattern(depth - 1)),
            | 3 => format!("{}({})", self.rng.pick(CTORS), self.pattern_ann(depth - 1)),
            | 4 => {
                // manifest pattern
                format!("({} as {})", self.pattern_ann(depth - 1), self.term(depth - 1))
            }
            | 5 => {
                let n = 2 + self.rng.below(2);
                let parts: Vec<String> = (0..n).map(|_| self.pattern_ann(depth - 1)).collect();
                format!("({})", parts.join("; "))
            }
            | _ => {
                let n = self.rng.below(4);
                let parts: Vec<String> = (0..n).map(|_| self.pattern_ann(depth - 1)).collect();
                let trailing = if n > 0 && self.rng.chance(1, 6) { "," } else { "" };
                format!("({}{})", parts.join(", "), trailing)
            }
        }
    }

    pub fn pattern_ann(&mut self, depth: usize) -> String {
        if depth == 0 {
            return self.pattern(0);
        }
        match self.rng.below(10) {
            | 0 | 1 => format!("{} : {}", self.pattern(depth), self.term(depth - 1)),
            | 2 => format!("= {}", self.field()),
            | 3 => format!("= {} : {}", self.field(), self.term(depth - 1)),
            | 4 if self.rng.chance(1, 4) => {
                let f = self.field();
                if self.rng.chance(1, 2) { format!("{f} = ({f})") } else { format!("/{f} = ({f})") }
            }
            | 4 => format!("{} = {}", self.field(), self.pattern_ann(depth - 1)),
            | 5 => format!("/{}", self.field()),
            | 6 => format!("/{} : {}", self.field(), self.term(depth - 1)),
            | 7 => format!("/{} = {}", self.field(), self.pattern_ann(depth - 1)),
            | _ => self.pattern(depth),
        }
    }

    pub fn copattern(&mut self, depth: usize) -> String {
        let n = 1 + self.rng.below(3);
        let parts: Vec<String> = (0..n)
            .map(|_| if self.rng.chance(1, 4) { (*self.rng.pick(DTORS)).to_string() } else { self.pattern(depth) })
            .collect();
        parts.join(" ")
    }

    /* ---------------------------------- terms ---------------------------------- */

    /// level-0 term (atom)
    pub fn atom(&mut self, depth: usize) -> String {
        if depth == 0 || self.low() {
            return match self.rng.below(5) {
                | 0 => "_".into(),
                | 1 => self.literal(),
                | 2 => "()".into(),
                | _ => self.var(),
            };
        }
        let d = depth - 1;
        match self.rng.below(16) {
            | 0 => {
                let n = self.rng.below(4);
                let parts: Vec<String> = (0..n).map(|_| self.term_ann(d)).collect();
                let trailing = if n > 0 && self.rng.chance(1, 6) { "," } else { "" };
                format!("({}{})", parts.join(", "), trailing)
            }
            | 1 => "_".into(),
            | 2 => self.var(),
            | 3 => format!("{{ {} }}", self.term(d)),
            | 4 => format!("! {}", self.atom(d)),
            | 5 => format!("ret {}", self.atom(d)),
            | 6 => format!("begin{}{}{}end", self.sp(), self.term_ann(d), self.sp()),
            | 7 => format!("comatch {} => {} end", self.copattern(1), self.term(d)),
            | 8 => {
                let n = self.rng.below(4);
                let mut s = "data".to_string();
                for _ in 0..n {
                    s.push_str(&format!("{}| {} : {}", self.sp(), self.rng.pick(CTORS), self.term(d)));
                }
                format!("{} end", s)
            }
            | 9 => {
                let n = self.rng.below(4);
                let mut s = "codata".to_string();
                for _ in 0..n {
                    if self.rng.chance(1, 3) {
                        s.push_str(&format!("{}| {} {} : {}", self.sp(), self.rng.pick(DTORS), self.copattern(1), self.term(d)));
                    } else {
                        s.push_str(&format!("{}| {} : {}", self.sp(), self.rng.pick(DTORS), self.term(d)));
                    }
                }
                format!("{} end", s)
            }
            | 10 => format!("{} {}", self.rng.pick(CTORS), self.atom(d)),
            | 11 => {
                let n = self.rng.below(4);
                let mut s = format!("match {}", self.term(d));
                for _ in 0..n {
                    s.push_str(&format!("{}| {} => {}", self.sp(), self.pattern(2), self.term(d)));
                }
                format!("{}{}end", s, self.sp())
            }
            | 12 => {
                let n = self.rng.below(4);
                let mut s = "comatch".to_string();
                for _ in 0..n {
                    s.push_str(&format!("{}| {} => {}", self.sp(), self.copattern(2), self.term(d)));
                }
                format!("{}{}end", s, self.sp())
            }
            | 13 => self.literal(),
            | _ => format!("({})", self.term_ann(d)),
        }
    }

    /// any term (the loosest level); operands are parenthesised conservatively
    pub fn term(&mut self, depth: usize) -> String {
        if depth == 0 || self.low() {
            return self.atom(0);
        }
        let d = depth - 1;
        match self.rng.below(24) {
            | 0 => format!("{}/{}", self.atom(d), self.field()),
            | 1 | 2 => {
                let n = 1 + self.rng.below(3);
                let mut s = self.atom(d);
                for _ in 0..n {
                    s.push(' ');
                    s.push_str(&self.atom(d));
                }
                s
            }
            | 3 => format!("{} {}", self.atom(d), self.rng.pick(DTORS)),
            | 4 => format!("{} * {}", self.tight(d), self.tight(d)),
            | 5 => format!("{} -> {}", self.tight(d), self.tight(d)),
            | 6 => format!("pi {} . {}", self.copattern(1), self.tight(d)),
            | 7 => format!("forall {} . {}", self.copattern(1), self.tight(d)),
            | 8 => format!("sigma {} . {}", self.copattern(1), self.tight(d)),
            | 9 => {
                let n = 1 + self.rng.below(2);
                let mut s = "exists".to_string();
                for _ in 0..n {
                    let ann = if self.rng.chance(1, 4) { format!("{} ", self.annotation()) } else { String::new() };
                    if self.rng.chance(1, 2) {
                        let classifier = if self.rng.chance(1, 2) { format!(" : {}", self.tight(d)) } else { String::new() };
                        // the manifest binder sometimes in its own parentheses: `((f = x) as D : C)`
                        let binder = if self.rng.chance(1, 3) { format!("({})", self.pattern_ann(1)) } else { self.pattern_ann(1) };
                        s.push_str(&format!(" {}({} as {}{})", ann, binder, self.tight(d), classifier));
                    } else {
                        s.push_str(&format!(" {}({})", ann, self.pattern_ann(1)));
                    }
                }
                format!("{} . {}", s, self.term(d))
            }
            | 10 if self.rng.chance(1, 3) => {
                // a scope whose body is a parenthesised binder-level term, nested
                let scope = |g: &mut Gram| -> String {
                    match g.rng.below(6) {
                        | 0 => format!("fn {} =>", g.copattern(1)),
                        | 1 => format!("pi {} .", g.copattern(1)),
                        | 2 => format!("forall {} .", g.copattern(1)),
                        | 3 => format!("sigma {} .", g.copattern(1)),
                        | 4 => format!("exists ({}) .", g.pattern_ann(1)),
                        | _ => format!("fix {} =>", g.pattern(1)),
                    }
                };
                let inner = match self.rng.below(6) {
                    | 0 => format!("(@[doc] {})", self.atom(0)),
                    | 1 => format!("(@({}))", self.meta(1)),
                    | 2 => format!("(fn {} => {})", self.lower(), self.atom(0)),
                    | 3 => format!("(@[format(width(60))] {} -> {})", self.atom(0), self.atom(0)),
                    | 4 => format!("(fix {} => {})", self.lower(), self.atom(0)),
                    | _ => format!("({} {})", self.annotation(), self.atom(0)),
                };
                let mut out = inner;
                for _ in 0..1 + self.rng.below(3) {
                    let sc = scope(self);
                    out = if self.rng.chance(1, 2) { format!("({} {})", sc, out) } else { format!("{} {}", sc, out) };
                }
                out
            }
            | 10 => format!("fn {} =>{}{}", self.copattern(2), self.sp(), self.term(d)),
            | 11 => format!("fix {} =>{}{}", self.pattern(2), self.sp(), self.term(d)),
            | 12 | 13 => format!("do {} <- {};{}{}", self.pattern(2), self.tight(d), self.sp(), self.term(d)),
            | 14 => format!("param {} {}{}{}", self.pattern_ann(2), self.placement(), self.sp(), self.term(d)),
            | 15 | 16 | 17 => {
                let kw = *self.rng.pick(&["let", "def", "define"]);
                let bang = if self.rng.chance(1, 4) { "! " } else { "" };
                let fix = if self.rng.chance(1, 5) { "fix " } else { "" };
                let params = if self.rng.chance(1, 3) { format!(" {}", self.copattern(1)) } else { String::new() };
                let ty = if self.rng.chance(1, 3) { format!(" : {}", self.tight(d)) } else { String::new() };
                format!("{} {}{}{}{}{} = {} {}{}{}", kw, bang, fix, self.pattern(2), params, ty, self.term(d), self.placement(), self.sp(), self.term(d))
            }
            | 18 => {
                if self.format_directives && self.rng.chance(1, 3) {
                    // a directive inside the payload of another directive
                    let outer = self.annotation();
                    let inner = self.annotation();
                    let (a, b, c) = (self.atom(d), self.atom(d), self.atom(d));
                    return format!("{} {} ({} {}){}{}", outer, a, inner, b, self.sp(), c);
                }
                format!("{} {}", self.annotation(), self.tight(d))
            }
            | 19 => format!("@({})", self.meta(2)),
            | _ => self.atom(depth),
        }
    }

    fn placement(&mut self) -> &'static str {
        if self.rng.chance(1, 3) { "that" } else { "in" }
    }

    /// a term that is safe as an operand of infix / prefix forms: atoms and applications
    fn tight(&mut self, depth: usize) -> String {
        if self.rng.chance(1, 3) && depth > 0 {
            format!("{} {}", self.atom(depth - 1), self.atom(depth - 1))
        } else {
            self.atom(depth)
        }
    }

    pub fn term_ann(&mut self, depth: usize) -> String {
        if depth == 0 {
            return self.term(0);
        }
        match self.rng.below(10) {
            | 0 | 1 => format!("{} : {}", self.term(depth), self.term(depth - 1)),
            | 2 => format!("= {}", self.field()),
            | 3 => format!("= {} : {}", self.field(), self.term(depth - 1)),
            | 4 if self.rng.chance(1, 4) => {
                // a payload that is the field's own name in redundant parentheses (a pun once the group is dropped)
                let f = self.field();
                match self.rng.below(3) {
                    | 0 => format!("{f} = ({f})"),
                    | 1 => format!("{f} = (({f}))"),
                    | _ => format!("{f} = ({f} : {})", self.atom(0)),
                }
            }
            | 4 => format!("{} = {}", self.field(), self.term_ann(depth - 1)),
            | 5 => format!("{} :: {}", self.field(), self.term_ann(depth - 1)),
            | _ => self.term(depth),
        }
    }
}

/// A random parse-valid source unit.
pub fn source(rng: &mut Rng, format_directives: bool) -> String {
    let budget = 20 + rng.below(120) as i64;
    let depth = 2 + rng.below(4);
    let mut g = Gram::new(rng, budget);
    g.format_directives = format_directives;
    let mut s = g.term(depth);
    s.push('\n');
    s
}
