//! Minimal hand-written Builtin signatures (only the roles a program needs; ≈3 ms per program instead
//! of ≈32 ms over lib/std/builtin.zy) and the text of each role's declared type.

use zydeco_syntax::{BuiltinValueRole as Role, FloatOperation, FloatType, IntegerOperation, IntegerType};

pub fn int_type_name(t: IntegerType) -> &'static str {
    t.type_name()
}

pub fn int_intrinsic(t: IntegerType) -> &'static str {
    match t {
        | IntegerType::Int8 => "i8",
        | IntegerType::Int16 => "i16",
        | IntegerType::Int32 => "i32",
        | IntegerType::Int64 => "i64",
        | IntegerType::UInt8 => "u8",
        | IntegerType::UInt16 => "u16",
        | IntegerType::UInt32 => "u32",
        | IntegerType::UInt64 => "u64",
    }
}

pub fn float_type_name(t: FloatType) -> &'static str {
    match t {
        | FloatType::Float32 => "Float32",
        | FloatType::Float64 => "Float64",
    }
}

pub fn float_intrinsic(t: FloatType) -> &'static str {
    match t {
        | FloatType::Float32 => "f32",
        | FloatType::Float64 => "f64",
    }
}

/// The declared type of a role as the standard signature states it, over the type names this prelude binds
/// (`OSType`, `ReaderType`, `WriterType` are the abstract capabilities of the package).
pub fn role_type(role: Role) -> String {
    let binary = |t: &str| format!("Thk ({t} -> {t} -> Ret {t})");
    let branch = |t: &str| format!("Thk (forall (R : CType) . {t} -> {t} -> Thk R -> Thk R -> R)");
    let render = |t: &str| format!("Thk ({t} -> Ret String)");
    let err = "Thk (Int64 -> String -> OSType)";
    match role {
        | Role::Integer(t, op) => {
            let t = int_type_name(t);
            match op {
                | IntegerOperation::Add | IntegerOperation::Sub | IntegerOperation::Mul | IntegerOperation::Div | IntegerOperation::Mod => binary(t),
                | IntegerOperation::Eq | IntegerOperation::Lt | IntegerOperation::Gt => branch(t),
                | IntegerOperation::ToString => render(t),
            }
        }
        | Role::Float(t, op) => {
            let t = float_type_name(t);
            match op {
                | FloatOperation::Add | FloatOperation::Sub | FloatOperation::Mul | FloatOperation::Div => binary(t),
                | FloatOperation::Eq | FloatOperation::Lt | FloatOperation::Gt => branch(t),
                | FloatOperation::ToString => render(t),
            }
        }
        | Role::StrScalarLength | Role::StrByteLength => "Thk (String -> Ret Int64)".into(),
        | Role::StrAppend => "Thk (String -> String -> Ret String)".into(),
        | Role::StrSplitOnce => "Thk (forall (R : CType) . String -> Char -> Thk R -> Thk (String -> String -> R) -> R)".into(),
        | Role::StrSplitAt => "Thk (forall (R : CType) . String -> Int64 -> Thk R -> Thk (String -> String -> R) -> R)".into(),
        | Role::StrEq => "Thk (forall (R : CType) . String -> String -> Thk R -> Thk R -> R)".into(),
        | Role::StrGet => "Thk (forall (R : CType) . String -> Int64 -> Thk R -> Thk (Char -> R) -> R)".into(),
        | Role::CharToStr => "Thk (Char -> Ret String)".into(),
        | Role::CharCodepoint => "Thk (Char -> Ret Int64)".into(),
        | Role::CharFromCodepoint => "Thk (forall (R : CType) . Int64 -> Thk R -> Thk (Char -> R) -> R)".into(),
        | Role::StrParseInt => "Thk (forall (R : CType) . String -> Thk R -> Thk (Int64 -> R) -> R)".into(),
        | Role::BytesEmpty => "Thk (Ret Bytes)".into(),
        | Role::BytesLength => "Thk (Bytes -> Ret Int64)".into(),
        | Role::BytesAppend => "Thk (Bytes -> Bytes -> Ret Bytes)".into(),
        | Role::BytesFromStr => "Thk (String -> Ret Bytes)".into(),
        | Role::BytesToStr => "Thk (forall (R : CType) . Bytes -> Thk R -> Thk (String -> R) -> R)".into(),
        | Role::Stdin => "Thk (Ret ReaderType)".into(),
        | Role::Stdout | Role::Stderr => "Thk (Ret WriterType)".into(),
        | Role::IoRead => format!("Thk (ReaderType -> Int64 -> {err} -> Thk (Bytes -> OSType) -> OSType)"),
        | Role::IoReadLine => format!("Thk (ReaderType -> {err} -> Thk OSType -> Thk (Bytes -> OSType) -> OSType)"),
        | Role::IoReadAll => format!("Thk (ReaderType -> {err} -> Thk (Bytes -> OSType) -> OSType)"),
        | Role::IoWriteAll => format!("Thk (WriterType -> Bytes -> {err} -> Thk OSType -> OSType)"),
        | Role::IoFlush => format!("Thk (WriterType -> {err} -> Thk OSType -> OSType)"),
        | Role::IoCloseReader => format!("Thk (ReaderType -> {err} -> Thk OSType -> OSType)"),
        | Role::IoCloseWriter => format!("Thk (WriterType -> {err} -> Thk OSType -> OSType)"),
        | Role::FsOpenReader => format!("Thk (String -> {err} -> Thk (ReaderType -> OSType) -> OSType)"),
        | Role::FsCreateWriter | Role::FsAppendWriter => format!("Thk (String -> {err} -> Thk (WriterType -> OSType) -> OSType)"),
        | Role::WriteStr | Role::WriteLine => "Thk (String -> Thk OSType -> OSType)".into(),
        | Role::WriteInt => "Thk (Int64 -> Thk OSType -> OSType)".into(),
        | Role::ReadLine | Role::ReadTillEof => "Thk (Thk (String -> OSType) -> OSType)".into(),
        | Role::ReadLineAsInt => "Thk (Thk OSType -> Thk (Int64 -> OSType) -> OSType)".into(),
        | Role::ArgList => "Thk (forall (R : CType) . Thk R -> Thk (String -> Thk R -> R) -> R)".into(),
        | Role::RandomInt => "Thk (Thk (Int64 -> OSType) -> OSType)".into(),
        | Role::Exit => "Thk (Int64 -> OSType)".into(),
    }
}

/// A minimal Builtin signature prelude binding `roles` under the given field names.
#[derive(Clone, Debug, Default)]
pub struct MiniPrelude {
    pub roles: Vec<(String, Role)>,
    /// override of a role's declared type text (signature-mutation tests)
    pub type_override: Vec<(String, String)>,
}

impl MiniPrelude {
    pub fn new() -> Self {
        Self::default()
    }
    pub fn role(mut self, field: &str, role: Role) -> Self {
        if !self.roles.iter().any(|(f, _)| f == field) {
            self.roles.push((field.to_string(), role));
        }
        self
    }
    pub fn with_type(mut self, field: &str, ty: &str) -> Self {
        self.type_override.push((field.to_string(), ty.to_string()));
        self
    }
    /// The usual set for generated core-language programs.
    pub fn core() -> Self {
        use IntegerOperation::*;
        use IntegerType::Int64;
        Self::new()
            .role("exit", Role::Exit)
            .role("write_line", Role::WriteLine)
            .role("add", Role::Integer(Int64, Add))
            .role("sub", Role::Integer(Int64, Sub))
            .role("mul", Role::Integer(Int64, Mul))
            .role("int_eq", Role::Integer(Int64, Eq))
            .role("int_lt", Role::Integer(Int64, Lt))
            .role("to_string", Role::Integer(Int64, ToString))
            .role("append", Role::StrAppend)
            .role("str_eq", Role::StrEq)
    }

    /// Text up to and including the `in` after the `param`; the program body (of type `OS`) follows.
    pub fn text(&self) -> String {
        let mut s = String::new();
        s.push_str("let VType = @(intrinsic(vtype)) in\nlet CType = @(intrinsic(ctype)) in\n");
        s.push_str("let Thk = @(intrinsic(thk)) in\nlet Ret = @(intrinsic(ret)) in\nlet Unit = @(intrinsic(unit)) in\n");
        for t in IntegerType::ALL {
            s.push_str(&format!("let {} = @(intrinsic({})) in\n", int_type_name(t), int_intrinsic(t)));
        }
        s.push_str("let Float32 = @(intrinsic(f32)) in\nlet Float64 = @(intrinsic(f64)) in\n");
        s.push_str("let Char = @(intrinsic(char)) in\nlet String = @(intrinsic(string)) in\nlet Bytes = @(intrinsic(bytes)) in\n");
        s.push_str("param (\n  (/Reader; /Writer; /OS");
        for (field, _) in &self.roles {
            s.push_str(&format!("; /{}", field));
        }
        s.push_str(") :\n  exists @[builtin(reader)] (Reader = ReaderType : VType)\n    @[builtin(writer)] (Writer = WriterType : VType)\n    @[builtin(os)] (OS = OSType : CType) .\n");
        for (field, role) in &self.roles {
            let ty = self
                .type_override
                .iter()
                .find(|(f, _)| f == field)
                .map(|(_, t)| t.clone())
                .unwrap_or_else(|| role_type(*role));
            s.push_str(&format!("      (@[builtin({})] ({} :: {})) *\n", role.source_name(), field, ty));
        }
        s.push_str("      Unit\n) in\n");
        s
    }
}
